"""One minimal witness per genuine defect found on the pinned aw-core tree (DESIGN.md §6).
Each function returns a string describing the failure when the defect manifests on the
aw-core importable from sys.path, and None when the behaviour is right.  The checks run
these first (corpus), so a regression of a `fix:` commit is re-reported with a concrete
replay.  usage: python witnesses.py [name ...]"""
import os
import shutil
import sys
import tempfile
from datetime import datetime, timedelta, timezone

UTC = timezone.utc
T0 = datetime(2020, 1, 1, tzinfo=UTC)


def _env():
    tmp = tempfile.mkdtemp(prefix="awwit-")
    for k in ("XDG_DATA_HOME", "XDG_CONFIG_HOME", "XDG_CACHE_HOME"):
        os.environ[k] = os.path.join(tmp, k)
    import logging
    logging.disable(logging.CRITICAL)
    return tmp


def _sqlite(tmp, name="w.db"):
    from aw_datastore.storages import SqliteStorage
    return SqliteStorage(testing=True, filepath=os.path.join(tmp, name))


def _ev(t, d, data, eid=None):
    from aw_core.models import Event
    return Event(id=eid, timestamp=T0 + timedelta(seconds=t), duration=timedelta(seconds=d), data=data)


def _mk(storage, *ids):
    for b in ids:
        storage.create_bucket(b, "t", "c", "h", T0.isoformat(), None, None)


def w01_memory_shares_objects(tmp):
    from aw_datastore.storages import MemoryStorage
    s = MemoryStorage(testing=True)
    _mk(s, "b")
    e = _ev(0, 1, {"k": {"n": 1}})
    r = s.insert_one("b", e)
    e.data["k"]["n"] = 2
    if s.get_events("b", -1)[0].data != {"k": {"n": 1}}:
        return "mutating the inserted event's nested data changed the stored event"
    r.data["k"]["n"] = 3
    r.duration = timedelta(seconds=9)
    got = s.get_events("b", -1)[0]
    if got.data != {"k": {"n": 1}} or got.duration != timedelta(seconds=1):
        return "mutating the event returned by insert changed the stored event"
    m = s.get_metadata("b")
    m["type"] = "changed"
    if s.get_metadata("b")["type"] != "t":
        return "mutating the metadata dict handed out changed the stored metadata"
    e2 = _ev(5, 1, {"k": {"n": 1}})
    s.replace("b", got.id, e2)
    e2.data["k"]["n"] = 7
    if s.get_events("b", -1)[0].data != {"k": {"n": 1}}:
        return "mutating the event passed to replace changed the stored event"
    return None


def w02_memory_count_uses_start(tmp):
    from aw_datastore.storages import MemoryStorage
    s = MemoryStorage(testing=True)
    _mk(s, "b")
    s.insert_one("b", _ev(0, 100, {}))
    st, en = T0 + timedelta(seconds=50), T0 + timedelta(seconds=60)
    n, c = len(s.get_events("b", -1, st, en)), s.get_eventcount("b", st, en)
    if n != c:
        return f"window read returns {n} events but count says {c}"
    return None


def w03_sqlite_float_codec(tmp):
    from aw_core.models import Event
    s = _sqlite(tmp)
    _mk(s, "b")
    ts = datetime(1970, 1, 1, tzinfo=UTC) + timedelta(microseconds=2250122380221000)
    dur = timedelta(microseconds=2141079079834)
    s.insert_one("b", Event(timestamp=ts, duration=dur, data={}))
    got = s.get_events("b", -1)[0]
    if got.duration != dur or got.timestamp != ts:
        return f"stored {ts} +{dur}, read {got.timestamp} +{got.duration}"
    return None


def w04_sqlite_order_by_endtime(tmp):
    s = _sqlite(tmp)
    _mk(s, "b")
    s.insert_one("b", _ev(0, 100, {"x": "outer"}))
    s.insert_one("b", _ev(10, 1, {"x": "inner"}))
    got = [e.data["x"] for e in s.get_events("b", -1)]
    if got != ["inner", "outer"]:
        return f"events not ordered by timestamp descending: {got}"
    if s.get_events("b", 1)[0].data["x"] != "inner":
        return "limit=1 does not keep the newest event"
    return None


def w05_sqlite_replace_last_tie(tmp):
    s = _sqlite(tmp)
    _mk(s, "b")
    s.insert_one("b", _ev(0, 10, {"x": "A"}))
    s.insert_one("b", _ev(10, 0, {"x": "B"}))
    last = s.get_events("b", 1)[0]
    s.replace_last("b", _ev(10, 5, {"x": "B2"}))
    got = {e.id: e.data["x"] for e in s.get_events("b", -1)}
    if got.get(last.id) != "B2" or sorted(got.values()) != ["A", "B2"]:
        return f"replace_last did not rewrite the event limit-1 returned (id {last.id}): {got}"
    return None


def w05b_sqlite_replace_last_unscoped(tmp):
    s = _sqlite(tmp)
    _mk(s, "a", "b")
    s.insert_one("a", _ev(0, 10, {"x": "a0"}))
    s.insert_one("b", _ev(5, 5, {"x": "b0"}))
    s.replace_last("b", _ev(5, 6, {"x": "b1"}))
    a = [e.data["x"] for e in s.get_events("a", -1)]
    b = [e.data["x"] for e in s.get_events("b", -1)]
    if a != ["a0"] or b != ["b1"]:
        return f"replace_last on b with an end instant shared with a: a={a} b={b}"
    return None


def w06_sqlite_replace_moves_foreign(tmp):
    s = _sqlite(tmp)
    _mk(s, "a", "b")
    ea = s.insert_one("a", _ev(0, 1, {"x": "a0"}))
    s.replace("b", ea.id, _ev(3, 1, {"x": "stolen"}))
    a = [e.data["x"] for e in s.get_events("a", -1)]
    if a != ["a0"]:
        return f"replace addressed to b changed bucket a: {a}"
    return None


def w07_sqlite_delete_uncommitted(tmp):
    import sqlite3
    s = _sqlite(tmp)
    _mk(s, "b")
    s.insert_many("b", [_ev(i, 1, {}) for i in range(100)])
    ids = [e.id for e in s.get_events("b", -1)]  # get_events commits
    for i in ids:
        s.delete("b", i)
    c2 = sqlite3.connect(os.path.join(tmp, "w.db"))
    n = c2.execute("SELECT count(*) FROM events").fetchone()[0]
    c2.close()
    if n > 50:
        return f"{100 - 0} deletions issued, {n} of 100 events still present in the committed database"
    return None


def w21_sqlite_failed_bulk_insert_uncounted(tmp):
    import sqlite3
    s = _sqlite(tmp)
    _mk(s, "b")
    bad = _ev(0, 86400 * 200_000_000, {})  # end instant does not fit SQLite's 64-bit INTEGER
    for _ in range(3):
        try:
            s.insert_many("b", [_ev(i, 1, {}) for i in range(40)] + [bad])
        except OverflowError:
            pass
    c2 = sqlite3.connect(os.path.join(tmp, "w.db"))
    n = c2.execute("SELECT count(*) FROM events").fetchone()[0]
    c2.close()
    mine = s.conn.execute("SELECT count(*) FROM events").fetchone()[0]
    if mine - n > 50:
        return f"{mine} rows written by three failing bulk inserts, only {n} committed (uncounted, unbounded)"
    return None


def w08_sqlite_age_commit(tmp):
    import sqlite3
    import aw_datastore.storages.sqlite as sq
    real = sq.datetime

    class FakeDT(real):
        offset = timedelta(0)

        @classmethod
        def now(cls, tz=None):
            return real.now(tz) + cls.offset
    sq.datetime = FakeDT
    try:
        s = _sqlite(tmp)
        _mk(s, "b")
        FakeDT.offset = timedelta(seconds=30)
        s.insert_one("b", _ev(0, 1, {}))
        c2 = sqlite3.connect(os.path.join(tmp, "w.db"))
        n = c2.execute("SELECT count(*) FROM events").fetchone()[0]
        c2.close()
        if n != 1:
            return "an insert issued 30 s after the last commit was not committed"
    finally:
        sq.datetime = real
    return None


def w09_peewee_upsert_moves_foreign(tmp):
    from aw_datastore.storages import PeeweeStorage
    s = PeeweeStorage(testing=True, filepath=os.path.join(tmp, "p.db"))
    try:
        _mk(s, "a", "b")
        ea = s.insert_one("a", _ev(0, 1, {"x": "a0"}))
        try:
            s.insert_many("b", [_ev(3, 1, {"x": "stolen"}, eid=ea.id)])
        except Exception:
            pass  # rejecting is allowed
        a = [e.data["x"] for e in s.get_events("a", -1)]
        if a != ["a0"]:
            return f"bulk upsert addressed to b changed bucket a: {a}"
    finally:
        s.db.close()
    return None


def w16_peewee_insert_one_with_id_moves_foreign(tmp):
    from aw_datastore.storages import PeeweeStorage
    s = PeeweeStorage(testing=True, filepath=os.path.join(tmp, "p.db"))
    try:
        _mk(s, "a", "b")
        ea = s.insert_one("a", _ev(0, 1, {"x": "a0"}))
        try:
            s.insert_one("b", _ev(3, 1, {"x": "stolen"}, eid=ea.id))
        except Exception:
            pass  # rejecting is allowed
        a = [e.data["x"] for e in s.get_events("a", -1)]
        if a != ["a0"]:
            return f"insert of an event carrying a foreign id into b changed bucket a: {a}"
    finally:
        s.db.close()
    return None


def w18_peewee_clip_negative_duration(tmp):
    from aw_datastore import Datastore
    from aw_datastore.storages import PeeweeStorage
    ds = Datastore(lambda testing: PeeweeStorage(testing=True, filepath=os.path.join(tmp, "p.db")), testing=True)
    try:
        ds.create_bucket("b", "t", "c", "h", created=T0)
        b = ds["b"]
        from aw_core.models import Event
        b.insert(Event(timestamp=T0, duration=timedelta(microseconds=999_600), data={}))
        got = b.get(-1, T0 + timedelta(seconds=1), None)
        for e in got:
            if e.duration < timedelta(0):
                return f"window read returned an event of negative duration {e.duration.total_seconds()} s"
    finally:
        ds.storage_strategy.db.close()
    return None


def w10_migration_loses_events(tmp):
    from aw_datastore.storages import PeeweeStorage, SqliteStorage
    pw = PeeweeStorage(testing=True)
    pw.create_bucket("b", "t", "c", "h", T0.isoformat(), "nm", {"k": "v"})
    pw.insert_many("b", [_ev(i, 1, {"i": i}) for i in range(5)])
    pw.db.close()
    s = SqliteStorage(testing=True)
    try:
        bs = s.buckets()
        if "b" not in bs:
            return "bucket not migrated"
        if bs["b"]["data"] != {"k": "v"}:
            return f"bucket data lost: {bs['b']['data']}"
        n = len(s.get_events("b", -1))
        if n != 5:
            return f"{n} of 5 events migrated"
    finally:
        s.conn.close()
    return None


def w19_migration_tail_uncommitted(tmp):
    import sqlite3
    from aw_datastore.storages import PeeweeStorage, SqliteStorage
    pw = PeeweeStorage(testing=True)
    pw.create_bucket("b", "t", "c", "h", T0.isoformat(), "nm", {"k": "v"})
    pw.insert_many("b", [_ev(i, 1, {"i": i}) for i in range(5)])
    pw.db.close()
    s = SqliteStorage(testing=True)
    try:
        path = s.conn.execute("PRAGMA database_list").fetchone()[2]
        c2 = sqlite3.connect(path)
        n = c2.execute("SELECT count(*) FROM events").fetchone()[0]
        c2.close()
        if n != 5:
            return f"after the migration returned, {n} of 5 migrated events are committed (a crash now loses the rest for good)"
    finally:
        s.conn.close()
    return None


def w11_union_no_overlap(tmp):
    from aw_transform.union_no_overlap import union_no_overlap
    a, b = [_ev(0, 6, {"l": 1})], [_ev(0, 2, {"l": 2}), _ev(4, 2, {"l": 2})]
    out = union_no_overlap(a, b)
    if any(e.data == {"l": 2} and e.duration > timedelta(0) for e in out):
        return "list-two event fully covered by a list-one event survives: " + str([(e.timestamp.second, e.duration.seconds, e.data) for e in out])
    a, b = [_ev(8, 0, {"l": 1})], [_ev(8, 4, {"l": 2})]
    out = union_no_overlap(a, b)
    if sum((e.duration for e in out if e.data == {"l": 2}), timedelta(0)) != timedelta(seconds=4):
        return "zero-length list-one event deletes the list-two event starting there"
    return None


def w12_merge_keys_confusion(tmp):
    from aw_transform import merge_events_by_keys
    out = merge_events_by_keys([_ev(0, 1, {"a": 1}), _ev(1, 2, {"b": 1})], ["a", "b"])
    if len(out) != 2:
        return f"events {{a:1}} and {{b:1}} merged under keys [a,b]: {[(e.duration.seconds, e.data) for e in out]}"
    return None


def _echo():
    from aw_query.functions import q2_function

    @q2_function()
    def q2_echo(*args):
        return list(args)


def w13_query_drops_args(tmp):
    from aw_datastore import Datastore
    from aw_datastore.storages import MemoryStorage
    from aw_query import query2
    _echo()
    ds = Datastore(MemoryStorage, testing=True)
    for q, want in (("RETURN = echo([1], 2, 3);", [[1], 2, 3]), ("RETURN = echo([1,2],[3,4],5);", [[1, 2], [3, 4], 5]),
                    ('RETURN = echo({"a": 1}, 2, 3);', [{"a": 1}, 2, 3]), ("RETURN = echo(nop(), 2, 3);", [1, 2, 3])):
        got = query2.query("n", q, T0, T0, ds)
        if got != want:
            return f"{q!r} evaluates to {got}, text says {want}"
    return None


def w14_query_indexerror(tmp):
    from aw_datastore import Datastore
    from aw_datastore.storages import MemoryStorage
    from aw_query import query2
    from aw_query.exceptions import QueryException
    _echo()
    ds = Datastore(MemoryStorage, testing=True)
    for q in ("RETURN = echo( );", 'RETURN = {"a"};', "RETURN = limit_events([]);", "RETURN", "x;RETURN=1", "RETURN = [1, ];", "RETURN = { };"):
        try:
            query2.query("n", q, T0, T0, ds)
        except QueryException:
            pass
        except Exception as ex:
            return f"{q!r} raises {type(ex).__name__}"
    try:
        query2.query("n", "RETURN", T0, T0, ds)
        return "'RETURN' (no '=') yields a value"
    except QueryException:
        pass
    return None


def w17_query_int_valueerror(tmp):
    from aw_datastore import Datastore
    from aw_datastore.storages import MemoryStorage
    from aw_query import query2
    from aw_query.exceptions import QueryException
    ds = Datastore(MemoryStorage, testing=True)
    for q in ("RETURN=" + "1" * 4301, "RETURN=\u00b2", "RETURN=[1, \u00b2]"):
        try:
            query2.query("n", q, T0, T0, ds)
        except QueryException:
            pass
        except Exception as ex:
            return f"{q[:20]!r}... raises {type(ex).__name__}"
    return None


def w15_config_merge(tmp):
    from aw_core.config import _comment_out_toml, _merge
    import tomlkit
    got = _merge(tomlkit.parse("a = 1\n"), tomlkit.parse("a = true\n"))
    if got["a"] is not True:
        return f"user wrote a = true, effective config has a = {got['a']!r}"
    doc = "[t]\nx = 1\n\n[[aot]]\nn = 1\n\n[[aot]]\nn = 2\n"
    eff = _merge(tomlkit.parse(doc).unwrap(), tomlkit.parse(_comment_out_toml(doc)).unwrap())
    if eff != tomlkit.parse(doc).unwrap():  # compare plain values: tomlkit containers do not compare reliably
        return f"first-run file changes the effective configuration: {eff}"
    return None


def w20_config_overlay_on_tomlkit_containers(tmp):
    from aw_core import dirs
    from aw_core.config import load_config_toml

    def run(app, default, user):
        d = dirs.get_config_dir(app)
        with open(os.path.join(d, app + ".toml"), "w") as f:
            f.write(user)
        try:
            r = load_config_toml(app, default)
            return r.unwrap() if hasattr(r, "unwrap") else r
        except Exception as ex:
            return f"raised {type(ex).__name__}: {ex}"
    got = run("w20a", 'a = {p = 1}\n', '[a]\np = true\n[a.t]\na = true\n')
    if got != {"a": {"p": True, "t": {"a": True}}}:
        return f"inline-table default extended by user sections: {got}"
    got = run("w20b", '[[b.b]]\n[b]\nc = 0\n[[b.b]]\n', '[[b.b]]\n')
    if got != {"b": {"b": [{}], "c": 0}}:
        return f"default key lost when the user overrides a split array of tables: {got}"
    return None


def w22_sqlite_bulk_partial_age_flush(tmp):
    import sqlite3
    import aw_datastore.storages.sqlite as sq
    real = sq.datetime

    class FakeDT(real):
        offset = timedelta(0)

        @classmethod
        def now(cls, tz=None):
            return real.now(tz) + cls.offset
    sq.datetime = FakeDT
    try:
        path = os.path.join(tmp, "w.db")

        def committed():
            c2 = sqlite3.connect(path)
            try:
                return sorted(json_n for (json_n,) in c2.execute("SELECT datastr FROM events"))
            finally:
                c2.close()
        # (a) the storage object: a list of id-carrying events, more than 10 s after the last flush
        s = _sqlite(tmp)
        _mk(s, "b")
        s.insert_many("b", [_ev(i, 1, {"n": i}) for i in range(3)])
        got = s.get_events("b", -1)  # a read flushes
        FakeDT.offset = timedelta(seconds=30)
        for e in got:
            e.data = {"n": e.data["n"] + 100}
        s.insert_many("b", got)
        seen = committed()
        want = sorted('{"n": %d}' % (100 + i) for i in range(3))
        if seen != want or s.num_uncommitted_statements != 0:
            return (f"insert_many of 3 id-carrying events issued 30 s after the last flush returned with "
                    f"{sum(1 for x in seen if x in want)} of 3 rewrites committed "
                    f"(num_uncommitted_statements = {s.num_uncommitted_statements})")
        # (b) ids and id-less events in one list, 30 s later again
        FakeDT.offset = timedelta(seconds=60)
        s.insert_many("b", [_ev(0, 1, {"n": 200}, eid=got[0].id), _ev(9, 1, {"n": 201}), _ev(10, 1, {"n": 202})])
        seen = committed()
        missing = [x for x in ('{"n": 200}', '{"n": 201}', '{"n": 202}') if x not in seen]
        if missing:
            return (f"insert_many of 1 id-carrying + 2 new events issued 30 s after the last flush returned with "
                    f"{len(missing)} of its 3 writes uncommitted")
        s.conn.close()
        # (c) the same through the public layer: Bucket.insert(list)
        from aw_datastore import Datastore
        path = os.path.join(tmp, "w2.db")
        ds = Datastore(sq.SqliteStorage, testing=True, filepath=path)
        ds.create_bucket("b", "t", "c", "h", created=T0)
        bk = ds["b"]
        bk.insert([_ev(i, 1, {"n": i}) for i in range(3)])
        got = bk.get(-1)
        FakeDT.offset = timedelta(seconds=90)
        for e in got:
            e.data = {"n": e.data["n"] + 100}
        bk.insert(got)
        seen = committed()
        if seen != want:
            return (f"Bucket.insert of a list of 3 id-carrying events issued 30 s after the last flush returned with "
                    f"{sum(1 for x in seen if x in want)} of 3 rewrites committed")
        ds.storage_strategy.conn.close()
    finally:
        sq.datetime = real
    return None


def w23_bucket_get_end_in_fold(tmp):
    """Bucket.get rounded the window end with datetime arithmetic, which returns fold=0: an end edge in the SECOND
    reading of a repeated wall-clock hour moved to the first reading and the events in between were not returned."""
    from datetime import tzinfo
    from aw_core.models import Event
    from aw_datastore import Datastore
    from aw_datastore.storages import MemoryStorage

    class FoldZone(tzinfo):
        """+02:00 before the UTC instant `sw`, +01:00 from then on: the wall-clock hour after the switch occurs twice"""

        def __init__(self, sw):
            self.sw = sw.replace(tzinfo=None)
            self.before, self.after = timedelta(hours=2), timedelta(hours=1)

        def utcoffset(self, d):
            w = d.replace(tzinfo=None)
            is_before, is_after = w - self.before < self.sw, w - self.after >= self.sw
            if is_before and is_after:
                return self.after if d.fold else self.before
            return self.before if is_before else self.after

        def dst(self, d):
            return timedelta(0)

        def tzname(self, d):
            return "fold"

        def fromutc(self, d):
            u = d.replace(tzinfo=None)
            if u < self.sw:
                return (u + self.before).replace(tzinfo=self)
            w = u + self.after
            return w.replace(tzinfo=self, fold=1 if w - self.before < self.sw else 0)

    sw = datetime(2021, 10, 31, 1, 0, tzinfo=UTC)           # Europe/Berlin left summer time at this instant
    zones = [("FoldZone", FoldZone(sw))]
    try:
        from zoneinfo import ZoneInfo
        zones.append(("Europe/Berlin", ZoneInfo("Europe/Berlin")))
    except Exception:  # noqa: BLE001 -- no tz database on this machine: the synthetic zone carries the witness
        pass
    t0 = sw - timedelta(hours=1)                            # 00:00Z
    ds = Datastore(MemoryStorage, testing=True)
    ds.create_bucket("b", "t", "c", "h", created=T0)
    b = ds["b"]
    b.insert([Event(timestamp=t0 + timedelta(minutes=15 * k), duration=timedelta(minutes=1), data={"k": k})
              for k in range(8)])
    end_utc = sw + timedelta(minutes=30)                    # 01:30Z = 02:30 local, second reading
    want = [e.data["k"] for e in b.get(-1, t0, end_utc)]
    if want != [6, 5, 4, 3, 2, 1, 0]:
        return f"the window [00:00Z, 01:30Z] written in UTC returns events {want}"
    for name, z in zones:
        end = datetime(2021, 10, 31, 2, 30, tzinfo=z, fold=1)
        if end.utcoffset() != timedelta(hours=1) or end.astimezone(UTC) != end_utc:   # (== across zones is always False in a fold, PEP 495)
            return f"{name}: 02:30 fold=1 is not 01:30Z on this machine ({end.utcoffset()})"
        got = [e.data["k"] for e in b.get(-1, t0, end)]
        n = b.get_eventcount(t0, end)
        if got != want or n != len(want):
            return (f"Bucket.get(-1, 00:00Z, 02:30 fold=1 {name}) returns events {got}, the same instants written in UTC "
                    f"return {want} (get_eventcount says {n})")
        # the edge exactly on the switch (02:00 fold=1 = 01:00Z) and a start edge in the fold
        st = datetime(2021, 10, 31, 2, 15, tzinfo=z, fold=1)        # 01:15Z
        got = [e.data["k"] for e in b.get(-1, st, end)]
        if got != [6, 5]:
            return f"Bucket.get(-1, 02:15 fold=1, 02:30 fold=1 {name}) returns events {got}, expected [6, 5]"
    return None


ALL = [v for k, v in sorted(globals().items()) if k.startswith("w") and k[1:3].isdigit()]

if __name__ == "__main__":
    sys.path.insert(0, os.environ.get("VERIF_REPO", "/repo"))
    names = sys.argv[1:]
    for w in ALL:
        if names and not any(w.__name__.startswith(n) for n in names):
            continue
        tmp = _env()
        try:
            r = w(tmp)
        except Exception as ex:  # a witness that crashes is reported, not hidden
            r = f"witness raised {type(ex).__name__}: {ex}"
        shutil.rmtree(tmp, ignore_errors=True)
        print(f"{w.__name__}: {'FAILS: ' + r if r else 'ok'}")
