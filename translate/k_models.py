"""Tie B for aw_core/models.py (C13, C01) and the two module-level codec helpers of
aw_datastore/storages/sqlite.py (C01 codec part).

  GenEventModel.v   (bridge: coq/Bridge/BridgeEventModel.v, model: Model/EventModel.v)
    models.vocabulary        fixed text: the Python datetime / dict vocabulary in terms of the model files
    _timestamp_parse         -> gen_timestamp_parse : ts_in -> res pydt
    Event.timestamp.setter   -> gen_set_timestamp   : evdict -> ts_in -> res evdict
    Event.duration.setter    -> gen_set_duration    : evdict -> dur_in -> res evdict  (+ gen_set_duration_else_raises)
    Event.id/data.setter     -> gen_set_id, gen_set_data
    Event getters            -> gen_get_id / gen_get_data / gen_get_timestamp / gen_get_duration (+ _hasprop text check)
    Event.__init__           -> gen_init : Z -> option Z -> ts_in -> dur_in -> option Z -> res evdict
    Event.to_json_dict/_str  -> gen_to_json_dict, gen_to_json_str : event -> res jevent
    Event.__eq__ / __lt__    -> gen_event_eq, gen_event_lt : event -> event -> res bool (+ *_else_raises)
  GenSqliteCodec.v  (bridge: coq/Bridge/BridgeSqliteCodec.v, model: Model/Codec.v, Model/SqliteStore.v)
    _EPOCH, _MICROSECOND     -> gen_EPOCH : pydt, gen_MICROSECOND : Z
    _event_to_us             -> gen_event_to_us : event -> res (Z * Z)
    _rows_to_events          -> gen_row_to_event : Z -> Z*Z*Z*Z -> res evdict   (the loop body; the loop is a map)

The translator is a small typed, fail-closed, monadic (CPS) translation of Python statements and expressions:
every sub-expression that can raise becomes `bind <operation> (fun v => ...)` in evaluation order, every
assignment to a local `x` becomes `let x := ... in` (Python names are the Gallina binders), `self[k] = v` is a
functional update of the dict record, `isinstance` tests on a parameter of a sum type (ts_in, dur_in) become a
`match` on the constructors (the branch taken is decided per constructor from the class table below, so the
order of two disjoint isinstance branches does not matter).  Types: int, float, str, dt (pydt), td (Z us),
id (option Z), data (Z label), optdata, ts_in, dur_in, evdict (the dict under construction), event (a
finished Event: attribute reads are record projections, bridged by the getter lemmas), jevent.
Anything else raises Fail.  See notes/agents/TIEBS.md for the list of what is trusted / normalised."""
import ast
import os
import re

import py2v
from py2v import Fail

MODELS = "aw_core/models.py"
SQLITE = "aw_datastore/storages/sqlite.py"


def _guard(f):
    def g(repo):
        try:
            return f(repo)
        except Fail:
            raise
        except Exception as ex:  # noqa: BLE001 -- fail closed, never crash the shared translator run
            raise Fail(f"{type(ex).__name__}: {ex}")
    g.__name__ = getattr(f, "__name__", "g")
    return g


# ---------------------------------------------------------------------------
# fixed vocabulary (emitted at the head of GenEventModel.v)

VOCAB = r"""From Coq Require Import ZArith Bool List Ascii PrimFloat.
From AwVerif Require Import Base.Prelude Model.PyFloat Model.IsoTime Model.EventModel.
Open Scope Z_scope.

(* ---- vocabulary (fixed text of translate/k_models.py) ----
   a Python datetime: aware (UTC instant, utcoffset; microseconds) or naive (its local fields as microseconds) *)
Inductive pydt := PyAware (utc off : Z) | PyNaive (local : Z).
Definition dt_local (d : pydt) : Z := match d with PyAware u o => u + o | PyNaive l => l end.
Definition dt_microsecond (d : pydt) : Z := dt_local d mod 1000000.                       (* d.microsecond *)
Definition dt_replace_microsecond (d : pydt) (m : Z) : pydt :=                            (* d.replace(microsecond=m) *)
  match d with
  | PyAware u o => PyAware (dt_local d - dt_microsecond d + m - o) o
  | PyNaive l => PyNaive (dt_local d - dt_microsecond d + m)
  end.
Definition dt_has_tzinfo (d : pydt) : bool := match d with PyAware _ _ => true | PyNaive _ => false end.
Definition dt_replace_tzinfo_utc (d : pydt) : pydt := PyAware (dt_local d) 0.             (* d.replace(tzinfo=timezone.utc) *)
Definition dt_astimezone_utc (d : pydt) : res pydt :=                                     (* d.astimezone(timezone.utc) *)
  match d with
  | PyAware u _ => bind (dt_check u) (fun u' => Ok (PyAware u' 0))
  | PyNaive _ => OutOfFuel            (* would use the system zone: outside the vocabulary *)
  end.
Definition dt_isoformat (d : pydt) : res (list ascii) :=                                  (* d.isoformat() *)
  match d with PyAware u Z0 => Ok (isoformat_utc u) | _ => OutOfFuel end.
Definition dt_sub (a b : pydt) : res Z :=                                                 (* a - b *)
  match a, b with
  | PyAware u _, PyAware v _ => Ok (u - v)
  | PyNaive l, PyNaive m => Ok (l - m)
  | _, _ => Err TypeError
  end.
Definition dt_eqb (a b : pydt) : bool :=                                                  (* a == b *)
  match a, b with
  | PyAware u _, PyAware v _ => u =? v
  | PyNaive l, PyNaive m => l =? m
  | _, _ => false
  end.
Definition dt_ltb (a b : pydt) : res bool :=                                              (* a < b *)
  match a, b with
  | PyAware u _, PyAware v _ => Ok (u <? v)
  | PyNaive l, PyNaive m => Ok (l <? m)
  | _, _ => Err TypeError
  end.
Definition dt_fromtimestamp_utc (f : float) : res pydt :=                                 (* datetime.fromtimestamp(f, timezone.utc) *)
  bind (fromtimestamp_us f) (fun u => Ok (PyAware u 0)).
Definition dt_of_ymd_utc (y m d : Z) : pydt := PyAware (days_from_civil y m d * day_us) 0. (* datetime(y, m, d, tzinfo=timezone.utc) *)
Definition dt_timestamp (d : pydt) : res float :=                                         (* d.timestamp() *)
  match d with PyAware u _ => timestamp_float_of_us u | PyNaive _ => OutOfFuel end.
Definition iso8601_parse_date (s : list ascii) : res pydt :=                              (* iso8601.parse_date(s) *)
  bind (parse_iso s) (fun uo => Ok (PyAware (fst uo) (snd uo))).
Definition ts_in_of_dt (d : pydt) : ts_in :=
  match d with PyAware u o => TsDt u o | PyNaive l => TsNaive l end.
Definition td_floordiv (a b : Z) : res Z :=                                               (* timedelta // timedelta *)
  if b =? 0 then Err OtherError else Ok (a / b).
Definition or_empty_dict (empty_dict : Z) (x : option Z) : Z :=                           (* x or {} *)
  match x with Some d => d | None => empty_dict end.

(* the dict an Event is: key absent = None; the value under "id" may itself be None *)
Record evdict := mkD { d_id : option (option Z); d_timestamp : option pydt; d_duration : option Z; d_data : option Z }.
Definition ev_empty : evdict := mkD None None None None.
Definition set_d_id (d : evdict) (v : option Z) : evdict := mkD (Some v) (d_timestamp d) (d_duration d) (d_data d).
Definition set_d_timestamp (d : evdict) (v : pydt) : evdict := mkD (d_id d) (Some v) (d_duration d) (d_data d).
Definition set_d_duration (d : evdict) (v : Z) : evdict := mkD (d_id d) (d_timestamp d) (Some v) (d_data d).
Definition set_d_data (d : evdict) (v : Z) : evdict := mkD (d_id d) (d_timestamp d) (d_duration d) (Some v).
Definition getitem {A} (x : option A) : res A := match x with Some v => Ok v | None => Err KeyError end.
Definition getitem_id (d : evdict) : res (option Z) := getitem (d_id d).
Definition getitem_timestamp (d : evdict) : res pydt := getitem (d_timestamp d).
Definition getitem_duration (d : evdict) : res Z := getitem (d_duration d).
Definition getitem_data (d : evdict) : res Z := getitem (d_data d).
(* _hasprop(k): k in self and self[k] is not None *)
Definition hasprop_id (d : evdict) : bool := match d_id d with Some (Some _) => true | _ => false end.
Definition hasprop_timestamp (d : evdict) : bool := match d_timestamp d with Some _ => true | None => false end.
Definition hasprop_duration (d : evdict) : bool := match d_duration d with Some _ => true | None => false end.
Definition hasprop_data (d : evdict) : bool := match d_data d with Some _ => true | None => false end.
(* a finished Event as the model's record *)
Definition dict_of_event (e : event) : evdict :=
  mkD (Some (eid e)) (Some (PyAware (Prelude.ts e) 0)) (Some (dur e)) (Some (Prelude.data e)).
(* ---- end of vocabulary ---- *)
"""

GALLINA = {"int": "Z", "td": "Z", "float": "float", "dt": "pydt", "str": "list ascii", "id": "option Z",
           "data": "Z", "optdata": "option Z", "ts_in": "ts_in", "dur_in": "dur_in", "evdict": "evdict",
           "event": "event", "jevent": "jevent", "bool": "bool", "row": "Z * Z * Z * Z"}

RESERVED = {"fun", "match", "with", "end", "let", "in", "if", "then", "else", "fix", "cofix", "forall", "exists",
            "Type", "Prop", "Set", "as", "at", "return", "using", "where", "struct", "bind", "Ok", "Err", "Some",
            "None", "fst", "snd", "negb", "true", "false", "Z", "Prelude", "float", "list", "option", "res",
            "empty_dict", "of_Z", "zero"}

# constructor -> (binders, term of the Python value, its type, the Python classes the value is an instance of)
SUMS = {
    "ts_in": [("TsDt", ["utc_", "off_"], "(PyAware utc_ off_)", "dt", {"datetime", "date"}),
              ("TsNaive", ["local_"], "(PyNaive local_)", "dt", {"datetime", "date"}),
              ("TsStr", ["str_"], "str_", "str", {"str"})],
    "dur_in": [("DurTd", ["us_"], "us_", "td", {"timedelta"}),
               ("DurInt", ["int_"], "int_", "int", {"int", "numbers.Real", "numbers.Number", "numbers.Integral",
                                                    "numbers.Rational", "numbers.Complex"}),
               ("DurFloat", ["float_"], "float_", "float", {"float", "numbers.Real", "numbers.Number",
                                                            "numbers.Complex"})],
}
STATIC_CLASSES = {"event": {"Event", "dict"}, "evdict": {"Event", "dict"}, "dt": {"datetime", "date"},
                  "td": {"timedelta"}, "str": {"str"}, "float": {"float", "numbers.Real", "numbers.Number"},
                  "int": {"int", "numbers.Real", "numbers.Number", "numbers.Integral"}}
ERRCLASS = {"TypeError", "ValueError", "KeyError", "IndexError", "AttributeError"}
KEYS = {"id": "id", "timestamp": "dt", "duration": "td", "data": "data"}
EVENT_ATTR = {"id": ("(Prelude.eid %s)", "id"), "timestamp": ("(PyAware (Prelude.ts %s) 0)", "dt"),
              "duration": ("(Prelude.dur %s)", "td"), "data": ("(Prelude.data %s)", "data")}


RESERVED |= set(re.findall(r"(?:Definition|Inductive|Record) (\w+)", VOCAB)) | {"PyAware", "PyNaive", "mkD"}


class Ctx:
    """per-function state: fresh names for the intermediate results, module constants, known gen functions"""

    def __init__(self, consts=None, funcs=None, init_sig=None):
        self.n = 0
        self.consts = consts or {}
        self.funcs = funcs or {}
        self.init_sig = init_sig

    def fresh(self):
        self.n += 1
        return f"v{self.n}"


def _name_ok(n):
    if n in RESERVED or n.startswith("gen_") or n.endswith("_") and n in {"utc_", "off_", "local_", "str_", "us_", "int_", "float_"}:
        raise Fail(f"local name {n} clashes with the vocabulary")
    if len(n) > 1 and n[0] == "v" and n[1:].isdigit():
        raise Fail(f"local name {n} clashes with the generated names")
    return n


def _dotted(e):
    if isinstance(e, ast.Name):
        return e.id
    if isinstance(e, ast.Attribute):
        return _dotted(e.value) + "." + e.attr
    raise Fail("not a dotted name: " + ast.dump(e)[:60])


def _is_utc(e):
    return isinstance(e, ast.Attribute) and e.attr == "utc" and isinstance(e.value, ast.Name) and e.value.id == "timezone"


def _intconst(e):
    return isinstance(e, ast.Constant) and type(e.value) is int


def wrap(binds, body):
    for v, rhs in reversed(binds):
        body = f"bind {rhs} (fun {v} =>\n  {body})"
    return body


def coerce(term, ty, want):
    if ty == want:
        return term
    if (ty, want) == ("dt", "ts_in"):
        return f"(ts_in_of_dt {term})"
    if (ty, want) == ("td", "dur_in"):
        return f"(DurTd {term})"
    if (ty, want) == ("int", "dur_in"):
        return f"(DurInt {term})"
    if (ty, want) == ("float", "dur_in"):
        return f"(DurFloat {term})"
    if (ty, want) == ("int", "id"):
        return f"(Some {term})"
    if (ty, want) == ("none", "id") or (ty, want) == ("none", "optdata"):
        return "None"
    if (ty, want) == ("data", "optdata"):
        return f"(Some {term})"
    if (ty, want) == ("emptydict", "data"):
        return "empty_dict"
    raise Fail(f"a value of type {ty} where {want} is expected")


# ---------------------------------------------------------------------------
# expressions: ex(e, env, cx) -> (binds, term, type)


def isinstance_test(e):
    """isinstance(<name>, <class>) -> (name, dotted class) or None"""
    if isinstance(e, ast.Call) and isinstance(e.func, ast.Name) and e.func.id == "isinstance" and len(e.args) == 2 \
            and not e.keywords and isinstance(e.args[0], ast.Name):
        return e.args[0].id, _dotted(e.args[1])
    return None


def bex(e, env, cx):
    """conditions: (binds, bool term)"""
    if isinstance(e, ast.UnaryOp) and isinstance(e.op, ast.Not):
        b, t = bex(e.operand, env, cx)
        return b, f"(negb {t})"
    if isinstance(e, ast.Attribute) and e.attr == "tzinfo":
        b, t, ty = ex(e.value, env, cx)
        if ty != "dt":
            raise Fail(".tzinfo of a non-datetime")
        return b, f"(dt_has_tzinfo {t})"      # truth of a tzinfo object: present = true
    if isinstance(e, ast.BoolOp) and isinstance(e.op, ast.And):
        # `a and b`: b is evaluated only when a holds; the operands used here cannot raise, so all are evaluated
        binds, terms = [], []
        for v in e.values:
            b, t = bex(v, env, cx)
            if b and terms:
                raise Fail("an operand of `and` that can raise, after the first")
            binds += b
            terms.append(t)
        out = terms[0]
        for t in terms[1:]:
            out = f"({out} && {t})"
        return binds, out
    if isinstance(e, ast.Compare) and len(e.ops) == 1:
        b1, t1, ty1 = ex(e.left, env, cx)
        b2, t2, ty2 = ex(e.comparators[0], env, cx)
        op = e.ops[0]
        if ty1 != ty2:
            raise Fail(f"comparison between {ty1} and {ty2}")
        if isinstance(op, ast.Eq):
            if ty1 == "dt":
                return b1 + b2, f"(dt_eqb {t1} {t2})"
            if ty1 in ("td", "data", "int"):
                return b1 + b2, f"({t1} =? {t2})"
            if ty1 == "id":
                return b1 + b2, f"(option_eqb Z.eqb {t1} {t2})"
        if isinstance(op, ast.Lt) and ty1 == "dt":
            v = cx.fresh()
            return b1 + b2 + [(v, f"(dt_ltb {t1} {t2})")], v
        if isinstance(op, ast.Lt) and ty1 in ("td", "int"):
            return b1 + b2, f"({t1} <? {t2})"
        raise Fail("unsupported comparison " + type(op).__name__ + " on " + ty1)
    if isinstance(e, ast.Call) and isinstance(e.func, ast.Attribute) and e.func.attr == "_hasprop" \
            and len(e.args) == 1 and not e.keywords and isinstance(e.args[0], ast.Constant) \
            and e.args[0].value in KEYS:
        b, t, ty = ex(e.func.value, env, cx)
        if ty != "evdict":
            raise Fail("_hasprop on " + ty)
        return b, f"(hasprop_{e.args[0].value} {t})"
    raise Fail("unsupported condition " + ast.dump(e)[:80])


def dispatch(name, env, pick, cx):
    """match on the constructors of the sum-typed Python name; pick(constructor classes, env') -> text"""
    term, ty = env[name]
    arms = []
    for con, binders, val, vty, classes in SUMS[ty]:
        env2 = dict(env)
        env2[name] = (name, vty)
        body = pick(classes, env2)
        arms.append(f"  | {con} {' '.join(binders)} => let {name} := {val} in\n  {body}")
    return f"match {term} with\n" + "\n".join(arms) + "\n  end"


def ex(e, env, cx):
    if isinstance(e, ast.Constant):
        if type(e.value) is int:
            return [], (str(e.value) if e.value >= 0 else f"({e.value})"), "int"
        if e.value is None:
            return [], "None", "none"
        raise Fail("unsupported constant " + repr(e.value)[:30])
    if isinstance(e, ast.Dict) and not e.keys:
        return [], "empty_dict", "emptydict"
    if isinstance(e, ast.Name):
        if e.id in env:
            return [], env[e.id][0], env[e.id][1]
        if e.id in cx.consts:
            return [], cx.consts[e.id][0], cx.consts[e.id][1]
        raise Fail(f"unknown name {e.id}")
    if isinstance(e, ast.Attribute):
        b, t, ty = ex(e.value, env, cx)
        if ty == "dt" and e.attr == "microsecond":
            return b, f"(dt_microsecond {t})", "int"
        if ty == "event" and e.attr in EVENT_ATTR:
            fmt, aty = EVENT_ATTR[e.attr]
            return b, fmt % t, aty
        raise Fail(f"unsupported attribute .{e.attr} of {ty}")
    if isinstance(e, ast.Subscript):
        b, t, ty = ex(e.value, env, cx)
        if ty == "evdict" and isinstance(e.slice, ast.Constant) and e.slice.value in KEYS:
            v = cx.fresh()
            return b + [(v, f"(getitem_{e.slice.value} {t})")], v, KEYS[e.slice.value]
        if ty == "row" and _intconst(e.slice) and 0 <= e.slice.value <= 3:
            return b, f"{t}_{e.slice.value}", ["int", "int", "int", "data"][e.slice.value]
        raise Fail("unsupported subscript on " + ty)
    if isinstance(e, ast.BoolOp) and isinstance(e.op, ast.Or) and len(e.values) == 2 \
            and isinstance(e.values[1], ast.Dict) and not e.values[1].keys:
        b, t, ty = ex(e.values[0], env, cx)
        if ty != "optdata":
            raise Fail("`x or {}` on " + ty)
        return b, f"(or_empty_dict empty_dict {t})", "data"
    if isinstance(e, ast.IfExp):
        it = isinstance_test(e.test)
        if it and it[0] in env and env[it[0]][1] in SUMS:
            name, cls = it
            tys = set()

            def pick(classes, env2):
                b, t, ty = ex(e.body if cls in classes else e.orelse, env2, cx)
                tys.add(ty)
                return wrap(b, f"Ok {t}")
            text = dispatch(name, env, pick, cx)
            if len(tys) != 1:
                raise Fail("branches of a conditional expression have different types: " + str(sorted(tys)))
            v = cx.fresh()
            return [(v, f"({text})")], v, tys.pop()
        bt, tt = bex(e.test, env, cx)
        b1, t1, ty1 = ex(e.body, env, cx)
        b2, t2, ty2 = ex(e.orelse, env, cx)
        ty = ty1 if ty1 not in ("none", "emptydict") else ty2
        t1, t2 = coerce(t1, ty1, ty), coerce(t2, ty2, ty)
        v = cx.fresh()
        return bt + [(v, f"(if {tt}\n  then {wrap(b1, 'Ok ' + t1)}\n  else {wrap(b2, 'Ok ' + t2)})")], v, ty
    if isinstance(e, ast.BinOp):
        b1, t1, ty1 = ex(e.left, env, cx)
        b2, t2, ty2 = ex(e.right, env, cx)
        b = b1 + b2
        op = type(e.op)
        if op is ast.Div and (ty1, ty2) == ("int", "int"):
            v = cx.fresh()
            return b + [(v, f"(fdiv_int_int {t1} {t2})")], v, "float"
        if op is ast.Mult and (ty1, ty2) == ("int", "int"):
            return b, f"({t1} * {t2})", "int"
        if op is ast.Mult and (ty1, ty2) == ("float", "int"):
            return b, f"({t1} * of_Z {t2})%float", "float"
        if op is ast.Mult and (ty1, ty2) == ("int", "float"):
            return b, f"(of_Z {t1} * {t2})%float", "float"
        if op is ast.Add and (ty1, ty2) in (("int", "int"), ("td", "td")):
            return b, f"({t1} + {t2})", ty1      # timedelta + timedelta: range check not modelled
        if op is ast.Add and (ty1, ty2) == ("float", "float"):
            return b, f"({t1} + {t2})%float", "float"
        if op is ast.Sub and (ty1, ty2) in (("int", "int"), ("td", "td")):
            return b, f"({t1} - {t2})", ty1
        if op is ast.Sub and (ty1, ty2) == ("dt", "dt"):
            v = cx.fresh()
            return b + [(v, f"(dt_sub {t1} {t2})")], v, "td"
        if op is ast.FloorDiv and (ty1, ty2) == ("td", "td"):
            v = cx.fresh()
            return b + [(v, f"(td_floordiv {t1} {t2})")], v, "int"
        if op is ast.FloorDiv and (ty1, ty2) == ("int", "int") and _intconst(e.right) and e.right.value > 0:
            return b, f"({t1} / {t2})", "int"
        raise Fail(f"unsupported operation {op.__name__} on {ty1}, {ty2}")
    if isinstance(e, ast.Call):
        return call(e, env, cx)
    if isinstance(e, ast.Tuple):
        bs, ts, tys = [], [], []
        for x in e.elts:
            b, t, ty = ex(x, env, cx)
            bs += b
            ts.append(t)
            tys.append(ty)
        return bs, "(" + ", ".join(ts) + ")", "tuple:" + ",".join(tys)
    raise Fail("unsupported expression " + ast.dump(e)[:80])


def call(e, env, cx):
    f = e.func
    kw = {k.arg: k.value for k in e.keywords}
    if None in kw:
        raise Fail("**kwargs")
    if isinstance(f, ast.Name):
        if f.id == "int" and len(e.args) == 1 and not kw:
            b, t, ty = ex(e.args[0], env, cx)
            if ty == "float":
                v = cx.fresh()
                return b + [(v, f"(int_of_float {t})")], v, "int"
            raise Fail("int() of " + ty)
        if f.id == "timedelta":
            if len(e.args) == 1 and not kw and _intconst(e.args[0]) and e.args[0].value == 0:
                return [], "0", "td"
            if not e.args and len(kw) == 1:
                unit, arg = next(iter(kw.items()))
                b, t, ty = ex(arg, env, cx)
                if unit == "seconds" and ty == "int":
                    v = cx.fresh()
                    return b + [(v, f"(td_us_of_int_seconds {t})")], v, "td"
                if unit == "seconds" and ty == "float":
                    v = cx.fresh()
                    return b + [(v, f"(td_us_of_float_seconds {t})")], v, "td"
                scale = {"microseconds": 1, "milliseconds": 1000, "minutes": 60000000, "hours": 3600000000}
                if unit in scale and ty == "int":
                    v = cx.fresh()
                    inner = t if scale[unit] == 1 else f"({t} * {scale[unit]})"
                    if _intconst(arg) and abs(arg.value) < 10 ** 9:
                        return b, inner, "td"        # a small literal: in range, cannot raise
                    return b + [(v, f"(td_check {inner})")], v, "td"
            raise Fail("unsupported timedelta(...) form")
        if f.id == "datetime":
            if len(e.args) == 3 and all(_intconst(a) for a in e.args) and set(kw) == {"tzinfo"} and _is_utc(kw["tzinfo"]):
                y, m, d = (a.value for a in e.args)
                if not (1 <= y <= 9999 and 1 <= m <= 12 and 1 <= d <= 28):
                    raise Fail("datetime(y, m, d) outside the checked range")
                return [], f"(dt_of_ymd_utc {y} {m} {d})", "dt"
            raise Fail("unsupported datetime(...) form")
        if f.id == "_timestamp_parse" and len(e.args) == 1 and not kw:
            b, t, ty = ex(e.args[0], env, cx)
            v = cx.fresh()
            return b + [(v, f"(gen_timestamp_parse {coerce(t, ty, 'ts_in')})")], v, "dt"
        if f.id == "Event":
            if cx.init_sig is None:
                raise Fail("Event(...) outside a kernel that read Event.__init__'s signature")
            names = [n for n, _ in cx.init_sig]
            if len(e.args) > len(names):
                raise Fail("too many positional arguments to Event")
            given = dict(zip(names, e.args))
            for k, v0 in kw.items():
                if k in given or k not in names:
                    raise Fail("bad keyword to Event: " + k)
                given[k] = v0
            bs, args = [], []
            for n, default in cx.init_sig:
                want = {"id": "id", "timestamp": "ts_in", "duration": "dur_in", "data": "optdata"}[n]
                src = given.get(n, default)
                if src is None:
                    raise Fail("Event(...) without " + n)
                b, t, ty = ex(src, env, cx)
                if n == "timestamp" and ty == "none":
                    raise Fail("Event(timestamp=None): now() is outside the model")
                bs += b
                args.append(coerce(t, ty, want))
            v = cx.fresh()
            # Event's parameters in the order of its signature: id timestamp duration data
            order = ["id", "timestamp", "duration", "data"]
            args = [args[names.index(n)] for n in order]
            return bs + [(v, f"(gen_init empty_dict {' '.join(args)})")], v, "evdict"
        raise Fail("unsupported call " + f.id)
    if isinstance(f, ast.Attribute):
        dotted = None
        try:
            dotted = _dotted(f)
        except Fail:
            pass
        if dotted == "iso8601.parse_date" and len(e.args) == 1 and not kw:
            b, t, ty = ex(e.args[0], env, cx)
            if ty != "str":
                raise Fail("iso8601.parse_date of " + ty)
            v = cx.fresh()
            return b + [(v, f"(iso8601_parse_date {t})")], v, "dt"
        if dotted == "datetime.fromtimestamp" and len(e.args) == 2 and not kw and _is_utc(e.args[1]):
            b, t, ty = ex(e.args[0], env, cx)
            if ty != "float":
                raise Fail("datetime.fromtimestamp of " + ty + " (only the float path is modelled)")
            v = cx.fresh()
            return b + [(v, f"(dt_fromtimestamp_utc {t})")], v, "dt"
        if dotted in ("json.loads", "json.dumps") and len(e.args) == 1 and not kw:
            b, t, ty = ex(e.args[0], env, cx)
            if ty not in ("data", "jevent"):
                raise Fail(dotted + " of " + ty)
            return b, t, ty                       # the JSON text of a label / of the jevent record: identity
        if dotted in ("copy.deepcopy", "copy.copy") and len(e.args) == 1 and not kw:
            return ex(e.args[0], env, cx)
        b, t, ty = ex(f.value, env, cx)
        m = f.attr
        if ty == "dt" and m == "replace" and not e.args and len(kw) == 1:
            k, arg = next(iter(kw.items()))
            if k == "microsecond":
                b2, t2, ty2 = ex(arg, env, cx)
                if ty2 != "int":
                    raise Fail("replace(microsecond=<" + ty2 + ">)")
                return b + b2, f"(dt_replace_microsecond {t} {t2})", "dt"
            if k == "tzinfo" and _is_utc(arg):
                return b, f"(dt_replace_tzinfo_utc {t})", "dt"
            raise Fail("unsupported replace(...)")
        if ty == "dt" and m == "astimezone" and len(e.args) == 1 and not kw and _is_utc(e.args[0]):
            v = cx.fresh()
            return b + [(v, f"(dt_astimezone_utc {t})")], v, "dt"
        if ty == "dt" and m == "isoformat" and not e.args and not kw:
            v = cx.fresh()
            return b + [(v, f"(dt_isoformat {t})")], v, "str"
        if ty == "dt" and m == "timestamp" and not e.args and not kw:
            v = cx.fresh()
            return b + [(v, f"(dt_timestamp {t})")], v, "float"
        if ty == "td" and m == "total_seconds" and not e.args and not kw:
            v = cx.fresh()
            return b + [(v, f"(total_seconds_of_us {t})")], v, "float"
        if ty == "event" and m == "copy" and not e.args and not kw:
            d = {k: (EVENT_ATTR[k][0] % t, EVENT_ATTR[k][1]) for k in KEYS}
            return b, d, "pydict"
        if ty == "event" and m == "to_json_dict" and not e.args and not kw:
            v = cx.fresh()
            return b + [(v, f"(gen_to_json_dict {t})")], v, "jevent"
        raise Fail(f"unsupported method .{m} on {ty}")
    raise Fail("unsupported call")


# ---------------------------------------------------------------------------
# statements (continuation passing): st(body, env, cx, fin) -> text of type res <result>
#   fin(env) gives the text for falling off the end


def _static_isinstance(test, env):
    """isinstance(x, C) with x of a one-constructor type: True/False; None when not such a test"""
    it = isinstance_test(test)
    if it and it[0] in env and env[it[0]][1] in STATIC_CLASSES:
        return it[1] in STATIC_CLASSES[env[it[0]][1]]
    return None


def _is_now_branch(body):
    body = [s for s in body if not py2v.is_skippable(s)]
    return (len(body) == 1 and isinstance(body[0], ast.Assign) and len(body[0].targets) == 1
            and isinstance(body[0].targets[0], ast.Attribute) and body[0].targets[0].attr == "timestamp"
            and isinstance(body[0].value, ast.Call) and isinstance(body[0].value.func, ast.Attribute)
            and body[0].value.func.attr == "now")


def st(body, env, cx, fin, ret):
    body = [s for s in body if not py2v.is_skippable(s)]
    if not body:
        return fin(env)
    s, rest = body[0], body[1:]
    if isinstance(s, ast.Assign) and len(s.targets) == 1:
        t = s.targets[0]
        b, v, ty = ex(s.value, env, cx)
        if isinstance(t, ast.Name):
            name = _name_ok(t.id)
            env2 = dict(env)
            if ty == "pydict":
                env2[name] = (dict(v), "pydict")
                return wrap(b, st(rest, env2, cx, fin, ret))
            if ty in ("none", "emptydict") or ty.startswith("tuple:"):
                raise Fail("assignment of an untyped value to " + name)
            env2[name] = (name, ty)
            return wrap(b, f"let {name} := {v} in\n  {st(rest, env2, cx, fin, ret)}")
        if isinstance(t, ast.Subscript) and isinstance(t.value, ast.Name) and t.value.id in env \
                and isinstance(t.slice, ast.Constant) and t.slice.value in KEYS:
            name, key = t.value.id, t.slice.value
            cur, cty = env[name]
            env2 = dict(env)
            if cty == "pydict":
                if ty in ("none", "emptydict", "pydict"):
                    raise Fail("unsupported value stored in the JSON dict")
                d = dict(cur)
                d[key] = (v, ty)
                env2[name] = (d, "pydict")
                return wrap(b, st(rest, env2, cx, fin, ret))
            if cty == "evdict":
                return wrap(b, f"let {name} := (set_d_{key} {cur} {coerce(v, ty, KEYS[key])}) in\n  "
                               f"{st(rest, env2, cx, fin, ret)}")
            raise Fail("item assignment on " + cty)
        if isinstance(t, ast.Attribute) and isinstance(t.value, ast.Name) and t.value.id in env \
                and env[t.value.id][1] == "evdict" and t.attr in KEYS:
            name = t.value.id
            want = {"id": "id", "timestamp": "ts_in", "duration": "dur_in", "data": "data"}[t.attr]
            # a property assignment runs the setter
            return wrap(b, f"bind (gen_set_{t.attr} {env[name][0]} {coerce(v, ty, want)}) (fun {name} =>\n  "
                           f"{st(rest, env, cx, fin, ret)})")
        raise Fail("unsupported assignment target " + ast.dump(t)[:60])
    if isinstance(s, ast.If):
        it = isinstance_test(s.test)
        if it and it[0] in env and env[it[0]][1] in SUMS:
            name = it[0]

            def pick(classes, env2):
                node = s
                while True:
                    t2 = isinstance_test(node.test)
                    if not (t2 and t2[0] == name):
                        raise Fail("mixed conditions in an isinstance chain")
                    if t2[1] in classes:
                        return st(list(node.body) + list(rest), env2, cx, fin, ret)
                    if len(node.orelse) == 1 and isinstance(node.orelse[0], ast.If):
                        node = node.orelse[0]
                        continue
                    return st(list(node.orelse) + list(rest), env2, cx, fin, ret)
            return dispatch(name, env, pick, cx)
        sv = _static_isinstance(s.test, env)
        if sv is not None:
            return st(list(s.body if sv else s.orelse) + list(rest), env, cx, fin, ret)
        if isinstance(s.test, ast.Compare) and len(s.test.ops) == 1 and isinstance(s.test.ops[0], ast.Is) \
                and isinstance(s.test.left, ast.Name) and s.test.left.id in env \
                and isinstance(s.test.comparators[0], ast.Constant) and s.test.comparators[0].value is None \
                and env[s.test.left.id][1] == "ts_in":
            # `timestamp is None` -> datetime.now(): outside the model (a ts_in is never None)
            if not _is_now_branch(s.body):
                raise Fail("the `timestamp is None` branch is not `self.timestamp = datetime.now(...)`")
            return st(list(s.orelse) + list(rest), env, cx, fin, ret)
        bt, tt = bex(s.test, env, cx)
        then = st(list(s.body) + list(rest), env, cx, fin, ret)
        other = st(list(s.orelse) + list(rest), env, cx, fin, ret)
        return wrap(bt, f"if {tt}\n  then {then}\n  else {other}")
    if isinstance(s, ast.Return):
        if s.value is None:
            raise Fail("bare return")
        try:
            bt, tt = bex(s.value, env, cx)
            b, v, ty = bt, tt, "bool"
        except Fail:
            b, v, ty = ex(s.value, env, cx)
        return wrap(b, ret(v, ty))
    if isinstance(s, ast.Raise):
        return f"Err {_raised(s)}"
    raise Fail("unsupported statement " + type(s).__name__)


def _raised(s):
    if isinstance(s, ast.Raise) and isinstance(s.exc, ast.Call) and isinstance(s.exc.func, ast.Name) \
            and s.exc.func.id in ERRCLASS and s.cause is None:
        return s.exc.func.id
    raise Fail("unsupported raise")


def ret_typed(want):
    def r(v, ty):
        if want == "jevent" and ty == "pydict":
            tys = {k: v[k][1] for k in KEYS}
            if tys != {"id": "id", "timestamp": "str", "duration": "float", "data": "data"}:
                raise Fail(f"to_json_dict returns a dict that is not JSON of the expected shape: {tys}")
            return f"Ok (mkJ {v['id'][0]} {v['timestamp'][0]} {v['duration'][0]} {v['data'][0]})"
        if want.startswith("tuple:") and ty == want:
            return f"Ok {v}"
        return f"Ok {coerce(v, ty, want)}"
    return r


def last_else(fn_body, name):
    """the final else branch of the isinstance chain on `name` in a function body"""
    for s in fn_body:
        if isinstance(s, ast.If):
            node = s
            while len(node.orelse) == 1 and isinstance(node.orelse[0], ast.If):
                node = node.orelse[0]
            if len(node.orelse) == 1 and isinstance(node.orelse[0], ast.Raise):
                return _raised(node.orelse[0])
    raise Fail(f"no `else: raise ...` after the isinstance test on {name}")


# ---------------------------------------------------------------------------
# reading the sources


def _tree(repo, path):
    return ast.parse(open(os.path.join(repo, path)).read())


def _event_cls(repo):
    for n in _tree(repo, MODELS).body:
        if isinstance(n, ast.ClassDef) and n.name == "Event":
            if [ast.unparse(b) for b in n.bases] != ["dict"]:
                raise Fail("Event is no longer a dict subclass")
            return n
    raise Fail("class Event not found")


def _method(cls, name, kind=None):
    """kind: None = plain method, 'getter' = @property, 'setter' = @<name>.setter"""
    found = []
    for m in cls.body:
        if isinstance(m, ast.FunctionDef) and m.name == name:
            decs = [ast.unparse(d) for d in m.decorator_list]
            k = None if not decs else "getter" if decs == ["property"] else "setter" if decs == [name + ".setter"] else "?"
            if k == kind:
                found.append(m)
    if len(found) != 1:
        raise Fail(f"Event.{name} ({kind or 'method'}) not found exactly once")
    return found[0]


def _params(fn, expect):
    got = [a.arg for a in fn.args.args]
    if got != expect or fn.args.vararg or fn.args.kwarg or fn.args.kwonlyargs or fn.args.posonlyargs:
        raise Fail(f"signature of {fn.name} is {got}, expected {expect}")


def _fall_self(env):
    return f"Ok {env['self'][0]}"


# ---------------------------------------------------------------------------
# kernels of models.py


@_guard
def tr_vocab(repo):
    return VOCAB


@_guard
def tr_timestamp_parse(repo):
    fn = py2v.find_function(_tree(repo, MODELS), "_timestamp_parse")
    _params(fn, ["ts_in"])
    cx = Ctx()
    body = st(fn.body, {"ts_in": ("ts_in", "ts_in")}, cx, lambda env: (_ for _ in ()).throw(Fail("no return")),
              ret_typed("dt"))
    return f"Definition gen_timestamp_parse (ts_in : ts_in) : res pydt :=\n  {body}.\n"


@_guard
def tr_set_timestamp(repo):
    fn = _method(_event_cls(repo), "timestamp", "setter")
    _params(fn, ["self", "timestamp"])
    body = st(fn.body, {"self": ("self", "evdict"), "timestamp": ("timestamp", "ts_in")}, Ctx(), _fall_self,
              ret_typed("evdict"))
    return f"Definition gen_set_timestamp (self : evdict) (timestamp : ts_in) : res evdict :=\n  {body}.\n"


@_guard
def tr_set_duration(repo):
    fn = _method(_event_cls(repo), "duration", "setter")
    _params(fn, ["self", "duration"])
    body = st(fn.body, {"self": ("self", "evdict"), "duration": ("duration", "dur_in")}, Ctx(), _fall_self,
              ret_typed("evdict"))
    other = last_else([s for s in fn.body if not py2v.is_skippable(s)], "duration")
    return (f"Definition gen_set_duration (self : evdict) (duration : dur_in) : res evdict :=\n  {body}.\n\n"
            "(* the class raised for a duration that is neither a timedelta nor a numbers.Real (no dur_in constructor) *)\n"
            f"Definition gen_set_duration_else_raises : errclass := {other}.\n")


@_guard
def tr_set_id_data(repo):
    cls = _event_cls(repo)
    out = ""
    for key, ty in (("id", "id"), ("data", "data")):
        fn = _method(cls, key, "setter")
        _params(fn, ["self", key])
        body = st(fn.body, {"self": ("self", "evdict"), key: (key, ty)}, Ctx(), _fall_self, ret_typed("evdict"))
        out += f"Definition gen_set_{key} (self : evdict) ({key} : {GALLINA[ty]}) : res evdict :=\n  {body}.\n\n"
    return out


EXPECT_HASPROP = "return propname in self and self[propname] is not None"


@_guard
def tr_getters(repo):
    cls = _event_cls(repo)
    hp = _method(cls, "_hasprop")
    _params(hp, ["self", "propname"])
    hb = [s for s in hp.body if not py2v.is_skippable(s)]
    if len(hb) != 1 or ast.unparse(hb[0]) != EXPECT_HASPROP:
        raise Fail("_hasprop is no longer `" + EXPECT_HASPROP + "`")
    out = ""
    for key, ty in KEYS.items():
        fn = _method(cls, key, "getter")
        _params(fn, ["self"])
        body = st(fn.body, {"self": ("self", "evdict")}, Ctx(),
                  lambda env: (_ for _ in ()).throw(Fail("getter without return")), ret_typed(ty))
        extra = "(empty_dict : Z) " if key == "data" else ""
        out += f"Definition gen_get_{key} {extra}(self : evdict) : res {_paren(GALLINA[ty])} :=\n  {body}.\n\n"
    return out


def _paren(t):
    return f"({t})" if " " in t else t


def _init_sig(cls):
    """[(parameter, default ast)] of Event.__init__ after self"""
    fn = _method(cls, "__init__")
    a = fn.args
    if a.vararg or a.kwarg or a.kwonlyargs or a.posonlyargs or not a.args or a.args[0].arg != "self":
        raise Fail("unsupported signature of Event.__init__")
    names = [x.arg for x in a.args[1:]]
    if sorted(names) != ["data", "duration", "id", "timestamp"]:
        raise Fail(f"parameters of Event.__init__ are {names}")
    defaults = [None] * (len(names) - len(a.defaults)) + list(a.defaults)
    return fn, list(zip(names, defaults))


@_guard
def tr_init(repo):
    cls = _event_cls(repo)
    fn, sig = _init_sig(cls)
    env = {"self": ("self", "evdict"), "id": ("id", "id"), "timestamp": ("timestamp", "ts_in"),
           "duration": ("duration", "dur_in"), "data": ("data", "optdata")}
    body = st(fn.body, env, Ctx(), _fall_self, ret_typed("evdict"))
    return ("Definition gen_init (empty_dict : Z) (id : option Z) (timestamp : ts_in) (duration : dur_in) "
            f"(data : option Z) : res evdict :=\n  let self := ev_empty in\n  {body}.\n")


@_guard
def tr_to_json(repo):
    cls = _event_cls(repo)
    fn = _method(cls, "to_json_dict")
    _params(fn, ["self"])
    nofall = lambda env: (_ for _ in ()).throw(Fail("no return"))  # noqa: E731
    body = st(fn.body, {"self": ("self", "event")}, Ctx(), nofall, ret_typed("jevent"))
    fn2 = _method(cls, "to_json_str")
    _params(fn2, ["self"])
    body2 = st(fn2.body, {"self": ("self", "event")}, Ctx(), nofall, ret_typed("jevent"))
    return (f"Definition gen_to_json_dict (self : event) : res jevent :=\n  {body}.\n\n"
            f"Definition gen_to_json_str (self : event) : res jevent :=\n  {body2}.\n")


@_guard
def tr_eq_lt(repo):
    cls = _event_cls(repo)
    out = ""
    nofall = lambda env: (_ for _ in ()).throw(Fail("no return"))  # noqa: E731
    for py, g in (("__eq__", "gen_event_eq"), ("__lt__", "gen_event_lt")):
        fn = _method(cls, py)
        _params(fn, ["self", "other"])
        body = st(fn.body, {"self": ("self", "event"), "other": ("other", "event")}, Ctx(), nofall, ret_typed("bool"))
        other = last_else([s for s in fn.body if not py2v.is_skippable(s)], "other")
        out += (f"Definition {g} (self other : event) : res bool :=\n  {body}.\n\n"
                f"Definition {g}_else_raises : errclass := {other}.\n\n")
    return out


# ---------------------------------------------------------------------------
# kernels of sqlite.py (module-level codec helpers)

CODEC_HEAD = ("From Coq Require Import ZArith Bool List Ascii PrimFloat.\n"
              "From AwVerif Require Import Base.Prelude Model.PyFloat Model.IsoTime Model.EventModel Gen.GenEventModel.\n"
              "Open Scope Z_scope.\n\n")


def _module_consts(repo):
    tree = _tree(repo, SQLITE)
    found = {}
    for n in tree.body:
        if isinstance(n, ast.Assign) and len(n.targets) == 1 and isinstance(n.targets[0], ast.Name) \
                and n.targets[0].id in ("_EPOCH", "_MICROSECOND"):
            if n.targets[0].id in found:
                raise Fail(n.targets[0].id + " assigned twice")
            found[n.targets[0].id] = n.value
    if set(found) != {"_EPOCH", "_MICROSECOND"}:
        raise Fail("module constants _EPOCH / _MICROSECOND not found")
    binds = 0
    for n in ast.walk(tree):
        if isinstance(n, ast.Name) and n.id in found and not isinstance(n.ctx, ast.Load):
            binds += 1
        if isinstance(n, ast.Global) and set(n.names) & set(found):
            binds += 1
        if isinstance(n, ast.arg) and n.arg in found:
            binds += 1
    if binds != 2:
        raise Fail("_EPOCH / _MICROSECOND are bound somewhere else in sqlite.py")
    return tree, found


CONSTS = {"_EPOCH": ("gen_EPOCH", "dt"), "_MICROSECOND": ("gen_MICROSECOND", "td")}


@_guard
def tr_codec_consts(repo):
    _, found = _module_consts(repo)
    out = CODEC_HEAD
    for name, (g, want) in CONSTS.items():
        b, t, ty = ex(found[name], {}, Ctx())
        if b or ty != want:
            raise Fail(f"{name} is not a constant {want}")
        out += f"Definition {g} : {GALLINA[want]} := {t}.\n"
    return out


@_guard
def tr_event_to_us(repo):
    tree, _ = _module_consts(repo)
    fn = py2v.find_function(tree, "_event_to_us")
    _params(fn, ["event"])
    nofall = lambda env: (_ for _ in ()).throw(Fail("no return"))  # noqa: E731
    body = st(fn.body, {"event": ("event", "event")}, Ctx(consts=CONSTS), nofall, ret_typed("tuple:int,int"))
    return f"Definition gen_event_to_us (event : event) : res (Z * Z) :=\n  {body}.\n"


@_guard
def tr_rows_to_events(repo):
    tree, _ = _module_consts(repo)
    fn = py2v.find_function(tree, "_rows_to_events")
    _params(fn, ["rows"])
    body = [s for s in fn.body if not py2v.is_skippable(s)]
    ok = (len(body) == 3 and ast.unparse(body[0]) == "events = []" and isinstance(body[1], ast.For)
          and ast.unparse(body[1].iter) == "rows" and isinstance(body[1].target, ast.Name) and not body[1].orelse
          and ast.unparse(body[2]) == "return events")
    if not ok:
        raise Fail("_rows_to_events is no longer `events = []; for row in rows: ...; return events`")
    row = _name_ok(body[1].target.id)
    loop = [s for s in body[1].body if not py2v.is_skippable(s)]
    last = loop[-1] if loop else None
    if not (isinstance(last, ast.Expr) and isinstance(last.value, ast.Call) and ast.unparse(last.value.func) == "events.append"
            and len(last.value.args) == 1 and not last.value.keywords):
        raise Fail("the loop body does not end with events.append(<event>)")
    for s in loop[:-1]:
        for n in ast.walk(s):
            if isinstance(n, ast.Name) and n.id == "events":
                raise Fail("the loop body uses `events` before the final append")
    _, sig = _init_sig(_event_cls(repo))
    cx = Ctx(consts=CONSTS, init_sig=sig)
    stmts = loop[:-1] + [ast.Return(value=last.value.args[0])]
    nofall = lambda env: (_ for _ in ()).throw(Fail("no return"))  # noqa: E731
    text = st(stmts, {row: (row, "row")}, cx, nofall, ret_typed("evdict"))
    return ("(* the body of the loop of _rows_to_events (the loop appends one Event per row, in order) *)\n"
            f"Definition gen_row_to_event (empty_dict : Z) ({row}_ : Z * Z * Z * Z) : res evdict :=\n"
            f"  let '({row}_0, {row}_1, {row}_2, {row}_3) := {row}_ in\n  {text}.\n")


KERNELS = {
    "GenEventModel": [("models.vocabulary", tr_vocab),
                      ("models._timestamp_parse", tr_timestamp_parse),
                      ("Event.timestamp.setter", tr_set_timestamp),
                      ("Event.duration.setter", tr_set_duration),
                      ("Event.id_data.setters", tr_set_id_data),
                      ("Event.getters", tr_getters),
                      ("Event.__init__", tr_init),
                      ("Event.to_json", tr_to_json),
                      ("Event.__eq__lt__", tr_eq_lt)],
    "GenSqliteCodec": [("sqlite.codec.constants", tr_codec_consts),
                       ("sqlite._event_to_us", tr_event_to_us),
                       ("sqlite._rows_to_events", tr_rows_to_events)],
}
