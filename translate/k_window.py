"""Kernels of the time-window read path (C03):
  datastore.py  Bucket.get           the rounding of the window edges          -> gen_round_start / gen_round_end
  memory.py     get_events           the two list-comprehension filters        -> gen_mem_start / gen_mem_end
  memory.py     get_eventcount       the predicate of its comprehension        -> gen_mem_count
  peewee.py     get_events           the trimming loop body                    -> gen_pw_clip
  sqlite.py     get_events / get_eventcount   the SQL text and the parameter expressions, compared (whitespace-
                normalised) with the statements whose meaning Model/SqliteStore.v + Model/Window.v define -> gen_sqlite_*_ok
Vocabulary: instants are Z microseconds.  In Bucket.get a window edge is an AWARE datetime, the pair (x, x_off) of its
UTC instant and its utcoffset (naive datetimes are outside the model): `x.microsecond` is `us_field x x_off`,
`x.replace(microsecond=m)` is `replace_us x x_off m`, and the statement
    if x is not None and x.utcoffset() is not None:      (or: x.tzinfo is not None)
        x = x.astimezone(timezone.utc)
re-binds the pair to `astimezone_utc x x_off` = (x, 0).  Without that statement (the code before 49e3288) the generated
rounding keeps the caller's offset and Bridge/BridgeWindow.v no longer proves: rounding on the local reading is the
same function of the instant only for whole-millisecond offsets, and the instants-only vocabulary cannot see `fold`
being dropped by `+ timedelta` (finding C03:window-end-in-fold).  `int(a / 1000)` is `a / 1000` (justified for
microsecond fields by the finite theorem PyFloatFinite.int_div_1000_exact, and used only on them), `+ timedelta(seconds=s)`
is `+ s * 1000000`, `e.timestamp = t` is `set_ts e (floor_ms t)` (Event's setter floors to the millisecond), an optional
datetime tested for truth is an `option Z`.  Fail-closed: anything else raises Fail."""
import ast
import os
import re

import py2v
from py2v import Fail


def _fn(repo, path, cls, name):
    tree = ast.parse(open(os.path.join(repo, path)).read())
    for n in tree.body:
        if isinstance(n, ast.ClassDef) and n.name == cls:
            for m in n.body:
                if isinstance(m, ast.FunctionDef) and m.name == name:
                    return m
    raise Fail(f"{cls}.{name} not found")


def _body(fn):
    return [s for s in fn.body if not py2v.is_skippable(s)]


def _guard(f):
    def g(repo):
        try:
            return f(repo)
        except Fail:
            raise
        except Exception as ex:  # noqa: BLE001 -- fail closed, never crash the shared translator run
            raise Fail(f"{type(ex).__name__}: {ex}")
    return g


# ---------------------------------------------------------------------------
# Bucket.get rounding


def rexpr(e, env, dtname, off="0"):
    """integer expressions of the rounding code (`off`: the Coq term for the utcoffset of the reading of `dtname`)"""
    if isinstance(e, ast.Constant) and type(e.value) is int:
        return str(e.value)
    if isinstance(e, ast.Name):
        if e.id in env:
            return env[e.id]
        raise Fail(f"unknown name {e.id}")
    if isinstance(e, ast.Attribute) and e.attr == "microsecond" and isinstance(e.value, ast.Name) and e.value.id == dtname:
        return f"(us_field {dtname} {off})"
    if isinstance(e, ast.Call) and isinstance(e.func, ast.Name) and e.func.id == "int" and len(e.args) == 1 \
            and not e.keywords and isinstance(e.args[0], ast.BinOp) and isinstance(e.args[0].op, ast.Div):
        d = e.args[0]
        if not (isinstance(d.right, ast.Constant) and d.right.value == 1000 and type(d.right.value) is int):
            raise Fail("int(x / c) with c != 1000")
        return f"({rexpr(d.left, env, dtname, off)} / 1000)"
    if isinstance(e, ast.BinOp) and isinstance(e.op, (ast.Add, ast.Mult, ast.Mod)):
        op = {ast.Add: "+", ast.Mult: "*", ast.Mod: "mod"}[type(e.op)]
        return f"({rexpr(e.left, env, dtname, off)} {op} {rexpr(e.right, env, dtname, off)})"
    raise Fail("unsupported rounding expression " + ast.dump(e)[:80])


def dtexpr(e, env, dtname, off="0"):
    """datetime-valued expressions: dt.replace(microsecond=E) [+ timedelta(seconds=E)]"""
    if isinstance(e, ast.BinOp) and isinstance(e.op, ast.Add):
        r = e.right
        if isinstance(r, ast.Call) and isinstance(r.func, ast.Name) and r.func.id == "timedelta" and not r.args \
                and len(r.keywords) == 1 and r.keywords[0].arg == "seconds":
            return f"({dtexpr(e.left, env, dtname, off)} + {rexpr(r.keywords[0].value, env, dtname, off)} * 1000000)"
        raise Fail("unsupported datetime addition")
    if isinstance(e, ast.Call) and isinstance(e.func, ast.Attribute) and e.func.attr == "replace" \
            and isinstance(e.func.value, ast.Name) and e.func.value.id == dtname and not e.args \
            and len(e.keywords) == 1 and e.keywords[0].arg == "microsecond":
        return f"(replace_us {dtname} {off} {rexpr(e.keywords[0].value, env, dtname, off)})"
    raise Fail("unsupported datetime expression " + ast.dump(e)[:80])


def round_block(block, dtname, off="0"):
    """assignments to locals, the last one re-binding the datetime itself; `off` is the Coq term for the utcoffset of
    the reading the fields are taken from ("0": a datetime known to be in UTC)"""
    env = {}
    out = ""
    for i, s in enumerate(block):
        if not (isinstance(s, ast.Assign) and len(s.targets) == 1 and isinstance(s.targets[0], ast.Name)):
            raise Fail("rounding block: not an assignment to a name")
        t = s.targets[0].id
        if t == dtname:
            if i != len(block) - 1:
                raise Fail("the datetime is re-bound before the end of the block")
            return out + dtexpr(s.value, env, dtname, off)
        out += f"let {t} := {rexpr(s.value, env, dtname, off)} in\n  "
        env[t] = t
    raise Fail("rounding block does not re-bind the datetime")


def utc_normalisation(s):
    """`if X is not None and X.utcoffset() is not None: X = X.astimezone(timezone.utc)` (or `X.tzinfo is not None` as the
    second test) -> "X"; any other statement -> None.  On an aware datetime (the model's domain) the test is `X is not
    None`; the assignment keeps the instant and makes the utcoffset 0."""
    if not (isinstance(s, ast.If) and not s.orelse and len(s.body) == 1):
        return None
    t = s.test
    if not (isinstance(t, ast.BoolOp) and isinstance(t.op, ast.And) and len(t.values) == 2):
        return None

    def is_not_none(c):
        if isinstance(c, ast.Compare) and len(c.ops) == 1 and isinstance(c.ops[0], ast.IsNot) \
                and isinstance(c.comparators[0], ast.Constant) and c.comparators[0].value is None:
            return c.left
        return None
    a, b = is_not_none(t.values[0]), is_not_none(t.values[1])
    if not isinstance(a, ast.Name) or b is None:
        return None
    nm = a.id
    aware = (isinstance(b, ast.Attribute) and b.attr == "tzinfo" and isinstance(b.value, ast.Name) and b.value.id == nm) or \
            (isinstance(b, ast.Call) and not b.args and not b.keywords and isinstance(b.func, ast.Attribute)
             and b.func.attr == "utcoffset" and isinstance(b.func.value, ast.Name) and b.func.value.id == nm)
    if not aware:
        return None
    st = s.body[0]
    if not (isinstance(st, ast.Assign) and len(st.targets) == 1 and isinstance(st.targets[0], ast.Name)
            and st.targets[0].id == nm and ast.unparse(st.value) == f"{nm}.astimezone(timezone.utc)"):
        return None
    return nm


def check_timezone_utc(repo):
    """`timezone` in datastore.py is datetime.timezone (imported at module level, never re-bound)"""
    tree = ast.parse(open(os.path.join(repo, "aw_datastore/datastore.py")).read())
    ok = False
    for n in ast.walk(tree):
        if isinstance(n, ast.ImportFrom):
            for a in n.names:
                if (a.asname or a.name) == "timezone":
                    if n.module != "datetime" or a.name != "timezone" or n.level != 0 or n not in tree.body:
                        raise Fail("`timezone` is not datetime.timezone imported at module level")
                    ok = True
        elif isinstance(n, ast.Import):
            if any((a.asname or a.name.split(".")[0]) == "timezone" for a in n.names):
                raise Fail("`timezone` bound by an import statement")
        elif isinstance(n, ast.Name) and n.id == "timezone" and not isinstance(n.ctx, ast.Load):
            raise Fail("`timezone` is re-bound in datastore.py")
        elif isinstance(n, (ast.FunctionDef, ast.ClassDef)) and n.name == "timezone":
            raise Fail("`timezone` is re-defined in datastore.py")
        elif isinstance(n, ast.arg) and n.arg == "timezone":
            raise Fail("`timezone` is a parameter name in datastore.py")
    if not ok:
        raise Fail("datastore.py does not import timezone from datetime")


@_guard
def tr_bucket_get(repo):
    fn = _fn(repo, "aw_datastore/datastore.py", "Bucket", "get")
    if [a.arg for a in fn.args.args] != ["self", "limit", "starttime", "endtime"]:
        raise Fail("signature of Bucket.get changed")
    body = _body(fn)
    # optional leading statements: the conversion of an aware edge to UTC, at most once per edge
    normalised = []
    while body and utc_normalisation(body[0]) is not None:
        nm = utc_normalisation(body[0])
        if nm not in ("starttime", "endtime") or nm in normalised:
            raise Fail(f"unexpected UTC conversion of {nm}")
        normalised.append(nm)
        body = body[1:]
    if normalised:
        check_timezone_utc(repo)
    if len(body) != 3:
        raise Fail("Bucket.get is no longer `[UTC conversions] / if starttime / if endtime / return`")
    outs = []
    for s, nm in zip(body[:2], ("starttime", "endtime")):
        if not (isinstance(s, ast.If) and isinstance(s.test, ast.Name) and s.test.id == nm and not s.orelse):
            raise Fail(f"expected `if {nm}:`")
        txt = round_block(s.body, nm, f"{nm}_off")
        if nm in normalised:
            txt = (f"let {nm}_utc := astimezone_utc {nm} {nm}_off in\n  let {nm} := fst {nm}_utc in\n  "
                   f"let {nm}_off := snd {nm}_utc in\n  {txt}")
        outs.append(txt)
    r = body[2]
    ok = (isinstance(r, ast.Return) and isinstance(r.value, ast.Call) and isinstance(r.value.func, ast.Attribute)
          and r.value.func.attr == "get_events" and not r.value.keywords and len(r.value.args) == 4
          and [a.id if isinstance(a, ast.Name) else None for a in r.value.args[1:]] == ["limit", "starttime", "endtime"])
    if not ok:
        raise Fail("Bucket.get does not end with storage.get_events(bucket_id, limit, starttime, endtime)")
    return ("From AwVerif Require Import Model.StoreBase Model.Window.\n\n"
            "(* an aware window edge is (UTC instant, utcoffset) *)\n"
            f"Definition gen_round_start (starttime starttime_off : Z) : Z :=\n  {outs[0]}.\n\n"
            f"Definition gen_round_end (endtime endtime_off : Z) : Z :=\n  {outs[1]}.\n")


@_guard
def tr_bucket_count(repo):
    fn = _fn(repo, "aw_datastore/datastore.py", "Bucket", "get_eventcount")
    body = _body(fn)
    r = body[0] if len(body) == 1 else None
    ok = (isinstance(r, ast.Return) and isinstance(r.value, ast.Call) and isinstance(r.value.func, ast.Attribute)
          and r.value.func.attr == "get_eventcount" and not r.value.keywords and len(r.value.args) == 3
          and [a.id if isinstance(a, ast.Name) else None for a in r.value.args[1:]] == ["starttime", "endtime"])
    if not ok:
        raise Fail("Bucket.get_eventcount is no longer a plain forward of (starttime, endtime)")
    return "Definition gen_count_forwards_raw_edges : bool := true.\n"


# ---------------------------------------------------------------------------
# memory.py


def _listcomp_cond(s, var):
    """`events = [e for e in events if COND]` -> COND"""
    if not (isinstance(s, ast.Assign) and len(s.targets) == 1 and isinstance(s.targets[0], ast.Name)
            and s.targets[0].id == var and isinstance(s.value, ast.ListComp)):
        raise Fail("expected a list-comprehension filter")
    lc = s.value
    g = lc.generators[0] if len(lc.generators) == 1 else None
    if not (g and isinstance(lc.elt, ast.Name) and lc.elt.id == "e" and isinstance(g.target, ast.Name)
            and g.target.id == "e" and isinstance(g.iter, ast.Name) and g.iter.id == var and len(g.ifs) == 1):
        raise Fail("list comprehension is not `[e for e in events if ...]`")
    return g.ifs[0]


@_guard
def tr_mem_filters(repo):
    fn = _fn(repo, "aw_datastore/storages/memory.py", "MemoryStorage", "get_events")
    conds = {}
    for s in _body(fn):
        if isinstance(s, ast.If) and isinstance(s.test, ast.Name) and s.test.id in ("starttime", "endtime"):
            if len(s.body) != 1 or s.orelse:
                raise Fail("window filter block changed")
            conds[s.test.id] = py2v.bexpr(_listcomp_cond(s.body[0], "events"),
                                          {"e": "e", "starttime": "starttime", "endtime": "endtime"})
    if set(conds) != {"starttime", "endtime"}:
        raise Fail("expected one filter under `if starttime:` and one under `if endtime:`")
    return (f"Definition gen_mem_start (starttime : Z) (e : event) : bool :=\n  {conds['starttime']}.\n\n"
            f"Definition gen_mem_end (endtime : Z) (e : event) : bool :=\n  {conds['endtime']}.\n")


def _opt_or(e):
    """`not X or COND` with X an optional datetime -> match X with None => true | Some X => COND end"""
    if not (isinstance(e, ast.BoolOp) and isinstance(e.op, ast.Or) and len(e.values) == 2
            and isinstance(e.values[0], ast.UnaryOp) and isinstance(e.values[0].op, ast.Not)
            and isinstance(e.values[0].operand, ast.Name)):
        raise Fail("expected `not <edge> or <comparison>`")
    nm = e.values[0].operand.id
    if nm not in ("starttime", "endtime"):
        raise Fail("unexpected optional name " + nm)
    c = py2v.bexpr(e.values[1], {"e": "e", nm: nm})
    return f"(match {nm} with None => true | Some {nm} => {c} end)"


@_guard
def tr_mem_count(repo):
    fn = _fn(repo, "aw_datastore/storages/memory.py", "MemoryStorage", "get_eventcount")
    body = _body(fn)
    r = body[0] if len(body) == 1 else None
    if not (isinstance(r, ast.Return) and isinstance(r.value, ast.Call) and isinstance(r.value.func, ast.Name)
            and r.value.func.id == "len" and len(r.value.args) == 1 and isinstance(r.value.args[0], ast.ListComp)):
        raise Fail("get_eventcount is no longer `return len([...])`")
    lc = r.value.args[0]
    g = lc.generators[0] if len(lc.generators) == 1 else None
    if not (g and isinstance(lc.elt, ast.Name) and lc.elt.id == "e" and isinstance(g.target, ast.Name)
            and g.target.id == "e" and len(g.ifs) == 1 and isinstance(g.iter, ast.Subscript)):
        raise Fail("comprehension of get_eventcount changed")
    c = g.ifs[0]
    if not (isinstance(c, ast.BoolOp) and isinstance(c.op, ast.And) and len(c.values) == 2):
        raise Fail("expected `(not starttime or ...) and (not endtime or ...)`")
    return ("Definition gen_mem_count (starttime endtime : option Z) (e : event) : bool :=\n  "
            f"({_opt_or(c.values[0])} && {_opt_or(c.values[1])}).\n")


# ---------------------------------------------------------------------------
# peewee.py trimming loop


@_guard
def tr_pw_clip(repo):
    fn = _fn(repo, "aw_datastore/storages/peewee.py", "PeeweeStorage", "get_events")
    loops = [s for s in _body(fn) if isinstance(s, ast.For)]
    if len(loops) != 1:
        raise Fail("expected exactly one for loop in get_events")
    lp = loops[0]
    if not (isinstance(lp.target, ast.Name) and lp.target.id == "e" and isinstance(lp.iter, ast.Name)
            and lp.iter.id == "events" and not lp.orelse):
        raise Fail("loop header is not `for e in events:`")
    blocks = [s for s in lp.body if not py2v.is_skippable(s)]
    if len(blocks) != 2:
        raise Fail("loop body is not `if starttime: ... / if endtime: ...`")
    text = "e"
    for s, nm in zip(blocks, ("starttime", "endtime")):
        if not (isinstance(s, ast.If) and isinstance(s.test, ast.Name) and s.test.id == nm and not s.orelse):
            raise Fail(f"expected `if {nm}:` in the loop body")
        env = {"e": "e", nm: nm}
        # falling off the end of a block yields the (possibly updated) event
        inner = _stmts_event(s.body, env)
        text = f"(let e := {text} in\n   match {nm} with None => e | Some {nm} =>\n   {inner} end)"
    text = text.replace("(set_ts ", "(set_ts_floor ")
    return ("From AwVerif Require Import Model.StoreBase.\n\n"
            "Definition set_ts_floor (e : event) (t : Z) : event := set_ts e (floor_ms t).\n\n"
            f"Definition gen_pw_clip (starttime endtime : option Z) (e : event) : event :=\n  {text}.\n")


def _stmts_event(body, env):
    """py2v.stmts, but a block's value is the current state of `e` (assignments to e.timestamp / e.duration are
    functional updates threaded through env)."""
    body = [s for s in body if not py2v.is_skippable(s)]
    if not body:
        return env["e"]
    s, rest = body[0], body[1:]
    if isinstance(s, ast.If):
        if s.orelse:
            raise Fail("else branch in the trimming loop")
        then = _stmts_event(list(s.body) + list(rest), dict(env))
        other = _stmts_event(list(rest), dict(env))
        return f"(if {py2v.bexpr(s.test, env)}\n    then {then}\n    else {other})"
    if isinstance(s, ast.Assign) and len(s.targets) == 1:
        t = s.targets[0]
        if isinstance(t, ast.Name):
            if t.id in ("e", "starttime", "endtime"):
                raise Fail("re-binding of " + t.id)
            env2 = dict(env)
            env2[t.id] = t.id
            return f"(let {t.id} := {py2v.expr(s.value, env)} in\n    {_stmts_event(rest, env2)})"
        if isinstance(t, ast.Attribute) and isinstance(t.value, ast.Name) and t.value.id == "e" and t.attr in py2v.SETTER:
            env2 = dict(env)
            env2["e"] = f"({py2v.SETTER[t.attr]} {env['e']} {py2v.expr(s.value, env)})"
            return _stmts_event(rest, env2)
    raise Fail("unsupported statement in the trimming loop: " + ast.dump(s)[:80])


# ---------------------------------------------------------------------------
# sqlite.py: SQL text and parameter expressions


def _norm(s):
    return re.sub(r"\s+", " ", s).strip()


def _strconst(e):
    """a string literal or a `+` concatenation of string literals"""
    if isinstance(e, ast.Constant) and isinstance(e.value, str):
        return e.value
    if isinstance(e, ast.BinOp) and isinstance(e.op, ast.Add):
        return _strconst(e.left) + _strconst(e.right)
    raise Fail("query is not a constant string")


def _strings(fn):
    """every string constant / concatenation assigned to `query`"""
    for s in ast.walk(fn):
        if isinstance(s, ast.Assign) and len(s.targets) == 1 and isinstance(s.targets[0], ast.Name) \
                and s.targets[0].id == "query":
            return _norm(_strconst(s.value))
    raise Fail("no `query = ...` assignment")


EXPECT_GET = _norm("""SELECT id, starttime, endtime, datastr FROM events
    WHERE bucketrow = (SELECT rowid FROM buckets WHERE id = ?)
    AND endtime >= ? AND starttime <= ? ORDER BY starttime DESC, id DESC LIMIT ?""")
EXPECT_COUNT = _norm("""SELECT count(*) FROM events WHERE bucketrow = (SELECT rowid FROM buckets WHERE id = ?)
    AND endtime >= ? AND starttime <= ?""")
EXPECT_PARAMS = {"starttime_i": "starttime.timestamp() * 1000000 if starttime else 0",
                 "endtime_i": "endtime.timestamp() * 1000000 if endtime else MAX_TIMESTAMP"}


def _sqlite(repo, name, expect_sql, expect_args):
    fn = _fn(repo, "aw_datastore/storages/sqlite.py", "SqliteStorage", name)
    if _strings(fn) != expect_sql:
        raise Fail(f"SQL text of {name} changed: {_strings(fn)}")
    seen = {}
    for s in ast.walk(fn):
        if isinstance(s, ast.Assign) and len(s.targets) == 1 and isinstance(s.targets[0], ast.Name) \
                and s.targets[0].id in EXPECT_PARAMS:
            seen[s.targets[0].id] = ast.unparse(s.value)
        if isinstance(s, ast.Call) and isinstance(s.func, ast.Attribute) and s.func.attr == "execute" \
                and len(s.args) == 2:
            seen["args"] = ast.unparse(s.args[1])
    if {k: seen.get(k) for k in EXPECT_PARAMS} != EXPECT_PARAMS:
        raise Fail(f"window parameter expressions of {name} changed: {seen}")
    if seen.get("args") != expect_args:
        raise Fail(f"execute(...) arguments of {name} changed: {seen.get('args')}")


@_guard
def tr_sqlite_get(repo):
    _sqlite(repo, "get_events", EXPECT_GET, "[bucket_id, starttime_i, endtime_i, limit]")
    return "Definition gen_sqlite_get_events_ok : bool := true.\n"


@_guard
def tr_sqlite_count(repo):
    _sqlite(repo, "get_eventcount", EXPECT_COUNT, "[bucket_id, starttime_i, endtime_i]")
    return "Definition gen_sqlite_get_eventcount_ok : bool := true.\n"


KERNELS = {
    "GenWindow": [("Bucket.get", tr_bucket_get), ("Bucket.get_eventcount", tr_bucket_count),
                  ("MemoryStorage.get_events.filters", tr_mem_filters),
                  ("MemoryStorage.get_eventcount", tr_mem_count),
                  ("PeeweeStorage.get_events.trim", tr_pw_clip),
                  ("SqliteStorage.get_events.sql", tr_sqlite_get),
                  ("SqliteStorage.get_eventcount.sql", tr_sqlite_count)],
}
