"""Kernels of aw_transform/union_no_overlap.py (tie B for C15): `_split_event` and the body of the
merge loop of `union_no_overlap`, re-translated from the working tree on every run.

Fail-closed: every statement form that is not listed here raises Fail, the kernel is then
omitted from coq/Gen/GenUnionNoOverlap.v and the bridge lemma stops compiling.

_split_event(e, dt)           ->  gen_split_event : event -> Z -> event * option event
    if <cond>: / else:            conditions through py2v.bexpr
    x = deepcopy(y)               functional copy (x := y); a plain alias `x = y` of an event is refused
    x.duration = <expr>           x := set_dur x <expr>          (x must be a local copy, not a parameter)
    x.timestamp = <expr>          x := gen_assign_timestamp x <expr>   (the Event setter floors to the ms)
    return (a, b) / (a, None)     (a, Some b) / (a, None)

union_no_overlap              ->  gen_uno_body : event -> event -> res (list event * bool * bool * event)
    Everything around the loop is matched against a fixed skeleton (deep copies of both arguments,
    `events_union = []`, two indices from 0, `while e1_i < len(events1) and e2_i < len(events2)`,
    the two tail appends, `return events_union`).  The loop body is translated path by path
    (continuations are duplicated into both branches of an `if`, so along a path the list of
    appended events, which index advanced, and the current `events2[e2_i]` are known statically):
    x = events1[e1_i] / x = events2[e2_i]      the current heads (parameters e1_0 / e2_0, or the value
                                               written to events2[e2_i] earlier on the path)
    x = <arithmetic>                           let
    events_union.append(x)                     x must be an event
    a, b = _split_event(x, <expr>)             let '(a, b) := gen_split_event x <expr>; if x may be None
                                               (it was bound to the second component of an earlier split)
                                               a match whose None branch is Err AttributeError
    events2[e2_i] = A if A else B              A : option event, B : event; an Event is a non-empty dict,
                                               hence truthy: match A with Some v => v | None => B end
    e1_i += 1 / e2_i += 1                      only as the last statement of a path
    if / elif / else                           conditions through py2v.bexpr
  Result of a path: Ok (appended events, e1_i advanced?, e2_i advanced?, current events2[e2_i]).
"""
import ast
import os

from py2v import Fail, bexpr, expr, find_function

SRC = "aw_transform/union_no_overlap.py"

PRELUDE = (
    "(* the Event.timestamp setter: aw_core.models._timestamp_parse floors to the millisecond *)\n"
    "Definition gen_assign_timestamp (e : event) (t : Z) : event := set_ts e (1000 * (t / 1000)).\n"
)


def _tree(repo):
    return ast.parse(open(os.path.join(repo, SRC)).read())


def _skip(s):
    return isinstance(s, ast.Pass) or (isinstance(s, ast.Expr) and isinstance(s.value, ast.Constant))


def _is_call(e, name, nargs):
    return (isinstance(e, ast.Call) and isinstance(e.func, ast.Name) and e.func.id == name
            and len(e.args) == nargs and not e.keywords)


class Env:
    """name -> (gallina text, type) with type in Z / event / optevent"""

    def __init__(self, d=None, n=0):
        self.d = dict(d or {})
        self.n = n

    def copy(self):
        return Env(self.d, self.n)

    def fresh(self, base):
        self.n += 1
        return f"{base}_{self.n}"

    def values(self):
        """what py2v.expr / bexpr may see: names that are certainly not None"""
        return {k: v for k, (v, t) in self.d.items() if t in ("Z", "event")}

    def typ(self, name):
        if name not in self.d:
            raise Fail(f"unknown name {name}")
        return self.d[name][1]


# ---------------------------------------------------------------------------
# _split_event


def split_stmts(body, env, params):
    if not body:
        raise Fail("_split_event: a path falls off the end without return")
    s, rest = body[0], body[1:]
    if _skip(s):
        return split_stmts(rest, env, params)
    if isinstance(s, ast.If):
        if rest:
            raise Fail("_split_event: statements after if/else")
        return (f"if {bexpr(s.test, env.values())}\n  then {split_stmts(s.body, env.copy(), params)}\n"
                f"  else {split_stmts(s.orelse, env.copy(), params)}")
    if isinstance(s, ast.Assign) and len(s.targets) == 1:
        t = s.targets[0]
        if isinstance(t, ast.Name):
            if _is_call(s.value, "deepcopy", 1) and isinstance(s.value.args[0], ast.Name) \
                    and env.typ(s.value.args[0].id) == "event":
                new = env.fresh(t.id)
                src = env.d[s.value.args[0].id][0]
                env.d[t.id] = (new, "event")
                return f"let {new} := {src} in\n  {split_stmts(rest, env, params)}"
            raise Fail("_split_event: only `x = deepcopy(<event>)` may bind a local")
        if isinstance(t, ast.Attribute) and isinstance(t.value, ast.Name) and t.attr in ("duration", "timestamp"):
            x = t.value.id
            if x in params:
                raise Fail(f"_split_event assigns to an attribute of its parameter {x}")
            if env.typ(x) != "event":
                raise Fail("attribute assignment on a non-event")
            setter = "set_dur" if t.attr == "duration" else "gen_assign_timestamp"
            new = env.fresh(x)
            txt = f"let {new} := {setter} {env.d[x][0]} {expr(s.value, env.values())} in\n  "
            env.d[x] = (new, "event")
            return txt + split_stmts(rest, env, params)
        raise Fail("_split_event: unsupported assignment target")
    if isinstance(s, ast.Return):
        v = s.value
        if not (isinstance(v, ast.Tuple) and len(v.elts) == 2 and isinstance(v.elts[0], ast.Name)
                and env.typ(v.elts[0].id) == "event"):
            raise Fail("_split_event: return must be a pair whose first component is an event")
        a = env.d[v.elts[0].id][0]
        b = v.elts[1]
        if isinstance(b, ast.Constant) and b.value is None:
            return f"({a}, None)"
        if isinstance(b, ast.Name) and env.typ(b.id) == "event":
            return f"({a}, Some {env.d[b.id][0]})"
        raise Fail("_split_event: second component must be an event or None")
    raise Fail("_split_event: unsupported statement " + type(s).__name__)


def tr_split_event(repo):
    fn = find_function(_tree(repo), "_split_event")
    args = [a.arg for a in fn.args.args]
    if args != ["e", "dt"] or fn.args.vararg or fn.args.kwarg or fn.args.defaults:
        raise Fail("signature changed")
    env = Env({"e": ("e", "event"), "dt": ("dt", "Z")})
    return (PRELUDE + "\nDefinition gen_split_event (e : event) (dt : Z) : event * option event :=\n  "
            + split_stmts(fn.body, env, {"e", "dt"}) + ".\n")


# ---------------------------------------------------------------------------
# union_no_overlap

SKELETON_BEFORE = ["events1 = deepcopy(events1)", "events2 = deepcopy(events2)", "events_union = []",
                   "e1_i = 0", "e2_i = 0"]
SKELETON_TEST = "e1_i < len(events1) and e2_i < len(events2)"
SKELETON_AFTER = ["events_union += events1[e1_i:]", "events_union += events2[e2_i:]", "return events_union"]


def _dump(src):
    return ast.dump(ast.parse(src).body[0])


def _is_index(e, lst, idx):
    return (isinstance(e, ast.Subscript) and isinstance(e.value, ast.Name) and e.value.id == lst
            and isinstance(e.slice, ast.Name) and e.slice.id == idx)


class Path:
    def __init__(self):
        self.emit, self.adv1, self.adv2, self.head2 = [], False, False, "e2_0"

    def copy(self):
        p = Path()
        p.emit, p.adv1, p.adv2, p.head2 = list(self.emit), self.adv1, self.adv2, self.head2
        return p


def body_stmts(body, env, path):
    if not body:
        b = lambda x: "true" if x else "false"
        return f"Ok ([{'; '.join(path.emit)}], {b(path.adv1)}, {b(path.adv2)}, {path.head2})"
    if path.adv1 or path.adv2:
        raise Fail("loop body: statements after an index was advanced")
    s, rest = body[0], body[1:]
    if _skip(s):
        return body_stmts(rest, env, path)
    if isinstance(s, ast.If):
        return (f"if {bexpr(s.test, env.values())}\n  then {body_stmts(s.body + rest, env.copy(), path.copy())}\n"
                f"  else {body_stmts(s.orelse + rest, env.copy(), path.copy())}")
    if isinstance(s, ast.AugAssign) and isinstance(s.op, ast.Add) and isinstance(s.target, ast.Name) \
            and isinstance(s.value, ast.Constant) and s.value.value == 1 and type(s.value.value) is int:
        if s.target.id == "e1_i":
            path.adv1 = True
        elif s.target.id == "e2_i":
            path.adv2 = True
        else:
            raise Fail("loop body: += on " + s.target.id)
        if rest:
            raise Fail("loop body: an index is advanced before the end of the path")
        return body_stmts(rest, env, path)
    if isinstance(s, ast.Expr) and isinstance(s.value, ast.Call) and isinstance(s.value.func, ast.Attribute) \
            and isinstance(s.value.func.value, ast.Name) and s.value.func.value.id == "events_union" \
            and s.value.func.attr == "append" and len(s.value.args) == 1 and not s.value.keywords \
            and isinstance(s.value.args[0], ast.Name):
        x = s.value.args[0].id
        if env.typ(x) != "event":
            raise Fail(f"loop body: appends {x}, which may be None")
        path.emit.append(env.d[x][0])
        return body_stmts(rest, env, path)
    if isinstance(s, ast.Assign) and len(s.targets) == 1:
        t, v = s.targets[0], s.value
        if isinstance(t, ast.Name):
            if t.id in ("e1_i", "e2_i", "events1", "events2", "events_union"):
                raise Fail("loop body rebinds " + t.id)
            if _is_index(v, "events1", "e1_i"):
                env.d[t.id] = ("e1_0", "event")
                return body_stmts(rest, env, path)
            if _is_index(v, "events2", "e2_i"):
                env.d[t.id] = (path.head2, "event")
                return body_stmts(rest, env, path)
            new = env.fresh(t.id)
            txt = f"let {new} := {expr(v, env.values())} in\n  "
            env.d[t.id] = (new, "Z")
            return txt + body_stmts(rest, env, path)
        if isinstance(t, ast.Tuple) and len(t.elts) == 2 and all(isinstance(x, ast.Name) for x in t.elts) \
                and _is_call(v, "_split_event", 2) and isinstance(v.args[0], ast.Name):
            x = v.args[0].id
            at = expr(v.args[1], env.values())
            a, b = t.elts[0].id, t.elts[1].id
            na, nb = env.fresh(a if a != "_" else "ignored"), env.fresh(b if b != "_" else "ignored")
            if env.typ(x) == "event":
                head = f"let '({na}, {nb}) := gen_split_event {env.d[x][0]} {at} in\n  "
                tail = ""
            elif env.typ(x) == "optevent":
                some = env.fresh(x)
                head = (f"match {env.d[x][0]} with\n  | None => Err AttributeError\n  | Some {some} =>\n  "
                        f"let '({na}, {nb}) := gen_split_event {some} {at} in\n  ")
                tail = "\n  end"
                env.d[x] = (some, "event")
            else:
                raise Fail("_split_event applied to a non-event")
            if a != "_":
                env.d[a] = (na, "event")
            if b != "_":
                env.d[b] = (nb, "optevent")
            return head + body_stmts(rest, env, path) + tail
        if _is_index(t, "events2", "e2_i") and isinstance(v, ast.IfExp) and isinstance(v.test, ast.Name) \
                and isinstance(v.body, ast.Name) and v.body.id == v.test.id and isinstance(v.orelse, ast.Name) \
                and env.typ(v.test.id) == "optevent" and env.typ(v.orelse.id) == "event":
            new = env.fresh("head2")
            some = env.fresh("v")
            txt = (f"let {new} := match {env.d[v.test.id][0]} with Some {some} => {some} "
                   f"| None => {env.d[v.orelse.id][0]} end in\n  ")
            path.head2 = new
            return txt + body_stmts(rest, env, path)
        raise Fail("loop body: unsupported assignment " + ast.dump(s)[:100])
    raise Fail("loop body: unsupported statement " + type(s).__name__)


def tr_uno_body(repo):
    fn = find_function(_tree(repo), "union_no_overlap")
    args = [a.arg for a in fn.args.args]
    if args != ["events1", "events2"] or fn.args.vararg or fn.args.kwarg or fn.args.defaults:
        raise Fail("signature changed")
    body = [s for s in fn.body if not _skip(s)]
    nb, na = len(SKELETON_BEFORE), len(SKELETON_AFTER)
    if len(body) != nb + 1 + na:
        raise Fail("union_no_overlap: the statements around the loop changed")
    for s, want in zip(body[:nb] + body[nb + 1:], SKELETON_BEFORE + SKELETON_AFTER):
        if ast.dump(s) != _dump(want):
            raise Fail(f"union_no_overlap: expected `{want}`")
    loop = body[nb]
    if not isinstance(loop, ast.While) or loop.orelse or \
            ast.dump(loop.test) != ast.dump(ast.parse(SKELETON_TEST).body[0].value):
        raise Fail(f"union_no_overlap: expected `while {SKELETON_TEST}:`")
    env = Env({})
    return ("Definition gen_uno_body (e1_0 e2_0 : event) : res (list event * bool * bool * event) :=\n  "
            + body_stmts(loop.body, env, Path()) + ".\n")


KERNELS = {
    "GenUnionNoOverlap": [("uno_split_event", tr_split_event), ("uno_loop_body", tr_uno_body)],
}
