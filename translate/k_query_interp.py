"""Tie B for the INTERPRETER side of aw_query/query2.py (C17, C11): the six `interpret` methods, interpret(), query()
and the composition `functions[name](*call_args)` of aw_query/functions.py, re-translated into Gallina on every run
(appended to coq/Gen/GenQuery.v after k_query.py's kernels) and proved equal to Model/Query.v's interp /
interpret_stmt / run_stmts / run / call_builtin in coq/Bridge/BridgeQueryInterp.v.

State-monad mode.  Every translated function is a computation in the model's monad `M W X = W -> res X * W` (W = the
world the built-in bodies see and change; Section variables W / buckets / body / table exactly as in Model/Query.v):
  statements     are chained with bindM; a pure sub-expression that can raise is `lift W (..)` of its `res` reading
                 (d[k] = dict_lookup, functions[k] = registry_lookup, x.name on a token of unknown class =
                 gen_attr_name, parse(..) = gen_parse_stmt, get_return(..) = gen_get_return, create_namespace()).
  namespace      the one mutable dict.  It is a threaded variable: `namespace[k] = v` is `let namespace := dict_set ..`,
                 every call that receives it (`x.interpret(datastore, namespace)`, `interpret(var, val, namespace,
                 datastore)`) returns the namespace after the call next to its result, and a function that takes it
                 returns it: `M W (result * namespace)`, or `M W namespace` for a procedure.  Refused: any other
                 alias of it (storing it, passing it to anything else) - except inside an argument list.
  datastore      never inspected by the translated code: as a call argument it is the ambient world (dropped from the
                 Gallina signature); inside an argument list `[datastore, namespace]` the two are the markers
                 ADatastore / ANamespace of the model's `arg` type (what a built-in body reads of them is the oracle).
  values         int -> VInt, str -> VStr, list of values -> VList, dict of values -> VDict (insertion-ordered
                 association list, d[k] = v is dict_set), a value in an argument list -> AVal; starttime / endtime are
                 their isoformat() texts (`x.isoformat()` = x), as in the model's `run`.
  self           `self.<field>` is the constructor field the class's __init__ stores its parameter in (checked:
                 __init__ is exactly `self.f = p` for each parameter, in the order of the Gallina constructor).
  dispatch       `x.interpret(datastore, namespace)` on a token x = the recursive call of `gen_interp`, a structural
                 Fixpoint over the token with one arm per class.
  for loops      `Definition gen_<fn>_loop<k> [interp_] <free variables> := fix loop_ <state> (it : list _) {struct it}`
                 (the model's interp_seq idiom: the element interpreter is a parameter so that gen_interp can call the
                 loop on its own sub-tokens); state = the variables the body assigns that exist before the loop, in
                 order of first assignment, then the namespace; falling off the body / `continue` recurses, `break`
                 and exhaustion return the state.  `for k, v in d.items()` iterates the association list.
  try/except     `try: B except C: H` (B assigns locals only, H raises) = match B w with (Err C, w') => H w' | r => r.
  evaluation     Python's order: the right-hand side of `d[k] = e` before d and k; arguments left to right.
  the call       `functions[name](*call_args)` = gen_call_registered: the decorator stack found at EVERY registration
                 site of functions.py (outermost first), each wrapper being the kernel k_query.py already translates
                 (q2_function's g: gen_q2_function_g after binding (datastore, namespace, *args); q2_typecheck's g:
                 gen_typecheck), ending in the call of the decorated function with positional arguments:
                 call_positional = Python's binding (arity_ok, else TypeError) followed by the body oracle run_body.
                 The sites are compared with the frozen registry corpus/c17_registry.json (names, parameter names,
                 kinds, defaults, simple annotations); `functions` must be written nowhere else.
Anything else raises Fail -> the kernel is omitted -> GenQuery.v / BridgeQueryInterp.v stop compiling -> broken tie.
"""
import ast
import json
import os

from py2v import Fail, is_skippable
from k_query import CLASSES, EXC, FUNCTIONS_SRC, Module, _guard, assigned_names, strlit, used_names

FIELD_TYPES = {"QInteger": ["Z"], "QVariable": ["str", "value"], "QString": ["str"],
               "QFunction": ["str", "list:qtoken"], "QDict": ["dict:qtoken"], "QList": ["list:qtoken"]}
GT = {"str": "str", "Z": "Z", "bool": "bool", "value": "Query.value", "ns": "Query.namespace", "qtoken": "Query.qtoken",
      "arg": "Query.arg", "builtin": "Query.builtin", "unit": "unit",
      "list:qtoken": "list Query.qtoken", "dict:qtoken": "list (str * Query.qtoken)", "list:value": "list Query.value",
      "dict:value": "list (str * Query.value)", "list:arg": "list Query.arg", "list:str": "list str"}
ELT = {"list:qtoken": "qtoken", "list:str": "str", "list:value": "value", "list:arg": "arg"}
RESERVED = {"table", "W", "buckets", "body", "max_digits", "ret", "fail", "lift", "bindM", "M", "loop_", "interp_", "it",
            "it'", "t_", "r_", "w_", "w_'", "Ok", "Err", "Some", "None", "true", "false", "negb", "str", "Z", "Query",
            "strip", "split", "is_empty", "dict_set", "dict_mem", "dict_lookup", "tt", "unit", "list", "fun", "fix",
            "match", "with", "end", "let", "in", "if", "then", "else", "bool", "length", "map", "app", "fst", "snd"}
REGISTRY = os.path.join(os.path.dirname(os.path.abspath(__file__)), "..", "corpus", "c17_registry.json")

PRELUDE = """(* ------------------------------------------------------------------------------------------------------ *)
(* the interpreter side (translate/k_query_interp.py, docstring): state-monad mode *)
Section GenInterp.
Variable max_digits : nat.                                       (* sys.get_int_max_str_digits() *)
Variable table : list Query.builtin.                             (* aw_query.functions.functions as the registry reader describes it *)
Variable W : Type.                                               (* the world of the built-in bodies *)
Variable buckets : W -> str -> bool.
Variable body : str -> list Query.arg -> W -> (Query.value + errclass) * W.

(* `name in functions`, `functions[name]` *)
Definition registry_mem (name : str) : bool :=
  match find_builtin table name with Some _ => true | None => false end.
Definition registry_lookup (name : str) : res Query.builtin :=
  match find_builtin table name with Some b => Ok b | None => Err KeyError end.
(* f( *args ) for the decorated function itself: Python binds the positional arguments to the signature (TypeError
   on a wrong count), then the body runs (the oracle of Model/Query.v) *)
Definition call_positional (f : Query.builtin) (args : list Query.arg) : M W Query.value :=
  if arity_ok (b_sig f) (length args) then run_body W buckets body f args else fail W TypeError.
"""


def gt(ty):
    if isinstance(ty, tuple):
        return "(" + " * ".join(gt(t) for t in ty[1:]) + ")"
    if ty in GT:
        return GT[ty]
    raise Fail(f"no Gallina type for {ty}")


class V:
    def __init__(self, text, ty, lit=None):
        self.text, self.ty, self.lit = text, ty, lit


def coerce(v, to):
    ty = v.ty
    if ty == to:
        return v.text
    if ty == "strlit" and to == "str":
        return v.text
    if to == "value":
        if ty == "Z":
            return f"(VInt {v.text})"
        if ty in ("str", "strlit"):
            return f"(VStr {v.text})"
        if ty == "bool":
            return f"(VBool {v.text})"
        if ty == "none":
            return "VNone"
        if ty == "list:value":
            return f"(VList {v.text})"
        if ty == "dict:value":
            return f"(VDict {v.text})"
    if to == "arg" and ty != "arg":
        return f"(AVal {coerce(v, 'value')})"
    raise Fail(f"cannot use a {ty} ({v.text}) as a {to}")


def init_fields(mod, cls):
    """the attribute each constructor field is stored in: __init__ must be `self.f = p` for each parameter in order"""
    methods = sorted(m.name for m in mod.classes[cls].body if isinstance(m, ast.FunctionDef))
    if methods != ["__init__", "check", "interpret", "parse"]:
        # a property, __getattr__, __setattr__ .. would change what self.<field> and x.interpret mean
        raise Fail(f"{cls}: the methods are no longer __init__ / check / interpret / parse: {methods}")
    fn = mod.method(cls, "__init__")
    a = fn.args
    if a.vararg or a.kwarg or a.kwonlyargs or a.posonlyargs or a.defaults or fn.decorator_list:
        raise Fail(f"{cls}.__init__: signature changed")
    params = [x.arg for x in a.args]
    if not params or params[0] != "self" or len(params) - 1 != len(FIELD_TYPES[cls]):
        raise Fail(f"{cls}.__init__: expected {len(FIELD_TYPES[cls])} fields, found {params[1:]}")
    body = [s for s in fn.body if not is_skippable(s)]
    fields = []
    for s, p in zip(body, params[1:]):
        if not (isinstance(s, ast.Assign) and len(s.targets) == 1 and isinstance(s.targets[0], ast.Attribute)
                and isinstance(s.targets[0].value, ast.Name) and s.targets[0].value.id == "self"
                and isinstance(s.value, ast.Name) and s.value.id == p):
            raise Fail(f"{cls}.__init__ is no longer `self.<field> = <parameter>` in parameter order")
        fields.append(s.targets[0].attr)
    if len(body) != len(params) - 1 or len(set(fields)) != len(fields):
        raise Fail(f"{cls}.__init__ does more than store its parameters")
    # nothing else in the class may set an attribute of self
    for m in mod.classes[cls].body:
        if isinstance(m, ast.FunctionDef) and m.name != "__init__":
            for n in ast.walk(m):
                if isinstance(n, ast.Attribute) and isinstance(n.ctx, (ast.Store, ast.Del)):
                    raise Fail(f"{cls}.{m.name} assigns an attribute")
                # .. nor change a field in place: no item store into, and no method but .items() of, self.<field>
                if isinstance(n, ast.Subscript) and isinstance(n.ctx, (ast.Store, ast.Del)) \
                        and isinstance(n.value, ast.Attribute):
                    raise Fail(f"{cls}.{m.name} stores an item into an attribute")
                if isinstance(n, ast.Call) and isinstance(n.func, ast.Attribute) and isinstance(n.func.value, ast.Attribute) \
                        and isinstance(n.func.value.value, ast.Name) and n.func.value.value.id == "self" \
                        and n.func.attr != "items":
                    raise Fail(f"{cls}.{m.name} calls self.{n.func.value.attr}.{n.func.attr}")
    return fields


def check_functions_import(mod):
    """`functions` in query2.py is aw_query.functions.functions and nothing else"""
    seen = 0
    for n in mod.tree.body:
        if isinstance(n, ast.ImportFrom):
            for al in n.names:
                bound = al.asname or al.name
                if bound == "functions":
                    if not (n.module == "functions" and n.level == 1 and al.name == "functions"):
                        raise Fail("query2.py: `functions` is not imported from .functions")
                    seen += 1
                if bound in ("interpret", "query", "parse", "get_return", "create_namespace", "datastore", "namespace"):
                    raise Fail(f"query2.py: an import binds {bound}")
        elif isinstance(n, ast.Import):
            for al in n.names:
                if (al.asname or al.name.split(".")[0]) == "functions":
                    raise Fail("query2.py: `functions` is bound by an import statement")
    if seen != 1:
        raise Fail("query2.py: `from .functions import functions` not found exactly once")
    for n in ast.walk(mod.tree):
        if isinstance(n, ast.Name) and n.id == "functions" and isinstance(n.ctx, (ast.Store, ast.Del)):
            raise Fail("query2.py: `functions` is re-bound")
        if isinstance(n, (ast.Global, ast.Nonlocal)):
            raise Fail("query2.py: global / nonlocal statement")


class MFn:
    """translation of one Python function in state-monad mode"""

    def __init__(self, mod, fn, prefix, params, ret, fields=None, in_class=False):
        """params: list of (python name, type) with the types 'ds' (the datastore: dropped), 'ns', 'isotime' (a
        datetime known by its isoformat text) or a value type; ret: the type of the returned value, or None for a
        procedure"""
        self.mod, self.fn, self.prefix, self.ret, self.in_class = mod, fn, prefix, ret, in_class
        a = fn.args
        if a.vararg or a.kwarg or a.kwonlyargs or a.posonlyargs or a.defaults or fn.decorator_list:
            raise Fail(f"{prefix}: signature or decorators changed")
        names = [x.arg for x in a.args]
        if names != [n for n, _ in params]:
            raise Fail(f"{prefix}: expected the parameters {[n for n, _ in params]}, found {names}")
        self.ds = [n for n, t in params if t == "ds"]
        self.ds = self.ds[0] if self.ds else None
        self.ns = None           # the Python name of the namespace variable, once there is one
        self.types = {}
        self.iso = set()
        self.fields = dict(fields or {})     # attribute of self -> (variable, type)
        for n, t in params:
            if t == "ns":
                self.ns = n
                self.types[n] = "ns"
            elif t == "isotime":
                self.iso.add(n)
                self.types[n] = "str"
            elif t not in ("ds", "self"):
                self.types[n] = t
        self.params = params
        locals_ = set(names) | set(assigned_names(fn.body)) | {v for v, _ in self.fields.values()}
        for n in locals_:
            if n in RESERVED or n.startswith("gen_") or n.startswith("tmp_"):
                raise Fail(f"{prefix}: the name {n} is reserved by the translator")
        if "functions" in locals_:
            raise Fail(f"{prefix}: `functions` is a local name")
        self.order = names + [n for n in assigned_names(fn.body) if n not in names]
        self.top = []
        self.nloop = 0
        self.ntmp = 0
        self.loop = None         # (state names) while translating a loop body
        self.body = [s for s in fn.body if not is_skippable(s)]
        for n in ast.walk(fn):
            if isinstance(n, (ast.Lambda, ast.FunctionDef, ast.ClassDef, ast.ListComp, ast.DictComp, ast.SetComp,
                              ast.GeneratorExp, ast.Yield, ast.YieldFrom, ast.Await, ast.With, ast.NamedExpr,
                              ast.Global, ast.Nonlocal, ast.Delete)) and n is not fn:
                raise Fail(f"{prefix}: unsupported construct {type(n).__name__}")

    def tmp(self):
        self.ntmp += 1
        return f"tmp_{self.ntmp}"

    # -- what an empty container will hold
    def container_type(self, name, empty):
        found = set()
        for n in ast.walk(self.fn):
            e = None
            if isinstance(n, ast.Assign) and len(n.targets) == 1 and isinstance(n.targets[0], ast.Subscript) \
                    and isinstance(n.targets[0].value, ast.Name) and n.targets[0].value.id == name and empty == "emptydict":
                e = n.value
            if isinstance(n, ast.Call) and isinstance(n.func, ast.Attribute) and n.func.attr == "append" \
                    and isinstance(n.func.value, ast.Name) and n.func.value.id == name and len(n.args) == 1 \
                    and empty == "emptylist":
                e = n.args[0]
            if e is not None:
                if isinstance(e, ast.Name):      # a local that is assigned once, the result of an .interpret call
                    assigns = [a for a in ast.walk(self.fn) if isinstance(a, ast.Assign)
                               and any(isinstance(t, ast.Name) and t.id == e.id for t in a.targets)]
                    if len(assigns) == 1 and assigned_names([self.fn]).count(e.id) == 1 \
                            and sum(1 for n in ast.walk(self.fn) if isinstance(n, ast.Name) and n.id == e.id
                                    and isinstance(n.ctx, ast.Store)) == 1:
                        e = assigns[0].value
                if isinstance(e, ast.Call) and isinstance(e.func, ast.Attribute) and e.func.attr == "interpret":
                    found.add("value")
                else:
                    found.add("?")
        if found != {"value"}:
            raise Fail(f"{self.prefix}: cannot type the container {name}")
        return "dict:value" if empty == "emptydict" else "list:value"

    # -- expressions: returns V; `binds` collects (pattern, M-computation) to be chained before the use
    def pure(self, binds, rtext, ty):
        t = self.tmp()
        binds.append((t, f"lift W ({rtext})"))
        return V(t, ty)

    def is_ns(self, e):
        return isinstance(e, ast.Name) and self.ns is not None and e.id == self.ns

    def is_ds(self, e):
        return isinstance(e, ast.Name) and self.ds is not None and e.id == self.ds

    def ex(self, e, binds):
        if isinstance(e, ast.Name):
            if self.is_ds(e):
                raise Fail(f"{self.prefix}: the datastore is used as a value")
            if e.id in self.types:
                return V(e.id, self.types[e.id])
            raise Fail(f"{self.prefix}: unknown name {e.id}")
        if isinstance(e, ast.Constant):
            c = e.value
            if c is None:
                return V("VNone", "none")
            if c is True or c is False:
                return V("true" if c else "false", "bool")
            if type(c) is int:
                return V(str(c) if c >= 0 else f"({c})", "Z")
            if type(c) is str:
                return V(strlit(c), "strlit", lit=c)
            raise Fail("unsupported constant")
        if isinstance(e, ast.List):
            if not e.elts:
                return V("[]", "emptylist")
            items = []
            for x in e.elts:           # an argument list: the datastore and the namespace are markers
                if self.is_ds(x):
                    items.append("ADatastore")
                elif self.is_ns(x):
                    items.append("ANamespace")
                else:
                    items.append(coerce(self.ex(x, binds), "arg"))
            return V("[" + "; ".join(items) + "]", "list:arg")
        if isinstance(e, ast.Dict) and not e.keys:
            return V("[]", "emptydict")
        if isinstance(e, ast.UnaryOp) and isinstance(e.op, ast.Not):
            v = self.ex(e.operand, binds)
            if v.ty in ("str", "strlit"):
                return V(f"(is_empty {v.text})", "bool")
            return V(f"(negb {self.truth(v)})", "bool")
        if isinstance(e, ast.Compare) and len(e.ops) == 1 and isinstance(e.ops[0], (ast.In, ast.NotIn)):
            k = self.ex(e.left, binds)
            r = e.comparators[0]
            if k.ty not in ("str", "strlit"):
                raise Fail("membership test of a non-string")
            if isinstance(r, ast.Name) and r.id == "functions":
                t = f"(registry_mem {k.text})"
            else:
                d = self.ex(r, binds)
                if d.ty not in ("ns", "dict:value"):
                    raise Fail(f"membership test in a {d.ty}")
                t = f"(dict_mem {d.text} {k.text})"
            return V(f"(negb {t})" if isinstance(e.ops[0], ast.NotIn) else t, "bool")
        if isinstance(e, ast.Attribute):
            if isinstance(e.value, ast.Name) and e.value.id == "self" and self.in_class:
                if e.attr not in self.fields:
                    raise Fail(f"{self.prefix}: self.{e.attr} is not a constructor field")
                var, ty = self.fields[e.attr]
                return V(var, ty)
            v = self.ex(e.value, binds)
            if v.ty == "qtoken" and e.attr == "name":
                return self.pure(binds, f"gen_attr_name {v.text}", "str")
            raise Fail(f"unsupported attribute .{e.attr} of a {v.ty}")
        if isinstance(e, ast.Subscript) and not isinstance(e.slice, ast.Slice):
            if isinstance(e.value, ast.Name) and e.value.id == "functions":
                k = self.ex(e.slice, binds)
                if k.ty not in ("str", "strlit"):
                    raise Fail("functions[..] by a non-string")
                return self.pure(binds, f"registry_lookup {k.text}", "builtin")
            d = self.ex(e.value, binds)
            k = self.ex(e.slice, binds)
            if d.ty in ("ns", "dict:value") and k.ty in ("str", "strlit"):
                return self.pure(binds, f"dict_lookup {d.text} {k.text}", "value")
            raise Fail(f"unsupported subscript of a {d.ty}")
        if isinstance(e, ast.Call):
            return self.call(e, binds)
        raise Fail(f"{self.prefix}: unsupported expression " + ast.dump(e)[:80])

    def truth(self, v):
        if v.ty == "bool":
            return v.text
        if v.ty in ("str", "strlit"):
            return f"(negb (is_empty {v.text}))"
        raise Fail(f"truthiness of a {v.ty}")

    def interp_name(self):
        if not self.in_class:
            return "gen_interp"
        if self.loop is None:
            raise Fail(f"{self.prefix}: a recursive .interpret call outside a loop over the sub-tokens")
        return "interp_"

    def call(self, e, binds):
        if e.keywords:
            raise Fail("keyword arguments")
        f = e.func
        if isinstance(f, ast.Attribute):
            m = f.attr
            if m == "interpret":
                recv = self.ex(f.value, binds)
                if recv.ty != "qtoken" or len(e.args) != 2 or not self.is_ds(e.args[0]) or not self.is_ns(e.args[1]):
                    raise Fail(f"{self.prefix}: .interpret is not called as <token>.interpret(datastore, namespace)")
                t = self.tmp()
                binds.append((f"'({t}, {self.ns})", f"{self.interp_name()} {recv.text} {self.ns}"))
                return V(t, "value")
            if m == "isoformat" and not e.args and isinstance(f.value, ast.Name) and f.value.id in self.iso:
                return V(f.value.id, "str")
            recv = self.ex(f.value, binds)
            args = [self.ex(a, binds) for a in e.args]
            if recv.ty == "str" and m == "strip" and not args:
                return V(f"(strip {recv.text})", "str")
            if recv.ty == "str" and m == "split" and len(args) == 1 and args[0].ty == "strlit" and len(args[0].lit) == 1:
                return V(f"(split {ord(args[0].lit)} {recv.text})", "list:str")
            raise Fail(f"unsupported method {m} on a {recv.ty}")
        if isinstance(f, ast.Name) and f.id in self.types:
            raise Fail(f"call of the local {f.id}")
        if isinstance(f, ast.Name):
            if f.id == "create_namespace" and not e.args:
                return self.pure(binds, "gen_create_namespace", "ns")
            if f.id == "parse" and len(e.args) == 2 and self.is_ns(e.args[1]):
                s = self.ex(e.args[0], binds)
                if s.ty != "str":
                    raise Fail("parse of a non-string")
                return self.pure(binds, f"gen_parse_stmt max_digits {s.text} {self.ns}", ("tuple", "qtoken", "qtoken"))
            if f.id == "get_return" and len(e.args) == 1 and self.is_ns(e.args[0]):
                return self.pure(binds, f"gen_get_return {self.ns}", "value")
            if f.id == "interpret" and not self.in_class:
                sig = INTERPRET_SIG
                if len(e.args) != len(sig):
                    raise Fail("interpret(..): arity")
                out = []
                for a, (_, t) in zip(e.args, sig):
                    if t == "ds":
                        if not self.is_ds(a):
                            raise Fail("interpret(..): the datastore argument is not the datastore")
                    elif t == "ns":
                        if not self.is_ns(a):
                            raise Fail("interpret(..): the namespace argument is not the namespace")
                        out.append(self.ns)
                    else:
                        v = self.ex(a, binds)
                        if v.ty != t:
                            raise Fail(f"interpret(..): a {v.ty} where a {t} is expected")
                        out.append(v.text)
                binds.append((self.ns, "gen_interpret " + " ".join(out)))
                return V("tt", "procedure")
            raise Fail(f"unsupported call of {f.id}")
        # functions[name](*call_args)
        if len(e.args) == 1 and isinstance(e.args[0], ast.Starred):
            fn = self.ex(f, binds)
            a = self.ex(e.args[0].value, binds)
            if fn.ty == "builtin" and a.ty == "list:arg":
                t = self.tmp()
                binds.append((t, f"gen_call_registered {fn.text} {a.text}"))
                return V(t, "value")
        raise Fail("unsupported call")

    # -- statements
    @staticmethod
    def wrap(binds, body):
        for p, m in reversed(binds):
            body = f"bindM W ({m}) (fun {p} =>\n  {body})"
        return body

    def state_tuple(self, names):
        return names[0] if len(names) == 1 else "(" + ", ".join(names) + ")"

    def set_local(self, name, v):
        if name == self.ds or name == "self" or name in self.iso:
            raise Fail(f"{self.prefix}: assignment to {name}")
        if name == self.ns and v.ty != "ns":
            raise Fail(f"{self.prefix}: the namespace variable is assigned a {v.ty}")
        ty = v.ty
        text = v.text
        if ty in ("emptylist", "emptydict"):
            ty = self.container_type(name, ty)
        if ty == "strlit":
            ty = "str"
        if ty == "none":
            ty, text = "value", "VNone"
        if ty == "procedure":
            raise Fail(f"{self.prefix}: the result of a procedure is used")
        if ty == "ns":
            if self.ns is not None and self.ns != name:
                raise Fail(f"{self.prefix}: a second name for the namespace")
            self.ns = name
        if self.loop is not None and name in self.loop and self.types.get(name) != ty:
            raise Fail(f"{self.prefix}: loop variable {name} changes type")
        self.types[name] = ty
        return text

    def block(self, stmts, K):
        """stmts: remaining statements; K() -> text for falling off the end"""
        if not stmts:
            return K()
        s, rest = stmts[0], list(stmts[1:])
        if is_skippable(s) or isinstance(s, ast.Pass):
            return self.block(rest, K)
        if isinstance(s, ast.Return):
            if self.loop is not None:
                raise Fail(f"{self.prefix}: return inside a loop")
            if s.value is None or self.ret is None:
                raise Fail(f"{self.prefix}: unexpected return")
            binds = []
            v = self.ex(s.value, binds)
            return self.wrap(binds, self.ret_text(coerce(v, self.ret)))
        if isinstance(s, ast.Raise):
            x = s.exc
            if s.cause is not None and not (isinstance(s.cause, ast.Constant) and s.cause.value is None):
                raise Fail("raise .. from <something>")
            if isinstance(x, ast.Call) and isinstance(x.func, ast.Name) and x.func.id in EXC:
                return f"fail W {EXC[x.func.id]}"
            raise Fail("unsupported raise")
        if isinstance(s, ast.Break):
            if self.loop is None:
                raise Fail("break outside a loop")
            return f"ret W {self.state_tuple(self.loop)}"
        if isinstance(s, ast.Continue):
            if self.loop is None:
                raise Fail("continue outside a loop")
            return self.loop_next()
        if isinstance(s, ast.Assign) and len(s.targets) == 1:
            t = s.targets[0]
            binds = []
            v = self.ex(s.value, binds)          # the right-hand side first
            if isinstance(t, ast.Name):
                text = self.set_local(t.id, v)
                if binds and binds[-1][0] == text:
                    binds[-1] = (t.id, binds[-1][1])
                    return self.wrap(binds, self.block(rest, K))
                return self.wrap(binds, f"let {t.id} := {text} in\n  {self.block(rest, K)}")
            if isinstance(t, ast.Tuple) and isinstance(v.ty, tuple) and len(v.ty) - 1 == len(t.elts) \
                    and all(isinstance(x, ast.Name) for x in t.elts) and binds and binds[-1][0] == v.text:
                for x, ty in zip(t.elts, v.ty[1:]):
                    self.set_local(x.id, V(x.id, ty))
                binds[-1] = ("'(" + ", ".join(x.id for x in t.elts) + ")", binds[-1][1])
                return self.wrap(binds, self.block(rest, K))
            if isinstance(t, ast.Subscript) and isinstance(t.value, ast.Name) and not isinstance(t.slice, ast.Slice):
                d = t.value.id
                if d not in self.types or self.types[d] not in ("ns", "dict:value"):
                    raise Fail(f"{self.prefix}: item assignment to {d}")
                k = self.ex(t.slice, binds)      # then the container and the key
                if k.ty not in ("str", "strlit"):
                    raise Fail("item assignment with a non-string key")
                return self.wrap(binds, f"let {d} := dict_set {d} {k.text} {coerce(v, 'value')} in\n  "
                                 + self.block(rest, K))
            raise Fail(f"{self.prefix}: unsupported assignment " + ast.dump(t)[:60])
        if isinstance(s, ast.Expr) and isinstance(s.value, ast.Call):
            c = s.value
            if isinstance(c.func, ast.Attribute) and c.func.attr == "append" and isinstance(c.func.value, ast.Name) \
                    and len(c.args) == 1 and not c.keywords:
                name = c.func.value.id
                if name not in self.types or self.types[name] not in ("list:value", "list:arg"):
                    raise Fail(f"append to {name}, which is not a list of values")
                binds = []
                v = self.ex(c.args[0], binds)
                return self.wrap(binds, f"let {name} := {name} ++ [{coerce(v, ELT[self.types[name]])}] in\n  "
                                 + self.block(rest, K))
            binds = []
            v = self.ex(c, binds)
            if v.ty != "procedure":
                raise Fail(f"{self.prefix}: an expression statement that is not a procedure call")
            return self.wrap(binds, self.block(rest, K))
        if isinstance(s, ast.If):
            binds = []
            c = self.truth(self.ex(s.test, binds))
            saved = (dict(self.types), self.ns)
            kt = self.block(list(s.body) + rest, K)
            after_t = (dict(self.types), self.ns)
            self.types, self.ns = dict(saved[0]), saved[1]
            kf = self.block(list(s.orelse) + rest, K)
            if after_t[1] != self.ns:
                raise Fail(f"{self.prefix}: the namespace variable differs between the branches of an if")
            return self.wrap(binds, f"if {c}\n  then {kt}\n  else {kf}")
        if isinstance(s, ast.For):
            return self.do_for(s, rest, K)
        if isinstance(s, ast.Try):
            return self.do_try(s, rest, K)
        raise Fail(f"{self.prefix}: unsupported statement {type(s).__name__}")

    def ret_text(self, value_text):
        if self.ns is not None and self.has_ns_param():
            return f"ret W ({value_text}, {self.ns})"
        return f"ret W {value_text}"

    def has_ns_param(self):
        return any(t == "ns" for _, t in self.params)

    def loop_next(self):
        return "loop_ " + " ".join(self.loop + ["it'"])

    def do_for(self, s, rest, K):
        if s.orelse or self.loop is not None:
            raise Fail(f"{self.prefix}: for/else or nested loop")
        for n in ast.walk(ast.Module(body=s.body, type_ignores=[])):
            if isinstance(n, (ast.For, ast.While)):
                raise Fail(f"{self.prefix}: nested loop")
        it = s.iter
        binds = []
        lbody = [x for x in s.body if not is_skippable(x)]
        keyloop = None
        if isinstance(it, ast.Attribute) and isinstance(it.value, ast.Name) and it.value.id == "self" and self.in_class \
                and self.fields.get(it.attr, (None, None))[1] == "dict:qtoken" and isinstance(s.target, ast.Name) and lbody:
            # `for k in self.d: v = self.d[k]; ..` is `for k, v in self.d.items(): ..` (the fields of self are never
            # written: init_fields)
            f0 = lbody[0]
            if isinstance(f0, ast.Assign) and len(f0.targets) == 1 and isinstance(f0.targets[0], ast.Name) \
                    and isinstance(f0.value, ast.Subscript) and ast.dump(f0.value.value) == ast.dump(it) \
                    and isinstance(f0.value.slice, ast.Name) and f0.value.slice.id == s.target.id \
                    and f0.targets[0].id != s.target.id:
                keyloop = (s.target.id, f0.targets[0].id)
                lbody = lbody[1:]
                if keyloop[0] in assigned_names(lbody) or keyloop[1] in assigned_names(lbody):
                    raise Fail(f"{self.prefix}: the loop body re-assigns {keyloop}")
        if keyloop:
            itv = self.ex(it, binds)
            targets = [(keyloop[0], "str"), (keyloop[1], "qtoken")]
            elt_t = "(str * Query.qtoken)"
        elif isinstance(it, ast.Call) and isinstance(it.func, ast.Attribute) and it.func.attr == "items" and not it.args \
                and not it.keywords:
            itv = self.ex(it.func.value, binds)
            if itv.ty != "dict:qtoken":
                raise Fail(f"{self.prefix}: .items() of a {itv.ty}")
            if not (isinstance(s.target, ast.Tuple) and len(s.target.elts) == 2
                    and all(isinstance(x, ast.Name) for x in s.target.elts)):
                raise Fail("target of a loop over .items()")
            targets = [(s.target.elts[0].id, "str"), (s.target.elts[1].id, "qtoken")]
            elt_t = "(str * Query.qtoken)"
        else:
            itv = self.ex(it, binds)
            if itv.ty not in ELT or not isinstance(s.target, ast.Name):
                raise Fail(f"{self.prefix}: loop over a {itv.ty}")
            targets = [(s.target.id, ELT[itv.ty])]
            elt_t = gt(ELT[itv.ty])
        if binds:
            raise Fail(f"{self.prefix}: the iterated expression can raise")
        tnames = [n for n, _ in targets]
        if len(set(tnames)) != len(tnames):
            raise Fail("loop targets")
        after = used_names(rest)
        body_assigned = assigned_names(lbody)
        for n in tnames:
            if n in self.types or n == self.ns or n == self.ds:
                raise Fail(f"loop variable {n} shadows a variable")
            if n in after:
                raise Fail(f"loop variable {n} is read after the loop")
        for n in body_assigned:
            if n not in self.types and n in after and n not in tnames:
                raise Fail(f"{n} is first assigned inside a loop and read after it")
        state = [v for v in self.order if v in body_assigned and v in self.types and v != self.ns]
        if self.ns is not None:
            state.append(self.ns)
        if not state:
            raise Fail(f"{self.prefix}: a loop without state")
        reads = used_names(lbody)
        for n in ast.walk(ast.Module(body=lbody, type_ignores=[])):
            if isinstance(n, ast.Attribute) and isinstance(n.value, ast.Name) and n.value.id == "self" \
                    and n.attr in self.fields:
                reads.add(self.fields[n.attr][0])
        fieldvars = {v: ty for v, ty in self.fields.values()}
        free = [v for v in self.order + sorted(fieldvars) if v in reads and (v in self.types or v in fieldvars)
                and v not in state and v not in tnames]
        free = list(dict.fromkeys(free))
        self.nloop += 1
        name = f"{self.prefix}_loop{self.nloop}"
        saved_types = dict(self.types)
        for n, ty in targets:
            self.types[n] = ty
        self.loop = list(state)
        body = self.block(lbody, self.loop_next)
        self.loop = None
        for v in state:
            if self.types.get(v) != saved_types.get(v):
                raise Fail(f"{self.prefix}: loop variable {v} changes type")
        self.types = saved_types
        alltypes = dict(self.types)
        alltypes.update(fieldvars)
        sty = "(" + " * ".join(gt(alltypes[v]) for v in state) + ")" if len(state) > 1 else gt(alltypes[state[0]])
        interp_param = "(interp_ : Query.qtoken -> Query.namespace -> M W (Query.value * Query.namespace)) " \
            if self.in_class else ""
        fparams = "".join(f"({v} : {gt(alltypes[v])}) " for v in free)
        sparams = " ".join(f"({v} : {gt(alltypes[v])})" for v in state)
        pat = tnames[0] if len(tnames) == 1 else "(" + ", ".join(tnames) + ")"
        self.top.append(
            f"Definition {name} {interp_param}{fparams}:=\n"
            f"  fix loop_ {sparams} (it : list {elt_t}) {{struct it}} : M W {sty} :=\n"
            f"  match it with\n  | [] => ret W {self.state_tuple(state)}\n  | {pat} :: it' =>\n      {body}\n  end.\n")
        call = name + (" gen_interp" if self.in_class else "") + "".join(" " + v for v in free + state) + " " + itv.text
        spat = state[0] if len(state) == 1 else "'" + self.state_tuple(state)
        return f"bindM W ({call}) (fun {spat} =>\n  {self.block(rest, K)})"

    def do_try(self, s, rest, K):
        if s.orelse or s.finalbody or len(s.handlers) != 1 or self.loop is not None:
            raise Fail("unsupported try statement")
        h = s.handlers[0]
        if not (isinstance(h.type, ast.Name) and h.type.id in ("TypeError",) and h.name is None):
            raise Fail("only `except TypeError:` is supported on the interpreter side")
        hb = [x for x in h.body if not is_skippable(x)]
        if len(hb) != 1 or not isinstance(hb[0], ast.Raise):
            raise Fail("an except handler that does not just raise")
        for n in ast.walk(ast.Module(body=s.body, type_ignores=[])):
            if isinstance(n, (ast.Return, ast.Raise, ast.Break, ast.Continue, ast.For, ast.While, ast.Try, ast.If)):
                raise Fail("the try body is not straight-line code")
            if isinstance(n, ast.Attribute) and n.attr == "interpret":
                raise Fail("the try body interprets a token")
            if isinstance(n, ast.Subscript) and isinstance(n.ctx, ast.Store):
                raise Fail("the try body assigns an item")
        names = assigned_names(s.body)
        if not names or (self.ns is not None and self.ns in names):
            raise Fail("the try body assigns nothing, or the namespace")
        ns_before = self.ns
        b = self.block(list(s.body), lambda: f"ret W {self.state_tuple(names)}")
        if self.ns != ns_before:
            raise Fail("the try body creates the namespace")
        hbt = self.block(hb, lambda: None)
        pat = names[0] if len(names) == 1 else "'" + self.state_tuple(names)
        return (f"bindM W (fun w_ => match ({b}) w_ with\n  | (Err {h.type.id}, w_') => ({hbt}) w_'\n  | r_ => r_\n  end) "
                f"(fun {pat} =>\n  {self.block(rest, K)})")

    def body_text(self):
        def fall():
            if self.ret is None and self.ns is not None and self.has_ns_param():
                return f"ret W {self.ns}"
            raise Fail(f"{self.prefix}: a path falls off the end without return")
        return self.block(self.body, fall)

    def result_type(self):
        if self.has_ns_param():
            return "M W Query.namespace" if self.ret is None else f"M W ({gt(self.ret)} * Query.namespace)"
        if self.ret is None:
            raise Fail(f"{self.prefix}: a procedure without a namespace")
        return f"M W {gt(self.ret)}"

    def gparams(self):
        out = []
        for n, t in self.params:
            if t in ("ds", "self"):
                continue
            out.append(f"({n} : {gt('str' if t == 'isotime' else t)})")
        return " ".join(out)


INTERPRET_SIG = [("var", "qtoken"), ("val", "qtoken"), ("namespace", "ns"), ("datastore", "ds")]
QUERY_SIG = [("name", "str"), ("query", "str"), ("starttime", "isotime"), ("endtime", "isotime"), ("datastore", "ds")]


# ---------------------------------------------------------------------------
# kernels


@_guard
def tr_interp_header(repo):
    mod = Module(repo)
    check_functions_import(mod)
    base = mod.classes.get("QToken")
    if base is None or base.bases or base.keywords or base.decorator_list \
            or sorted(m.name for m in base.body if isinstance(m, ast.FunctionDef)) != ["check", "interpret", "parse"]:
        raise Fail("QToken: the base class is no longer three abstract methods")
    rows = []
    for cls in CLASSES:
        fields = init_fields(mod, cls)
        pats = [("name_" if f == "name" else "_") for f in fields]
        if "name" in fields:
            if FIELD_TYPES[cls][fields.index("name")] != "str":
                raise Fail(f"{cls}.name is not a string field")
            rows.append(f"  | {cls} {' '.join(pats)} => Ok name_")
    return (PRELUDE + "(* x.name for a token x whose class is not known statically (the classes whose __init__ stores a `name`) *)\n"
            "Definition gen_attr_name (t_ : Query.qtoken) : res str :=\n  match t_ with\n" + "\n".join(rows)
            + "\n  | _ => Err AttributeError\n  end.\n")


def _ann_kind(a):
    """normal form of a simple annotation, as corpus/c17_registry.json records it; None = not compared"""
    if a is None:
        return ("any", None)
    if isinstance(a, ast.Name):
        if a.id == "Datastore":
            return ("ds", None)
        if a.id == "TNamespace":
            return ("ns", None)
        if a.id in ("list", "str", "int", "float", "dict", "bool"):
            return ("cls", "builtins." + a.id)
    return None


@_guard
def tr_registry_sites(repo):
    """Every registration site of functions.py: the decorator stack (outermost first) must be the same everywhere and
    consist of q2_function(..) and q2_typecheck only; the sites must be the functions of the frozen registry."""
    mod = Module(repo, FUNCTIONS_SRC)
    tree = mod.tree
    # `functions` is created once, written only by q2_function's `functions[fname] = g`
    created = 0
    for n in ast.walk(tree):
        if isinstance(n, ast.Name) and n.id == "functions" and isinstance(n.ctx, (ast.Store, ast.Del)):
            created += 1
        if isinstance(n, ast.Attribute) and isinstance(n.value, ast.Name) and n.value.id == "functions":
            raise Fail("functions.py: a method of the registry dict is used (functions.%s)" % n.attr)
        if isinstance(n, (ast.Global, ast.Nonlocal)):
            raise Fail("functions.py: global / nonlocal statement")
    if created != 1:
        raise Fail("functions.py: `functions` is bound more than once")
    stores = [n for n in ast.walk(tree) if isinstance(n, ast.Subscript) and isinstance(n.value, ast.Name)
              and n.value.id == "functions" and isinstance(n.ctx, (ast.Store, ast.Del))]
    outer = mod.function("q2_function")
    inside = [n for n in ast.walk(outer) if n in stores]
    if len(stores) != 1 or len(inside) != 1:
        raise Fail("functions.py: the registry is written outside q2_function")
    uses = [n for n in ast.walk(tree) if isinstance(n, ast.Name) and n.id == "functions" and isinstance(n.ctx, ast.Load)]
    if len(uses) != 1:
        raise Fail("functions.py: the registry dict is read or passed on somewhere")
    for nm in ("q2_function", "q2_typecheck", "signature", "wraps"):
        stores_nm = sum(1 for n in ast.walk(tree) if isinstance(n, ast.Name) and n.id == nm and isinstance(n.ctx, ast.Store))
        defs_nm = sum(1 for n in ast.walk(tree) if isinstance(n, (ast.FunctionDef, ast.ClassDef)) and n.name == nm)
        args_nm = sum(1 for n in ast.walk(tree) if isinstance(n, ast.arg) and n.arg == nm)
        if stores_nm or args_nm or defs_nm != (1 if nm.startswith("q2_") else 0):
            raise Fail(f"functions.py: {nm} is re-bound")
    # q2_function reads signature(f) of what it is given - the type-check wrapper - and sees the decorated function's
    # own signature only because that wrapper is @wraps(f)
    tc = mod.function("q2_typecheck")
    for fn in (tc, outer):
        gs = [n for n in ast.walk(fn) if isinstance(n, ast.FunctionDef) and n.name == "g"]
        if len(gs) != 1 or [ast.unparse(d) for d in gs[0].decorator_list] != ["wraps(f)"]:
            raise Fail(f"{fn.name}: the wrapper g is no longer decorated with exactly @wraps(f)")
    if tc.decorator_list or outer.decorator_list:
        raise Fail("q2_function / q2_typecheck are themselves decorated")
    imported = {}
    for n in tree.body:
        if isinstance(n, ast.ImportFrom):
            for al in n.names:
                imported[al.asname or al.name] = (n.module, n.level, al.name)
        elif isinstance(n, ast.Import):
            for al in n.names:
                imported[al.asname or al.name.split(".")[0]] = (None, 0, al.name)
    if imported.get("wraps") != ("functools", 0, "wraps") or imported.get("signature") != ("inspect", 0, "signature"):
        raise Fail("functions.py: wraps / signature are not functools.wraps / inspect.signature")
    for nm in ("functions", "q2_function", "q2_typecheck"):
        if nm in imported:
            raise Fail(f"functions.py: {nm} is bound by an import")
    # between `sig = signature(f)` and `def g` q2_function's h may only copy a docstring: nothing there may re-bind
    # f, sig or anything else (k_query.py's q2_function kernel checks the statements around it)
    hs = [x for x in outer.body if isinstance(x, ast.FunctionDef)]
    if len(hs) != 1:
        raise Fail("q2_function: expected exactly one nested function h")
    hb = [x for x in hs[0].body if not is_skippable(x)]
    gi = [i for i, x in enumerate(hb) if isinstance(x, ast.FunctionDef)]
    if len(gi) != 1 or [x.arg for x in hs[0].args.args] != ["f"]:
        raise Fail("q2_function.h: shape changed")
    for x in hb[1:gi[0]]:
        for n in ast.walk(x):
            if isinstance(n, ast.Name) and isinstance(n.ctx, (ast.Store, ast.Del)):
                raise Fail("q2_function.h: a name is bound before the wrapper is defined")
            if isinstance(n, ast.Attribute) and isinstance(n.ctx, (ast.Store, ast.Del)) \
                    and not (isinstance(n.value, ast.Name) and n.value.id == "f" and n.attr == "__doc__"):
                raise Fail("q2_function.h: an attribute other than f.__doc__ is set")
            if isinstance(n, (ast.Call, ast.Subscript, ast.NamedExpr, ast.Lambda, ast.Await, ast.Yield, ast.Return,
                              ast.Raise, ast.Try, ast.With, ast.For, ast.While, ast.Import, ast.ImportFrom,
                              ast.Global, ast.Nonlocal, ast.FunctionDef, ast.ClassDef)):
                raise Fail(f"q2_function.h: unexpected {type(n).__name__} before the wrapper is defined")
    # the sites
    sites = {}
    stacks = set()
    for n in ast.walk(tree):
        if isinstance(n, ast.FunctionDef) and n.decorator_list and n not in tree.body:
            if not (n.name == "g" and [ast.unparse(d) for d in n.decorator_list] == ["wraps(f)"]):
                raise Fail(f"functions.py: a nested decorated function {n.name}")
    for n in tree.body:
        if isinstance(n, (ast.AsyncFunctionDef, ast.ClassDef)) and n.decorator_list:
            raise Fail("functions.py: a decorated class / async function")
        if not isinstance(n, ast.FunctionDef) or not n.decorator_list:
            continue
        stack = []
        for d in n.decorator_list:
            if isinstance(d, ast.Call) and isinstance(d.func, ast.Name) and d.func.id == "q2_function" \
                    and len(d.args) <= 1 and not d.keywords and all(isinstance(a, ast.Name) for a in d.args):
                stack.append("q2_function")
            elif isinstance(d, ast.Name) and d.id == "q2_typecheck":
                stack.append("q2_typecheck")
            else:
                raise Fail(f"functions.py: {n.name} has the decorator {ast.unparse(d)[:40]}")
        if stack.count("q2_function") != 1 or stack[0] != "q2_function":
            # registration happens inside q2_function: anything stacked ABOVE it would not be in the registry
            raise Fail(f"functions.py: {n.name}: q2_function is not the single outermost decorator ({stack})")
        stacks.add(tuple(stack))
        rname = n.name[3:] if n.name[:3] == "q2_" else n.name
        if rname in sites:
            raise Fail(f"functions.py: {rname} is registered twice")
        sites[rname] = n
    # names referring to the decorators elsewhere (aliases) would register behind the translator's back
    for n in ast.walk(tree):
        if isinstance(n, ast.Name) and n.id in ("q2_function", "q2_typecheck") and isinstance(n.ctx, ast.Load):
            ok = any((n is d) or (isinstance(d, ast.Call) and n is d.func) for f in sites.values() for d in f.decorator_list)
            if not ok:
                raise Fail(f"functions.py: {n.id} is used outside a decorator position")
    if len(stacks) != 1:
        raise Fail(f"functions.py: the registration sites do not all have the same decorator stack: {sorted(stacks)}")
    stack = list(stacks.pop())
    # against the frozen registry
    try:
        frozen = json.load(open(REGISTRY))["functions"]
    except Exception as ex:  # noqa: BLE001
        raise Fail(f"cannot read the frozen registry: {type(ex).__name__}")
    if sorted(frozen) != sorted(sites):
        diff = sorted(set(frozen) ^ set(sites))
        raise Fail(f"the registration sites differ from corpus/c17_registry.json: {diff}")
    for rname, fn in sites.items():
        a = fn.args
        if a.kwonlyargs or a.kwarg or a.posonlyargs:
            raise Fail(f"{fn.name}: keyword-only / positional-only / ** parameters")
        params = [(x.arg, "positional", x.annotation) for x in a.args]
        ndef = len(a.defaults)
        has_def = [False] * (len(a.args) - ndef) + [True] * ndef
        if a.vararg:
            params.append((a.vararg.arg, "var_positional", a.vararg.annotation))
            has_def.append(False)
        want = frozen[rname]
        if len(want) != len(params):
            raise Fail(f"{fn.name}: {len(params)} parameters, the frozen registry has {len(want)}")
        for (pn, kind, ann), hd, w in zip(params, has_def, want):
            if w.get("name") != pn or w.get("kind") != kind or bool(w.get("has_default")) != hd:
                raise Fail(f"{fn.name}: parameter {pn} differs from the frozen registry")
            k = _ann_kind(ann)
            if k is not None and w.get("declared") in ("ds", "ns", "cls", "any"):
                if k[0] != w["declared"] or (k[0] == "cls" and w.get("classes") != [k[1]]):
                    raise Fail(f"{fn.name}: annotation of {pn} differs from the frozen registry")
    # the composition, outermost wrapper first; each wrapper ends in `return f(*args, **kwargs)` (k_query.py's
    # q2_function / q2_typecheck kernels check that skeleton and translate the part before it)
    text = "call_positional f args"
    for d in reversed(stack):
        if d == "q2_typecheck":
            text = ("(* q2_typecheck's g( *args ) *)\n  bindM W (lift W (gen_typecheck (b_sig f) args)) (fun _ =>\n  "
                    + text + ")")
        else:
            text = ("(* q2_function's g(datastore, namespace, *args) *)\n  match args with\n"
                    "  | datastore :: namespace :: args =>\n"
                    "  bindM W (lift W (gen_q2_function_g (b_sig f) datastore namespace args)) (fun args =>\n  "
                    + text + ")\n  | _ => fail W TypeError\n  end")
    return (f"(* functions[name]( *args ): the decorator stack {stack} found at all {len(sites)} registration sites *)\n"
            f"Definition gen_call_registered (f : Query.builtin) (args : list Query.arg) : M W Query.value :=\n  {text}.\n")


@_guard
def tr_interpret_methods(repo):
    mod = Module(repo)
    check_functions_import(mod)
    tops, arms = [], []
    for cls in CLASSES:
        names = init_fields(mod, cls)
        fields = {f: ("self_" + f, t) for f, t in zip(names, FIELD_TYPES[cls])}
        m = mod.method(cls, "interpret")
        fn = MFn(mod, m, f"gen_{cls}_interpret", [("self", "self"), ("datastore", "ds"), ("namespace", "ns")], "value",
                 fields=fields, in_class=True)
        for f in names:
            if "self_" + f in assigned_names(m.body):
                raise Fail(f"{cls}.interpret: the local self_{f} collides with a field")
        text = fn.body_text()
        tops.extend(fn.top)
        arms.append(f"  | {cls} {' '.join('self_' + f for f in names)} =>\n  {text}")
    return ("\n".join(tops) + "\n(* t.interpret(datastore, namespace) for a token t: value and the namespace afterwards *)\n"
            "Fixpoint gen_interp (t_ : Query.qtoken) (namespace : Query.namespace) {struct t_}"
            " : M W (Query.value * Query.namespace) :=\n  match t_ with\n" + "\n".join(arms) + "\n  end.\n")


@_guard
def tr_interpret(repo):
    mod = Module(repo)
    check_functions_import(mod)
    fn = MFn(mod, mod.function("interpret"), "gen_interpret", INTERPRET_SIG, None)
    text = fn.body_text()
    return "".join(t + "\n" for t in fn.top) + \
        f"Definition gen_interpret {fn.gparams()} : {fn.result_type()} :=\n  {text}.\n"


@_guard
def tr_query(repo):
    mod = Module(repo)
    check_functions_import(mod)
    f = mod.function("query")
    want = {"name": "str", "query": "str", "starttime": "datetime", "endtime": "datetime", "datastore": "Datastore"}
    for x in f.args.args:
        if x.annotation is None or ast.unparse(x.annotation) != want.get(x.arg):
            raise Fail(f"query: annotation of {x.arg} changed")
    fn = MFn(mod, f, "gen_query", QUERY_SIG, "value")
    text = fn.body_text()
    return "".join(t + "\n" for t in fn.top) + \
        f"Definition gen_query {fn.gparams()} : {fn.result_type()} :=\n  {text}.\n"


@_guard
def tr_interp_footer(repo):
    return "End GenInterp.\n"


KERNELS = {
    "GenQuery": [("interp_header", tr_interp_header), ("registry_sites", tr_registry_sites),
                 ("interpret_methods", tr_interpret_methods), ("interpret_stmt", tr_interpret), ("query_run", tr_query),
                 ("interp_footer", tr_interp_footer)],
}
