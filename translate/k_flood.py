"""Kernels of aw_transform/flood.py: the body of the pairwise loop (flood_step) and the
frame around it (flood).

The loop body mutates e1/e2 and two flags and leaves through `continue` or by falling off
the end, so it is translated in continuation style: every attribute assignment becomes a
shadowing `let e1 := (set_dur e1 v) in`, and wherever control leaves the body the current
values of (e1, e2, warned_safe, warned_unsafe) are returned.  Extensions of the py2v subset
made here (py2v.expr / py2v.bexpr are reused for everything else):
  * `x.timestamp = v` goes through the Event setter, which floors to the millisecond
    (gen_assign_ts, emitted into the generated file);
  * tuple assignment `a, b = v, w`: all right-hand sides are bound first;
  * `not <timedelta local>` is `(x =? 0)`; boolean locals; `x = True/False`;
  * `continue`;
  * `name = timedelta(seconds=<float literal>)` outside the loop, converted with Python's
    own timedelta.
The frame (deepcopy, sorted by a key lambda, the zip(events[:-1], events[1:]) header, the
final comprehension, return) is matched statement by statement against fixed skeletons;
anything else fails closed.
"""
import ast
import os
from datetime import timedelta

from py2v import Fail, bexpr, expr, find_function, is_skippable

STATE = ("e1", "e2", "warned_about_negative_gap_safe", "warned_about_negative_gap_unsafe")


def cond(e, env, types):
    if isinstance(e, ast.BoolOp):
        op = " && " if isinstance(e.op, ast.And) else " || "
        return "(" + op.join(cond(v, env, types) for v in e.values) + ")"
    if isinstance(e, ast.UnaryOp) and isinstance(e.op, ast.Not):
        if isinstance(e.operand, ast.Name) and types.get(e.operand.id) == "Z":
            return f"({env[e.operand.id]} =? 0)"          # `not timedelta`  <=>  timedelta == 0
        return f"(negb {cond(e.operand, env, types)})"
    if isinstance(e, ast.Name):
        if types.get(e.id) != "bool":
            raise Fail(f"{e.id} used as a condition but is not a boolean local")
        return env[e.id]
    return bexpr(e, env)


def assign_attr(target, value_text, env, types):
    if not (isinstance(target, ast.Attribute) and isinstance(target.value, ast.Name)
            and types.get(target.value.id) == "event"):
        raise Fail("unsupported assignment target")
    n = target.value.id
    if target.attr == "duration":
        return f"let {n} := (set_dur {env[n]} {value_text}) in\n  "
    if target.attr == "timestamp":
        return f"let {n} := (gen_assign_ts {env[n]} {value_text}) in\n  "
    raise Fail("assignment to attribute ." + target.attr)


RESERVED = {"end", "at", "as", "fix", "cofix", "fun", "if", "in", "let", "match", "then", "else", "return", "with",
            "forall", "exists", "exists2", "Type", "Set", "Prop", "SProp", "using", "where", "for", "IF"}


def gname(n):
    return n + "_" if n in RESERVED else n


def block(body, env, types, k, kc):
    """k(env, types): Gallina text for falling off the end of this block;
    kc(env, types): text for `continue` (= leaving the loop body)."""
    if not body:
        return k(env, types)
    s, rest = body[0], body[1:]
    if is_skippable(s):
        return block(rest, env, types, k, kc)
    if isinstance(s, ast.Continue):
        return kc(env, types)
    if isinstance(s, ast.Assign) and len(s.targets) == 1:
        t = s.targets[0]
        if isinstance(t, ast.Name):
            if t.id in ("e1", "e2", "pulsetime"):
                raise Fail(f"rebinding {t.id}")
            env2, types2 = dict(env), dict(types)
            g = gname(t.id)
            env2[t.id] = g
            if isinstance(s.value, ast.Constant) and isinstance(s.value.value, bool):
                types2[t.id] = "bool"
                v = "true" if s.value.value else "false"
            else:
                if types.get(t.id) == "bool":
                    raise Fail("boolean local assigned a non-literal")
                types2[t.id] = "Z"
                v = expr(s.value, env)
            return f"let {g} := {v} in\n  " + block(rest, env2, types2, k, kc)
        if isinstance(t, ast.Attribute):
            return assign_attr(t, expr(s.value, env), env, types) + block(rest, env, types, k, kc)
        if isinstance(t, ast.Tuple) and isinstance(s.value, ast.Tuple) and len(t.elts) == len(s.value.elts):
            # Python evaluates the whole right-hand side, then assigns left to right
            out = ""
            tmps = []
            for i, v in enumerate(s.value.elts):
                tmp = f"rhs{i}_{s.lineno}"
                tmps.append(tmp)
                out += f"let {tmp} := {expr(v, env)} in\n  "
            for tgt, tmp in zip(t.elts, tmps):
                out += assign_attr(tgt, tmp, env, types)
            return out + block(rest, env, types, k, kc)
        raise Fail("unsupported assignment target")
    if isinstance(s, ast.If):
        def after(env2, types2):
            return block(rest, env2, types2, k, kc)
        return (f"if {cond(s.test, env, types)}\n  then {block(s.body, env, types, after, kc)}\n"
                f"  else {block(s.orelse, env, types, after, kc)}")
    raise Fail("unsupported statement " + type(s).__name__)


def leave(env, types):
    for n in STATE[2:]:
        if types.get(n) != "bool":
            raise Fail(f"{n} is no longer a boolean flag")
    return "((%s, %s), (%s, %s))" % tuple(env[n] for n in STATE)


def dump(node):
    return ast.dump(node, annotate_fields=False)


def expect(node, source, what):
    want = dump(ast.parse(source).body[0])
    if dump(node) != want:
        raise Fail(f"frame changed: {what}")


def parts(repo):
    tree = ast.parse(open(os.path.join(repo, "aw_transform/flood.py")).read())
    fn = find_function(tree, "flood")
    a = fn.args
    if [x.arg for x in a.args] != ["events", "pulsetime"] or a.vararg or a.kwarg or a.kwonlyargs or len(a.defaults) != 1:
        raise Fail("signature changed")
    body = [s for s in fn.body if not is_skippable(s)]
    if len(body) != 8:
        raise Fail(f"frame changed: {len(body)} statements")
    pre_copy, pre_sort, thres, flag1, flag2, loop, post, ret = body
    expect(pre_copy, "events = deepcopy(events)", "deepcopy")
    # sorted(events, key=lambda e: <key>)
    if not (isinstance(pre_sort, ast.Assign) and dump(pre_sort.targets[0]) == dump(ast.parse("events").body[0].value).replace("Load", "Store")
            and isinstance(pre_sort.value, ast.Call) and dump(pre_sort.value.func) == dump(ast.parse("sorted").body[0].value)
            and len(pre_sort.value.args) == 1 and dump(pre_sort.value.args[0]) == dump(ast.parse("events").body[0].value)
            and len(pre_sort.value.keywords) == 1 and pre_sort.value.keywords[0].arg == "key"
            and isinstance(pre_sort.value.keywords[0].value, ast.Lambda)):
        raise Fail("frame changed: sorted")
    lam = pre_sort.value.keywords[0].value
    if len(lam.args.args) != 1 or lam.args.defaults or lam.args.vararg or lam.args.kwarg:
        raise Fail("frame changed: sort key")
    v = lam.args.args[0].arg
    sort_key = f"(fun {v} => {expr(lam.body, {v: v})})"
    # negative_gap_trim_thres = timedelta(seconds=<literal>)
    if not (isinstance(thres, ast.Assign) and isinstance(thres.targets[0], ast.Name)
            and isinstance(thres.value, ast.Call) and isinstance(thres.value.func, ast.Name)
            and thres.value.func.id == "timedelta" and not thres.value.args and len(thres.value.keywords) == 1
            and thres.value.keywords[0].arg == "seconds" and isinstance(thres.value.keywords[0].value, ast.Constant)
            and type(thres.value.keywords[0].value.value) in (int, float)):
        raise Fail("frame changed: threshold")
    thres_name = thres.targets[0].id
    thres_us = timedelta(seconds=thres.value.keywords[0].value.value) // timedelta(microseconds=1)
    flags = []
    for f in (flag1, flag2):
        if not (isinstance(f, ast.Assign) and isinstance(f.targets[0], ast.Name) and isinstance(f.value, ast.Constant)
                and isinstance(f.value.value, bool)):
            raise Fail("frame changed: flags")
        flags.append((f.targets[0].id, "true" if f.value.value else "false"))
    if [n for n, _ in flags] != list(STATE[2:]):
        raise Fail("frame changed: flag names")
    if not (isinstance(loop, ast.For) and not loop.orelse
            and dump(loop.target) == dump(ast.parse("for e1, e2 in x: pass").body[0].target)
            and dump(loop.iter) == dump(ast.parse("zip(events[:-1], events[1:])").body[0].value)):
        raise Fail("frame changed: loop header")
    # events = [e for e in events if <cond>]
    if not (isinstance(post, ast.Assign) and isinstance(post.targets[0], ast.Name) and post.targets[0].id == "events"
            and isinstance(post.value, ast.ListComp) and len(post.value.generators) == 1):
        raise Fail("frame changed: final filter")
    g = post.value.generators[0]
    if not (isinstance(g.target, ast.Name) and isinstance(post.value.elt, ast.Name) and post.value.elt.id == g.target.id
            and isinstance(g.iter, ast.Name) and g.iter.id == "events" and len(g.ifs) == 1 and not g.is_async):
        raise Fail("frame changed: final filter")
    keep = f"(fun {g.target.id} => {bexpr(g.ifs[0], {g.target.id: g.target.id})})"
    expect(ret, "return events", "return")

    env = {n: n for n in STATE + ("pulsetime", thres_name)}
    types = {"e1": "event", "e2": "event", STATE[2]: "bool", STATE[3]: "bool", "pulsetime": "Z", thres_name: "Z"}
    step_body = block(loop.body, env, types, leave, leave)
    return dict(sort_key=sort_key, thres_name=thres_name, thres_us=thres_us, flags=flags, keep=keep, step_body=step_body)


PRELUDE = """(* Event.timestamp setter: _timestamp_parse floors to the millisecond *)
Definition gen_assign_ts (e : event) (t : Z) : event := set_ts e (1000 * (t / 1000)).

(* for e1, e2 in zip(events[:-1], events[1:]) over shared mutable objects: the e2 of one
   iteration is the e1 of the next *)
Fixpoint gen_pairwise (step : bool -> bool -> event -> event -> (event * event) * (bool * bool))
    (f1 f2 : bool) (cur : event) (rest : list event) : list event :=
  match rest with
  | [] => [cur]
  | nxt :: rest' =>
      match step f1 f2 cur nxt with
      | ((cur', nxt'), (f1', f2')) => cur' :: gen_pairwise step f1' f2' nxt' rest'
      end
  end.
Definition gen_zip_walk (step : bool -> bool -> event -> event -> (event * event) * (bool * bool))
    (f1 f2 : bool) (events : list event) : list event :=
  match events with
  | [] => []
  | first :: rest => gen_pairwise step f1 f2 first rest
  end.
"""


def tr_flood_step(repo):
    p = parts(repo)
    return (PRELUDE + "\n"
            "Definition gen_flood_step (pulsetime : Z) (%s %s : bool) (e1 e2 : event)\n"
            "  : (event * event) * (bool * bool) :=\n  let %s := %d in\n  %s.\n"
            % (STATE[2], STATE[3], p["thres_name"], p["thres_us"], p["step_body"]))


def tr_flood(repo):
    p = parts(repo)
    return ("Definition gen_flood (events : list event) (pulsetime : Z) : list event :=\n"
            "  let events := events in\n"                                   # deepcopy
            f"  let events := sort_by {p['sort_key']} events in\n"
            f"  let events := gen_zip_walk (gen_flood_step pulsetime) {p['flags'][0][1]} {p['flags'][1][1]} events in\n"
            f"  let events := filter {p['keep']} events in\n"
            "  events.\n")


KERNELS = {
    "GenFlood": [("flood_step", tr_flood_step), ("flood", tr_flood)],
}
