"""Tie B for the query language (C17, C11): aw_query/query2.py re-translated into Gallina on every run
(coq/Gen/GenQuery.v), proved equal to the hand-written model Model/Query.v in coq/Bridge/BridgeQuery.v.

A small typed, fail-closed compiler for exactly the Python forms query2.py uses.  Anything else raises
Fail: the kernel is omitted, GenQuery.v / BridgeQuery.v stop compiling and the check reports a broken tie.

Kernels (in file order)
  query_header       Require lines and the primitives the emitted code refers to (see PRELUDE)
  Q*.check           the six scanners                  -> gen_<Class>_check : str -> res (option str * str)
  qtypes             the module-level class list       -> gen_qtypes, gen_check (dispatch of `t.check`)
  _parse_token                                         -> gen_parse_token
  parse_methods      the six `parse` static methods    -> gen_QInteger_parse, gen_QVariable_parse,
                     gen_QString_parse (no loop, no recursion) and the mutual fixpoint gen_parse_tok (dispatch of
                     `t.parse`) / gen_QFunction_parse_while1 / gen_QDict_parse_while1 / gen_QList_parse_while1
  parse              the statement parser              -> gen_parse_stmt
  create_namespace, get_return                         -> gen_create_namespace, gen_get_return
  _verify_variable_is_type, q2_typecheck, q2_function  (aw_query/functions.py) -> gen_verify_variable_is_type,
                     gen_typecheck (the index-driven loop of the wrapper g over sig.parameters and args),
                     gen_q2_function_g (which of datastore / namespace the registered wrapper passes on); the
                     decorator skeletons around them (`sig = signature(f)`, `def g(*args, **kwargs)`,
                     `return f(*args, **kwargs)`, `functions[fname] = g`) are matched as text
  (the interpreter side - the six `interpret` methods, interpret(), query(), the composition of the decorators around
   a built-in - is translated by translate/k_query_interp.py, state-monad mode, appended to the same GenQuery.v)
  query_footer       End of the Section

Idioms (what the translator trusts; each is visible in the generated text)
  values        str = list Z (code points); a one-character literal compared with a character is its code point;
                "" = []; None / a class object in an Optional position = None / Some; True/False = true/false.
  typing        variable types are inferred (flow-sensitive for straight-line code; a variable that is also
                assigned None or an int literal gets the join of its assigned types: None+char = option Z,
                None+token = option str, None+class = option qtype).  An int variable is `nat` when it is only ever
                assigned non-negative literals, len(..) and sums of such (`x + 1` = `S x`), otherwise `Z` (anything
                involving `-` or str.find).  A slice bound of type Z goes through znorm (Python's normalisation of
                negative slice indices); `s[1:-1]` is slice_1_m1.
  raising       every function returns `res`.  s[0] / s[-1] = first_char / last_char (Err IndexError), d[k] on the
                namespace = dict_lookup (Err KeyError), int(s) = py_int max_digits s (Err ValueError; max_digits is
                the interpreter's sys.get_int_max_str_digits(), a Section variable), a method call on an Optional
                class = match .. None => Err AttributeError, `raise QueryParseException(..)` = Err ParseError.
                Sub-expressions that can raise are bound (`bind`) in Python's evaluation order; `a and b` / `a or b`
                whose right operand can raise is compiled to nested conditionals (short circuit preserved).
                `try: B except ValueError: H` = match B with Err ValueError => H | r => r end.
  truthiness    str: non-empty; Optional token: optstr_truthy (None and "" falsy); Optional class: optqtype_truthy.
                An Optional token is read as a str (optstr_get) only after `if not <name>: raise` established it.
  assignment    `let` shadowing.  An `if` whose branches only assign (no raise/return/break, nothing that can raise)
                becomes `let '(x, y) := if c then .. else .. in` over the variables it assigns, in order of their
                first assignment in the function; any other `if` gets the rest of the block copied into both
                branches.  `x.append(e)` = x ++ [e]; `d[k] = v` = dict_set d k v; `s += c` = s ++ [c].
  for loops     `for c in <str or list>` (also `enumerate`) = a structurally recursive Fixpoint gen_<fn>_loop<k> over
                the iterated list; its leading parameters are the variables the body assigns (loop state, order of
                first assignment), then the other variables the body reads; `break` and exhaustion return the
                state variables that are used after the loop; falling off the body recurses.
  while loops   only inside the `parse` methods: a member gen_<Class>_parse_while<k> of the mutual fixpoint.
  fuel          Python recursion (t.parse -> _parse_token -> t.parse ..) and `while` are bounded by explicit fuel:
                gen_parse_tok consumes one unit per call, a while loop one unit per *executed* iteration
                (`if test then match fuel with O => OutOfFuel | S fuel' => body`), everything called from a body
                gets fuel'.  The statement parser starts with 2 * len(line) (ENTRY_FUEL), the budget for which
                Proofs/QueryTotal.v proves the model never reports OutOfFuel.
  order checks  qtypes is emitted as a list (gen_qtypes); dict literals keep their key order.
  parameters    inspect.Parameter objects are the `pkind` classes of the registry reader (harness/c17_impl.py):
                `p.annotation in [list, str, int, float]` = pk_annotation_in p [PList; PStr; PInt; PFloat],
                `p.default == p.empty` = pk_no_default p (every annotation test must be conjoined with it),
                `TNamespace not in (sig.parameters[p].annotation for p in sig.parameters)` = negb (existsb
                pk_is_namespace ..); argument tuples are lists of `arg`; args[i] = list_index (Err IndexError).
"""
import ast
import os

from py2v import Fail, is_skippable

SRC = "aw_query/query2.py"
CLASSES = {"QString": "TString", "QInteger": "TInteger", "QFunction": "TFunction",
           "QDict": "TDict", "QList": "TList", "QVariable": "TVariable"}
EXC = {"QueryParseException": "ParseError", "QueryInterpretException": "InterpretError",
       "QueryFunctionException": "FunctionError"}
FUNCTIONS_SRC = "aw_query/functions.py"
PTYPES = {"list": "PList", "str": "PStr", "int": "PInt", "float": "PFloat"}
RESERVED = {"fuel", "it", "max_digits", "bind", "Ok", "Err", "Some", "None", "S", "O", "length", "strip", "drop",
            "take", "slice", "split", "true", "false", "negb", "str", "nat", "Z", "Query", "qtype", "qtoken", "res",
            "t_", "r_", "fuel'", "is_empty", "is_digit", "is_alpha", "first_char", "last_char", "dict_set", "dict_mem"}
OPT = {"optchar": "char", "optstr": "str", "optqtype": "qtype"}
OPT_OF = {v: k for k, v in OPT.items()}
ELT = {"str": "char", "list:qtype": "qtype", "list:str": "str", "list:qtoken": "qtoken", "list:pkind": "pkind"}
GT = {"str": "str", "char": "Z", "optchar": "option Z", "nat": "nat", "Z": "Z", "bool": "bool",
      "optstr": "option str", "qtype": "qtype", "optqtype": "option qtype", "qtoken": "qtoken",
      "value": "Query.value", "ns": "Query.namespace", "list:qtoken": "list qtoken", "dict:qtoken": "list (str * qtoken)",
      "list:str": "list str", "list:qtype": "list qtype", "pkind": "pkind", "list:pkind": "list pkind",
      "arg": "arg", "list:arg": "list arg", "ptype": "ptype", "unit": "unit"}
ENTRY_FUEL = {"parse": "(2 * length line)%nat"}

PRELUDE = """From AwVerif Require Import Model.PyStr Model.Query.
Open Scope Z_scope.

(* primitives of the emitted code (translate/k_query.py, docstring) *)
Definition optchar_eqb (o : option Z) (c : Z) : bool := match o with Some x => x =? c | None => false end.
Definition optchar_neqb (o : option Z) (c : Z) : bool := match o with Some x => negb (x =? c) | None => true end.
Definition optstr_truthy (o : option str) : bool :=
  match o with None => false | Some [] => false | Some _ => true end.
Definition optstr_get (o : option str) : str := match o with Some s => s | None => [] end.
Definition optqtype_truthy (o : option qtype) : bool := match o with Some _ => true | None => false end.
Definition optqtype_is (o : option qtype) (t : qtype) : bool :=
  match o with Some x => qtype_eqb x t | None => false end.
(* Python's normalisation of a slice bound i for a sequence of length n *)
Definition znorm (n : nat) (i : Z) : nat :=
  if i <? 0 then Z.to_nat (Z.max 0 (Z.of_nat n + i)) else Z.to_nat i.
(* str.find with a one-character needle *)
Definition zfind (c : Z) (s : str) : Z := match find_char c s with Some n => Z.of_nat n | None => -1 end.
(* d[k] *)
Definition dict_lookup {V} (d : list (str * V)) (k : str) : res V :=
  match dict_get d k with Some v => Ok v | None => Err KeyError end.
(* QString(..).value *)
Definition qstring_value (t : qtoken) : res str :=
  match t with QString s => Ok s | _ => Err AttributeError end.
(* l[i] for 0 <= i *)
Definition list_index {A} (l : list A) (i : nat) : res A :=
  match nth_error l i with Some x => Ok x | None => Err IndexError end.
(* inspect.Parameter as the registry reader (harness/c17_impl.py) classifies it: PTyped t = annotation t among
   list/str/int/float and no default; PDefault = has a default (its annotation is not recorded: the translator
   insists that every annotation test is conjoined with the default test, so the value chosen here for PDefault
   never matters); every other kind has no default and an annotation outside the four checked types *)
Definition ptype_eqb (a b : ptype) : bool :=
  match a, b with PList, PList | PStr, PStr | PInt, PInt | PFloat, PFloat => true | _, _ => false end.
Definition pk_annotation_in (k : pkind) (l : list ptype) : bool :=
  match k with PTyped t => existsb (ptype_eqb t) l | _ => false end.
(* PNamespace / PDatastore = annotated with TNamespace / Datastore *)
Definition pk_is_namespace (k : pkind) : bool := match k with PNamespace => true | _ => false end.
Definition pk_is_datastore (k : pkind) : bool := match k with PDatastore => true | _ => false end.
Definition pk_no_default (k : pkind) : bool := match k with PDefault => false | _ => true end.
Definition pk_annotation (k : pkind) : res ptype := match k with PTyped t => Ok t | _ => Err OtherError end.

Section Gen.
Variable max_digits : nat.   (* sys.get_int_max_str_digits() *)
"""


class NeedCPS(Exception):
    pass


class NotSimple(Exception):
    pass


def gt(ty):
    if isinstance(ty, tuple):
        return "(" + " * ".join(gt(t) for t in ty[1:]) + ")"
    if ty in GT:
        return GT[ty]
    raise Fail(f"no Gallina type for {ty}")


def strlit(s):
    return "[" + "; ".join(str(ord(c)) for c in s) + "]"


class V:
    def __init__(self, text, ty, lit=None, parts=None, cls=None, pair=None):
        self.text, self.ty, self.lit, self.parts, self.cls, self.pair = text, ty, lit, parts, cls, pair


def join(a, b):
    if a == b:
        return a
    for x, y in ((a, b), (b, a)):
        if x == "none":
            if y in OPT:
                return y
            if y in OPT_OF:
                return OPT_OF[y]
            if y == "strlit":
                return "optstr"
            if y == "value":
                return "value"
        if x == "intlit" and y in ("nat", "Z"):
            return y
        if x == "nat" and y == "Z":
            return "Z"
        if x == "strlit" and y in ("str", "optstr"):
            return y
        if x == "emptylist" and isinstance(y, str) and y.startswith("list:"):
            return y
        if x == "emptydict" and (y == "ns" or (isinstance(y, str) and y.startswith("dict:"))):
            return y
        if x in OPT_OF and OPT_OF[x] == y:
            return y
    return None


class Env:
    def __init__(self, types=None, truthy=None):
        self.types = dict(types or {})
        self.truthy = set(truthy or ())
        self.nobind = False

    def copy(self):
        e = Env(self.types, self.truthy)
        e.nobind = self.nobind
        return e


def coerce(v, to, env=None):
    ty = v.ty
    if isinstance(to, tuple):
        if v.parts is None or len(v.parts) != len(to) - 1:
            raise Fail(f"cannot read {v.text} as a {len(to) - 1}-tuple")
        return "(" + ", ".join(coerce(p, t, env) for p, t in zip(v.parts, to[1:])) + ")"
    if ty == to:
        return v.text
    if ty == "none":
        if to in OPT:
            return "None"
        if to == "value":
            return "VNone"
        if to == "unit":
            return "tt"
    if ty == "intlit":
        if to == "nat" and v.lit >= 0:
            return f"{v.lit}%nat"
        if to == "Z":
            return str(v.lit) if v.lit >= 0 else f"({v.lit})"
        if to == "value":
            return f"(VInt {v.lit})" if v.lit >= 0 else f"(VInt ({v.lit}))"
    if ty == "strlit":
        if to == "str":
            return strlit(v.lit)
        if to == "char" and len(v.lit) == 1:
            return str(ord(v.lit))
        if to == "optstr":
            return f"(Some {strlit(v.lit)})"
        if to == "value":
            return f"(VStr {strlit(v.lit)})"
    if ty == "bool" and to == "value":
        return f"(VBool {v.text})"
    if ty == "nat" and to == "Z":
        return f"(Z.of_nat {v.text})"
    if ty == "emptylist" and isinstance(to, str) and to.startswith("list:"):
        return "[]"
    if ty == "emptydict" and (to == "ns" or (isinstance(to, str) and to.startswith("dict:"))):
        return "[]"
    if to in OPT and ty not in ("none",):
        inner = coerce(v, OPT[to], env)
        return f"(Some {inner})"
    if ty == "optstr" and to == "str" and env is not None and v.text in env.truthy:
        return f"(optstr_get {v.text})"
    raise Fail(f"cannot use a {ty} ({v.text}) as a {to}")


def assigned_names(stmts):
    out = []

    def tgt(t):
        if isinstance(t, ast.Name):
            out.append(t.id)
        elif isinstance(t, (ast.Tuple, ast.List)):
            for x in t.elts:
                tgt(x)
        elif isinstance(t, ast.Subscript) and isinstance(t.value, ast.Name):
            out.append(t.value.id)

    class W(ast.NodeVisitor):
        def visit_Assign(self, n):
            for t in n.targets:
                tgt(t)
            self.generic_visit(n)

        def visit_AugAssign(self, n):
            tgt(n.target)
            self.generic_visit(n)

        def visit_For(self, n):
            tgt(n.target)
            self.generic_visit(n)

        def visit_Call(self, n):
            if isinstance(n.func, ast.Attribute) and n.func.attr == "append" and isinstance(n.func.value, ast.Name):
                out.append(n.func.value.id)
            self.generic_visit(n)

    for s in stmts:
        W().visit(s)
    seen = []
    for x in out:
        if x not in seen:
            seen.append(x)
    return seen


def used_names(stmts):
    out = set()
    for s in stmts:
        for n in ast.walk(s):
            if isinstance(n, ast.Name):
                out.add(n.id)
    return out


def terminates(stmts):
    for s in stmts:
        if isinstance(s, (ast.Return, ast.Raise, ast.Break, ast.Continue)):
            return True
        if isinstance(s, ast.If) and s.orelse and terminates(s.body) and terminates(s.orelse):
            return True
    return False


class _AnnToAssign(ast.NodeTransformer):
    """`x: T = v` inside a function body is `x = v` (the annotation is not evaluated for locals)"""

    def visit_AnnAssign(self, n):
        if isinstance(n.target, ast.Name) and n.value is not None:
            return ast.copy_location(ast.Assign(targets=[n.target], value=n.value), n)
        return n


class Module:
    def __init__(self, repo, path=SRC):
        self.tree = ast.parse(open(os.path.join(repo, path)).read())
        for n in ast.walk(self.tree):
            if isinstance(n, ast.FunctionDef):
                n.body = [_AnnToAssign().visit(x) for x in n.body]
        if path == SRC:
            # nothing at module level may rebind a class, a method or a function behind the translator's back
            for n in self.tree.body:
                ok = isinstance(n, (ast.Import, ast.ImportFrom, ast.ClassDef, ast.FunctionDef)) or is_skippable(n) \
                    or (isinstance(n, ast.Assign) and len(n.targets) == 1 and isinstance(n.targets[0], ast.Name)
                        and n.targets[0].id in ("logger", "qtypes")) \
                    or (isinstance(n, ast.AnnAssign) and isinstance(n.target, ast.Name) and n.target.id == "qtypes")
                if not ok:
                    raise Fail("query2.py: unexpected module-level statement: " + ast.unparse(n)[:60])
            names = [n.name for n in self.tree.body if isinstance(n, (ast.ClassDef, ast.FunctionDef))]
            if len(names) != len(set(names)):
                raise Fail("query2.py: a class or function is defined twice")
            for c in self.tree.body:
                if isinstance(c, ast.ClassDef):
                    ms = [m.name for m in c.body if isinstance(m, ast.FunctionDef)]
                    if len(ms) != len(set(ms)) or c.decorator_list or c.keywords \
                            or any(not (isinstance(m, ast.FunctionDef) or is_skippable(m)) for m in c.body):
                        raise Fail(f"query2.py: class {c.name} has an unexpected shape")
                    if c.name in CLASSES and [ast.unparse(b) for b in c.bases] != ["QToken"]:
                        raise Fail(f"query2.py: bases of {c.name} changed")
        self.classes = {n.name: n for n in self.tree.body if isinstance(n, ast.ClassDef)}
        self.functions = {n.name: n for n in self.tree.body if isinstance(n, ast.FunctionDef)}

    def method(self, cls, name):
        if cls not in self.classes:
            raise Fail(f"class {cls} not found")
        for m in self.classes[cls].body:
            if isinstance(m, ast.FunctionDef) and m.name == name:
                return m
        raise Fail(f"method {cls}.{name} not found")

    def function(self, name):
        if name not in self.functions:
            raise Fail(f"function {name} not found")
        return self.functions[name]

    def qtypes(self):
        for n in self.tree.body:
            t = None
            if isinstance(n, ast.AnnAssign) and isinstance(n.target, ast.Name):
                t, v = n.target.id, n.value
            elif isinstance(n, ast.Assign) and len(n.targets) == 1 and isinstance(n.targets[0], ast.Name):
                t, v = n.targets[0].id, n.value
            if t == "qtypes":
                if not (isinstance(v, ast.List) and all(isinstance(x, ast.Name) for x in v.elts)):
                    raise Fail("qtypes is not a list of class names")
                names = [x.id for x in v.elts]
                for x in names:
                    if x not in CLASSES:
                        raise Fail(f"unknown token class {x} in qtypes")
                return names
        raise Fail("qtypes not found")

    def is_leaf_parse(self, cls):
        fn = self.method(cls, "parse")
        for n in ast.walk(fn):
            if isinstance(n, ast.While):
                return False
            if isinstance(n, ast.Call) and isinstance(n.func, ast.Attribute) and n.func.attr == "parse" \
                    and not (isinstance(n.func.value, ast.Name) and n.func.value.id in CLASSES):
                return False
            if isinstance(n, ast.Call) and isinstance(n.func, ast.Name) and n.func.id in ("parse", "query"):
                return False
        return True


class Fn:
    """translation of one Python function"""

    def __init__(self, mod, fn, prefix, params, ret, fuel=None, group=None, static=True):
        self.mod, self.fn, self.prefix, self.ret, self.fuel, self.group = mod, fn, prefix, ret, fuel, group
        a = fn.args
        if a.vararg or a.kwarg or a.kwonlyargs or a.posonlyargs or a.defaults:
            raise Fail(f"{prefix}: signature changed")
        names = [x.arg for x in a.args]
        if len(names) != len(params):
            raise Fail(f"{prefix}: expected {len(params)} parameters, found {names}")
        deco = [ast.unparse(d) for d in fn.decorator_list]
        if deco != (["staticmethod"] if static else []):
            raise Fail(f"{prefix}: decorators changed ({deco})")
        self.params = list(zip(names, params))
        for n in set(names) | set(assigned_names(fn.body)):
            if n in RESERVED or n.startswith("gen_") or n.startswith("tmp_"):
                raise Fail(f"{prefix}: the name {n} is reserved by the translator")
        self.order = names + [n for n in assigned_names(fn.body) if n not in names]
        self.top = []          # Fixpoints emitted before the definition
        self.nloop = 0
        self.nwhile = 0
        self.ntmp = 0
        self.loop = None       # (break text fn, continue text fn, state names)
        self.body = [s for s in fn.body if not is_skippable(s)]
        self.declared = self.infer()

    # -- type inference for variables that receive None / int literals / empty containers
    def infer(self):
        seen = {}
        flow = Env(dict(self.params))
        flow.nobind = False

        def note(name, ty):
            seen.setdefault(name, [])
            if ty not in seen[name]:
                seen[name].append(ty)

        def declared_now():
            d = {}
            for k, tys in seen.items():
                j = tys[0]
                for t in tys[1:]:
                    j = join(j, t) if j is not None else None
                if j is None:
                    continue
                if j == "intlit":
                    j = "nat"
                if j == "strlit":
                    j = "str"
                if any(t in ("none", "intlit", "strlit", "emptylist", "emptydict") for t in tys) or len(tys) > 1:
                    if j not in ("none", "emptylist", "emptydict"):
                        d[k] = j
            return d

        def tyof(e):
            try:
                saved = (self.ntmp,)
                v = self.ex(e, flow, [])
                self.ntmp = saved[0]
                return v
            except Exception:  # noqa: BLE001 -- inference only; the translation pass is strict
                return None

        def assign(t, v):
            if v is None:
                return
            if isinstance(t, ast.Name):
                note(t.id, v.ty)
                nt = self.declared_tmp.get(t.id, {"intlit": "nat", "strlit": "str"}.get(v.ty, v.ty))
                if nt in ("none", "emptylist", "emptydict"):
                    flow.types.pop(t.id, None)
                else:
                    flow.types[t.id] = nt
            elif isinstance(t, ast.Tuple):
                tys = None
                if v.parts is not None and len(v.parts) == len(t.elts):
                    tys = v.parts
                elif isinstance(v.ty, tuple) and len(v.ty) - 1 == len(t.elts):
                    tys = [V("_", x) for x in v.ty[1:]]
                if tys:
                    for x, y in zip(t.elts, tys):
                        assign(x, y)

        def walk(stmts):
            for s in stmts:
                if isinstance(s, ast.Assign) and len(s.targets) == 1:
                    t = s.targets[0]
                    if isinstance(t, ast.Subscript) and isinstance(t.value, ast.Name):
                        v = tyof(s.value)
                        if v is not None and v.ty == "qtoken":
                            note(t.value.id, "dict:qtoken")
                    else:
                        assign(t, tyof(s.value))
                elif isinstance(s, ast.AugAssign) and isinstance(s.target, ast.Name):
                    if isinstance(s.op, ast.Sub):
                        note(s.target.id, "Z")
                    else:
                        v = tyof(s.value)
                        if v is not None and v.ty in ("intlit", "nat", "Z"):
                            note(s.target.id, v.ty)
                        elif v is not None and v.ty in ("char", "str", "strlit"):
                            note(s.target.id, "str")
                elif isinstance(s, ast.Expr) and isinstance(s.value, ast.Call) \
                        and isinstance(s.value.func, ast.Attribute) and s.value.func.attr == "append" \
                        and isinstance(s.value.func.value, ast.Name) and len(s.value.args) == 1:
                    v = tyof(s.value.args[0])
                    if v is not None and v.ty in ("qtoken", "str"):
                        note(s.value.func.value.id, "list:" + v.ty)
                elif isinstance(s, ast.For):
                    it = s.iter
                    enum = isinstance(it, ast.Call) and isinstance(it.func, ast.Name) and it.func.id == "enumerate"
                    if enum and len(it.args) == 1:
                        it = it.args[0]
                    v = tyof(it)
                    if v is not None and v.ty in ELT:
                        if enum and isinstance(s.target, ast.Tuple) and len(s.target.elts) == 2:
                            assign(s.target.elts[0], V("_", "nat"))
                            assign(s.target.elts[1], V("_", ELT[v.ty]))
                        elif not enum:
                            assign(s.target, V("_", ELT[v.ty]))
                    walk(s.body)
                elif isinstance(s, ast.While):
                    walk(s.body)
                elif isinstance(s, ast.If):
                    walk(s.body)
                    walk(s.orelse)
                elif isinstance(s, ast.Try):
                    walk(s.body)
                    for h in s.handlers:
                        walk(h.body)

        self.declared_tmp = {}
        self.declared = {}
        for _ in range(4):
            flow.types = dict(self.params)
            flow.types.update(self.declared_tmp)
            walk(self.body)
            new = declared_now()
            if new == self.declared_tmp:
                break
            self.declared_tmp = new
            self.declared = new
        return self.declared_tmp

    def tmp(self):
        self.ntmp += 1
        return f"tmp_{self.ntmp}"

    # -- expressions
    def bindv(self, env, binds, rtext, ty, **kw):
        if env.nobind:
            raise NotSimple()
        t = self.tmp()
        binds.append((t, rtext))
        return V(t, ty, **kw)

    def truth(self, v, env):
        if v.ty == "bool":
            return v.text
        if v.ty == "str":
            return f"(negb (is_empty {v.text}))"
        if v.ty == "optstr":
            return f"(optstr_truthy {v.text})"
        if v.ty == "optqtype":
            return f"(optqtype_truthy {v.text})"
        raise Fail(f"truthiness of a {v.ty} ({v.text}) is not supported")

    def as_nat_index(self, v, lenof):
        if v.ty == "intlit" and v.lit >= 0:
            return f"{v.lit}"
        if v.ty == "nat":
            return v.text
        if v.ty == "Z" or v.ty == "intlit":
            return f"(znorm (length {lenof}) {coerce(v, 'Z')})"
        raise Fail(f"slice bound of type {v.ty}")

    def ex(self, e, env, binds):
        if isinstance(e, ast.Name):
            if e.id in env.types:
                return V(e.id, env.types[e.id])
            if e.id in CLASSES:
                return V(CLASSES[e.id], "qtype")
            if e.id == "qtypes":
                return V("gen_qtypes", "list:qtype")
            raise Fail(f"{self.prefix}: unknown name {e.id}")
        if isinstance(e, ast.Constant):
            c = e.value
            if c is None:
                return V("None", "none")
            if c is True or c is False:
                return V("true" if c else "false", "bool")
            if type(c) is int:
                return V(str(c), "intlit", lit=c)
            if type(c) is str:
                return V(strlit(c), "strlit", lit=c)
            raise Fail("unsupported constant")
        if isinstance(e, ast.Tuple) and e.elts and isinstance(e.elts[-1], ast.Starred) \
                and not any(isinstance(x, ast.Starred) for x in e.elts[:-1]):
            # (a, b, *rest): a tuple of call arguments, kept as a list
            heads = [self.ex(x, env, binds) for x in e.elts[:-1]]
            tail = self.ex(e.elts[-1].value, env, binds)
            if tail.ty != "list:arg" or any(h.ty != "arg" for h in heads):
                raise Fail("unsupported starred tuple")
            return V("(" + " :: ".join([h.text for h in heads] + [tail.text]) + ")", "list:arg")
        if isinstance(e, ast.Tuple):
            parts = [self.ex(x, env, binds) for x in e.elts]
            return V(None, ("tuple",) + tuple(p.ty for p in parts), parts=parts)
        if isinstance(e, ast.List) and not e.elts:
            return V("[]", "emptylist")
        if isinstance(e, ast.Dict):
            if not e.keys:
                return V("[]", "emptydict")
            items = []
            for k, v in zip(e.keys, e.values):
                if not (isinstance(k, ast.Constant) and type(k.value) is str):
                    raise Fail("dict literal with a non-literal key")
                items.append(f"({strlit(k.value)}, {coerce(self.ex(v, env, binds), 'value', env)})")
            return V("[" + "; ".join(items) + "]", "ns")
        if isinstance(e, ast.UnaryOp) and isinstance(e.op, ast.Not):
            v = self.ex(e.operand, env, binds)
            if v.ty == "str":
                return V(f"(is_empty {v.text})", "bool")
            return V(f"(negb {self.truth(v, env)})", "bool")
        if isinstance(e, ast.UnaryOp) and isinstance(e.op, ast.USub) and isinstance(e.operand, ast.Constant) \
                and type(e.operand.value) is int:
            return V(str(-e.operand.value), "intlit", lit=-e.operand.value)
        if isinstance(e, ast.BoolOp):
            op = " && " if isinstance(e.op, ast.And) else " || "
            texts = []
            for i, x in enumerate(e.values):
                b = []
                texts.append(self.truth(self.ex(x, env, b), env))
                if b:
                    if i > 0:
                        raise NeedCPS()
                    binds.extend(b)
            return V("(" + op.join(texts) + ")", "bool")
        if isinstance(e, ast.BinOp) and isinstance(e.op, (ast.Add, ast.Sub)):
            a, b = self.ex(e.left, env, binds), self.ex(e.right, env, binds)
            if isinstance(e.op, ast.Sub):
                return V(f"({coerce(a, 'Z')} - {coerce(b, 'Z')})", "Z")
            if a.ty == "intlit" and b.ty == "intlit":
                return V(str(a.lit + b.lit), "intlit", lit=a.lit + b.lit)
            num = ("nat", "Z", "intlit")
            if a.ty in num and b.ty in num:
                if "Z" in (a.ty, b.ty):
                    return V(f"({coerce(a, 'Z')} + {coerce(b, 'Z')})", "Z")
                if b.ty == "intlit" and b.lit == 1:
                    return V(f"(S {a.text})", "nat")
                return V(f"({coerce(a, 'nat')} + {coerce(b, 'nat')})%nat", "nat")
            if a.ty == "strlit" and len(a.lit) == 1 and b.ty == "char":
                return V(f"[{ord(a.lit)}; {b.text}]", "str", pair=(str(ord(a.lit)), b.text))
            if a.ty in ("str", "strlit") and b.ty in ("str", "strlit"):
                return V(f"({coerce(a, 'str')} ++ {coerce(b, 'str')})", "str")
            if a.ty in ("str", "strlit") and b.ty == "char":
                return V(f"({coerce(a, 'str')} ++ [{b.text}])", "str")
            raise Fail(f"unsupported + between {a.ty} and {b.ty}")
        if isinstance(e, ast.Compare):
            if len(e.ops) != 1:
                raise Fail("chained comparison")
            l, r = e.left, e.comparators[0]
            if isinstance(e.ops[0], (ast.In, ast.NotIn)) and isinstance(l, ast.Name) \
                    and l.id in ("TNamespace", "Datastore") and l.id not in env.types \
                    and ast.unparse(r) == "(sig.parameters[p].annotation for p in sig.parameters)" \
                    and env.types.get("sig_parameters") == "list:pkind":
                t = f"(existsb {'pk_is_namespace' if l.id == 'TNamespace' else 'pk_is_datastore'} sig_parameters)"
                return V(f"(negb {t})" if isinstance(e.ops[0], ast.NotIn) else t, "bool")
            if isinstance(l, ast.Attribute) and isinstance(l.value, ast.Name) and env.types.get(l.value.id) == "pkind":
                k = l.value.id
                if l.attr == "annotation" and isinstance(e.ops[0], ast.In) and isinstance(r, ast.List) \
                        and all(isinstance(x, ast.Name) and x.id in PTYPES and x.id not in env.types for x in r.elts):
                    return V(f"(pk_annotation_in {k} [" + "; ".join(PTYPES[x.id] for x in r.elts) + "])", "bool")
                if l.attr == "default" and isinstance(e.ops[0], ast.Eq) and isinstance(r, ast.Attribute) \
                        and r.attr == "empty" and isinstance(r.value, ast.Name) and r.value.id == k:
                    return V(f"(pk_no_default {k})", "bool")
                raise Fail("unsupported test on an inspect.Parameter")
            return self.compare(e.ops[0], self.ex(e.left, env, binds), self.ex(e.comparators[0], env, binds), env)
        if isinstance(e, ast.Subscript):
            return self.subscript(e, env, binds)
        if isinstance(e, ast.Attribute):
            v = self.ex(e.value, env, binds)
            if e.attr == "value" and v.ty == "qtoken" and v.cls == "QString":
                return self.bindv(env, binds, f"qstring_value {v.text}", "str")
            if e.attr == "annotation" and v.ty == "pkind":
                return self.bindv(env, binds, f"pk_annotation {v.text}", "ptype")
            raise Fail(f"unsupported attribute .{e.attr} of a {v.ty}")
        if isinstance(e, ast.Call):
            return self.call(e, env, binds)
        raise Fail(f"{self.prefix}: unsupported expression " + ast.dump(e)[:80])

    def compare(self, op, a, b, env):
        neg = isinstance(op, (ast.NotEq, ast.IsNot))
        if isinstance(op, (ast.Eq, ast.NotEq, ast.Is, ast.IsNot)):
            if isinstance(op, (ast.Is, ast.IsNot)) and "qtype" not in (a.ty, b.ty):
                raise Fail("`is` is supported between classes only")
            chars = ("char", "strlit")
            if a.ty in chars and b.ty in chars and "char" in (a.ty, b.ty):
                t = f"({coerce(a, 'char')} =? {coerce(b, 'char')})"
            elif a.ty == "optchar" and b.ty in chars:
                return V(f"({'optchar_neqb' if neg else 'optchar_eqb'} {a.text} {coerce(b, 'char')})", "bool")
            elif a.ty in ("nat", "intlit") and b.ty in ("nat", "intlit") and "nat" in (a.ty, b.ty):
                t = f"(Nat.eqb {coerce(a, 'nat')} {coerce(b, 'nat')})"
            elif "Z" in (a.ty, b.ty) and a.ty in ("Z", "nat", "intlit") and b.ty in ("Z", "nat", "intlit"):
                t = f"({coerce(a, 'Z')} =? {coerce(b, 'Z')})"
            elif a.ty == "optqtype" and b.ty == "qtype":
                t = f"(optqtype_is {a.text} {b.text})"
            elif a.ty == "qtype" and b.ty == "qtype":
                t = f"(qtype_eqb {a.text} {b.text})"
            else:
                raise Fail(f"unsupported == between {a.ty} and {b.ty}")
            return V(f"(negb {t})" if neg else t, "bool")
        if isinstance(op, (ast.In, ast.NotIn)):
            if b.ty == "ns" and a.ty in ("str", "strlit"):
                t = f"(dict_mem {b.text} {coerce(a, 'str')})"
                return V(f"(negb {t})" if isinstance(op, ast.NotIn) else t, "bool")
            raise Fail(f"unsupported `in` between {a.ty} and {b.ty}")
        nums = ("nat", "Z", "intlit")
        if a.ty in nums and b.ty in nums:
            if isinstance(op, (ast.Gt, ast.GtE)):
                a, b = b, a
            strict = isinstance(op, (ast.Lt, ast.Gt))
            if "Z" in (a.ty, b.ty):
                return V(f"({coerce(a, 'Z')} {'<?' if strict else '<=?'} {coerce(b, 'Z')})", "bool")
            if "nat" in (a.ty, b.ty):
                return V(f"({'Nat.ltb' if strict else 'Nat.leb'} {coerce(a, 'nat')} {coerce(b, 'nat')})", "bool")
        raise Fail(f"unsupported comparison between {a.ty} and {b.ty}")

    def subscript(self, e, env, binds):
        v = self.ex(e.value, env, binds)
        sl = e.slice
        if isinstance(sl, ast.Slice) and v.ty == "list:arg":
            lo = self.ex(sl.lower, env, binds) if sl.lower is not None else None
            if sl.step is None and sl.upper is None and lo is not None and lo.ty == "intlit" and lo.lit >= 0:
                return V(f"(skipn {lo.lit} {v.text})", "list:arg")
            raise Fail("unsupported slice of an argument tuple")
        if isinstance(sl, ast.Slice):
            if sl.step is not None or v.ty != "str":
                raise Fail("unsupported slice")
            lo = self.ex(sl.lower, env, binds) if sl.lower is not None else None
            hi = self.ex(sl.upper, env, binds) if sl.upper is not None else None
            if lo is not None and hi is not None and lo.ty == "intlit" and lo.lit == 1 and hi.ty == "intlit" \
                    and hi.lit == -1:
                return V(f"(slice_1_m1 {v.text})", "str")
            if lo is not None and hi is None:
                return V(f"(drop {self.as_nat_index(lo, v.text)} {v.text})", "str")
            if lo is None and hi is not None:
                return V(f"(take {self.as_nat_index(hi, v.text)} {v.text})", "str")
            if lo is not None and hi is not None:
                return V(f"(slice {self.as_nat_index(lo, v.text)} {self.as_nat_index(hi, v.text)} {v.text})", "str")
            raise Fail("full slice")
        i = self.ex(sl, env, binds)
        if v.ty == "str" and i.ty == "intlit" and i.lit == 0:
            return self.bindv(env, binds, f"first_char {v.text}", "char")
        if v.ty == "str" and i.ty == "intlit" and i.lit == -1:
            return self.bindv(env, binds, f"last_char {v.text}", "char")
        if v.ty == "list:arg" and i.ty in ("nat", "intlit"):
            return self.bindv(env, binds, f"list_index {v.text} {coerce(i, 'nat')}", "arg")
        if v.ty == "ns" and i.ty in ("str", "strlit"):
            return self.bindv(env, binds, f"dict_lookup {v.text} {coerce(i, 'str')}", "value")
        raise Fail(f"unsupported subscript of a {v.ty} by a {i.ty}")

    def dispatch(self, recv, some):
        """method call on a class-valued variable: qtype, or option qtype (None => AttributeError)"""
        if recv.ty == "qtype":
            return some(recv.text)
        if recv.ty == "optqtype":
            return f"match {recv.text} with None => Err AttributeError | Some t_ => {some('t_')} end"
        raise Fail(f"method call on a {recv.ty}")

    def call(self, e, env, binds):
        if e.keywords:
            raise Fail("keyword arguments")
        f = e.func
        if isinstance(f, ast.Name):
            if f.id == "isinstance":
                if len(e.args) == 2 and isinstance(e.args[1], ast.Name) and e.args[1].id == "str" \
                        and self.ex(e.args[0], env, binds).ty == "str":
                    return V("true", "bool")      # the static type of the operand is str
                if len(e.args) == 2:
                    a, b = self.ex(e.args[0], env, binds), self.ex(e.args[1], env, binds)
                    if a.ty == "arg" and b.ty == "ptype":
                        return V(f"(isinstance {a.text} {b.text})", "bool")
                raise Fail("unsupported isinstance test")
            args = [self.ex(a, env, binds) for a in e.args]
            if f.id == "len" and len(args) == 1 and (args[0].ty == "str" or str(args[0].ty).startswith(("list:", "dict:"))):
                return V(f"(length {args[0].text})", "nat")
            if f.id == "int" and len(args) == 1 and args[0].ty == "str":
                return self.bindv(env, binds, f"py_int max_digits {args[0].text}", "Z")
            if f.id == "_parse_token" and len(args) == 2 and args[0].ty == "str" and args[1].ty == "ns":
                return self.bindv(env, binds, f"gen_parse_token {args[0].text} {args[1].text}",
                                  ("tuple", ("tuple", "optqtype", "str"), "str"))
            if f.id == "_verify_variable_is_type" and len(args) == 2 and args[0].ty == "arg" and args[1].ty == "ptype":
                return self.bindv(env, binds, f"gen_verify_variable_is_type {args[0].text} {args[1].text}", "unit")
            if f.id in CLASSES:
                want = {"QInteger": ["Z"], "QVariable": ["str", "value"], "QString": ["str"],
                        "QFunction": ["str", "list:qtoken"], "QDict": ["dict:qtoken"], "QList": ["list:qtoken"]}[f.id]
                if len(args) != len(want):
                    raise Fail(f"constructor {f.id} arity")
                return V(f"({f.id} " + " ".join(coerce(a, w, env) for a, w in zip(args, want)) + ")", "qtoken", cls=f.id)
            raise Fail(f"unsupported call of {f.id}")
        if isinstance(f, ast.Attribute):
            m = f.attr
            if isinstance(f.value, ast.Name) and f.value.id in CLASSES and f.value.id not in env.types:
                cls = f.value.id
                args = [self.ex(a, env, binds) for a in e.args]
                if m == "parse" and len(args) == 2 and self.mod.is_leaf_parse(cls):
                    return self.bindv(env, binds, f"gen_{cls}_parse {coerce(args[0], 'str', env)} {coerce(args[1], 'ns', env)}",
                                      "qtoken", cls=cls)
                raise Fail(f"unsupported static call {cls}.{m}")
            recv = self.ex(f.value, env, binds)
            args = [self.ex(a, env, binds) for a in e.args]
            if recv.ty == "char" and not args and m in ("isdigit", "isalpha"):
                return V(f"({'is_digit' if m == 'isdigit' else 'is_alpha'} {recv.text})", "bool")
            if recv.ty == "str":
                if m == "strip" and not args:
                    return V(f"(strip {recv.text})", "str")
                if m == "find" and len(args) == 1 and args[0].ty == "strlit" and len(args[0].lit) == 1:
                    return V(f"(zfind {ord(args[0].lit)} {recv.text})", "Z")
                if m == "split" and len(args) == 1 and args[0].ty == "strlit" and len(args[0].lit) == 1:
                    return V(f"(split {ord(args[0].lit)} {recv.text})", "list:str")
                if m == "replace" and len(args) == 2 and args[0].pair and args[1].ty == "char" \
                        and args[0].pair[1] == args[1].text:
                    return V(f"(replace2 {args[0].pair[0]} {args[1].text} [{args[1].text}] {recv.text})", "str")
                raise Fail(f"unsupported str method {m}")
            if recv.ty in ("qtype", "optqtype"):
                if m == "check" and len(args) == 1 and args[0].ty == "str":
                    return self.bindv(env, binds, self.dispatch(recv, lambda t: f"gen_check {t} {args[0].text}"),
                                      ("tuple", "optstr", "str"))
                if m == "parse" and len(args) == 2:
                    if not self.fuel:
                        raise Fail(f"{self.prefix}: recursive call outside a fuelled context")
                    a0, a1 = coerce(args[0], "str", env), coerce(args[1], "ns", env)
                    return self.bindv(env, binds, self.dispatch(recv, lambda t: f"gen_parse_tok {self.fuel} {t} {a0} {a1}"),
                                      "qtoken")
            raise Fail(f"unsupported method {m} on a {recv.ty}")
        raise Fail("unsupported call")

    # -- statements
    @staticmethod
    def wrap(binds, body):
        for t, r in reversed(binds):
            body = f"bind ({r}) (fun {t} =>\n  {body})"
        return body

    def cond(self, test, env, kt, kf):
        try:
            binds = []
            c = self.truth(self.ex(test, env, binds), env)
            return self.wrap(binds, f"if {c}\n  then {kt}\n  else {kf}")
        except NeedCPS:
            pass
        if isinstance(test, ast.BoolOp) and isinstance(test.op, ast.And):
            out = kt
            for v in reversed(test.values):
                out = self.cond(v, env, out, kf)
            return out
        if isinstance(test, ast.BoolOp) and isinstance(test.op, ast.Or):
            out = kf
            for v in reversed(test.values):
                out = self.cond(v, env, kt, out)
            return out
        if isinstance(test, ast.UnaryOp) and isinstance(test.op, ast.Not):
            return self.cond(test.operand, env, kf, kt)
        raise Fail("condition too complex")

    def set_var(self, name, v, env):
        """text of the value to bind and the new type"""
        ty = self.declared.get(name)
        if ty is None:
            ty = v.ty
            if ty in ("none", "emptylist", "emptydict"):
                raise Fail(f"{self.prefix}: cannot type the variable {name}")
            if ty == "intlit":
                ty = "nat"
            if ty == "strlit":
                ty = "str"
        if self.loop and name in self.loop[2] and env.types.get(name) != ty:
            raise Fail(f"{self.prefix}: loop variable {name} changes type")
        text = coerce(v, ty, env)
        return text, ty

    def pattern(self, t, ty, env, post):
        """tuple pattern text for a target; fills env; post collects (name, V) re-bindings for coercions"""
        if isinstance(t, ast.Name):
            d = self.declared.get(t.id)
            if d is not None and d != ty:
                post.append((t.id, V(t.id, ty)))
            env.types[t.id] = ty
            env.truthy.discard(t.id)
            return t.id
        if isinstance(t, ast.Tuple) and isinstance(ty, tuple) and len(ty) - 1 == len(t.elts):
            return "(" + ", ".join(self.pattern(x, y, env, post) for x, y in zip(t.elts, ty[1:])) + ")"
        raise Fail("unsupported assignment target")

    def simple_if(self, s):
        def ok(stmts):
            for x in stmts:
                if isinstance(x, ast.Pass):
                    continue
                if isinstance(x, (ast.Assign, ast.AugAssign)):
                    t = x.targets[0] if isinstance(x, ast.Assign) else x.target
                    if isinstance(x, ast.Assign) and len(x.targets) != 1:
                        return False
                    if not isinstance(t, ast.Name):
                        return False
                    continue
                if isinstance(x, ast.If) and ok(x.body) and ok(x.orelse):
                    continue
                return False
            return True
        return ok(s.body) and ok(s.orelse)

    def block(self, stmts, env, K, later):
        """stmts: remaining statements; K(env) -> text for falling off the end; later: names read after this block"""
        if not stmts:
            return K(env)
        s, rest = stmts[0], list(stmts[1:])
        if is_skippable(s) or isinstance(s, ast.Pass):
            return self.block(rest, env, K, later)
        if isinstance(s, ast.Return):
            if self.loop:
                raise Fail(f"{self.prefix}: return inside a loop")
            if s.value is None:
                raise Fail("bare return")
            binds = []
            v = self.ex(s.value, env, binds)
            return self.wrap(binds, f"Ok {coerce(v, self.ret, env)}")
        if isinstance(s, ast.Raise):
            x = s.exc
            if isinstance(x, ast.Call) and isinstance(x.func, ast.Name) and x.func.id in EXC:
                return f"Err {EXC[x.func.id]}"
            raise Fail("unsupported raise")
        if isinstance(s, ast.Break):
            if not self.loop or self.loop[0] is None:
                raise Fail("break outside a for loop")
            return self.loop[0](env)
        if isinstance(s, ast.Continue):
            if not self.loop:
                raise Fail("continue outside a loop")
            return self.loop[1](env)
        if isinstance(s, ast.Assign) and len(s.targets) == 1:
            t = s.targets[0]
            binds = []
            v = self.ex(s.value, env, binds)
            if isinstance(t, ast.Name):
                text, ty = self.set_var(t.id, v, env)
                env = env.copy()
                env.types[t.id] = ty
                env.truthy.discard(t.id)
                if binds and binds[-1][0] == text:
                    binds[-1] = (t.id, binds[-1][1])
                    return self.wrap(binds, self.block(rest, env, K, later))
                return self.wrap(binds, f"let {t.id} := {text} in\n  {self.block(rest, env, K, later)}")
            if isinstance(t, ast.Tuple):
                env = env.copy()
                post = []
                if v.parts is None and binds and binds[-1][0] == v.text:
                    pat = self.pattern(t, v.ty, env, post)
                    binds[-1] = ("'" + pat, binds[-1][1])
                    head = ""
                elif v.parts is not None:
                    pat = self.pattern(t, v.ty, env, post)
                    head = f"let '{pat} := {coerce(v, v.ty, env)} in\n  "
                else:
                    raise Fail("unsupported tuple assignment")
                for name, pv in post:
                    head += f"let {name} := {coerce(pv, self.declared[name], env)} in\n  "
                    env.types[name] = self.declared[name]
                return self.wrap(binds, head + self.block(rest, env, K, later))
            if isinstance(t, ast.Subscript) and isinstance(t.value, ast.Name) and t.value.id in env.types:
                d = t.value.id
                k = self.ex(t.slice, env, binds)
                if str(env.types[d]).startswith("dict:") and k.ty in ("str", "strlit") and v.ty == "qtoken":
                    return self.wrap(binds, f"let {d} := dict_set {d} {coerce(k, 'str')} {v.text} in\n  "
                                     + self.block(rest, env, K, later))
            raise Fail(f"{self.prefix}: unsupported assignment " + ast.dump(t)[:60])
        if isinstance(s, ast.AugAssign) and isinstance(s.target, ast.Name) and isinstance(s.op, (ast.Add, ast.Sub)):
            fake = ast.BinOp(left=ast.Name(id=s.target.id, ctx=ast.Load()), op=s.op, right=s.value)
            return self.block([ast.Assign(targets=[ast.Name(id=s.target.id, ctx=ast.Store())], value=fake)] + rest,
                              env, K, later)
        if isinstance(s, ast.Expr) and isinstance(s.value, ast.Call) and isinstance(s.value.func, ast.Attribute) \
                and s.value.func.attr == "append" and isinstance(s.value.func.value, ast.Name) \
                and len(s.value.args) == 1 and not s.value.keywords:
            name = s.value.func.value.id
            if name not in env.types or not str(env.types[name]).startswith("list:"):
                raise Fail(f"append to {name}, which is not a list")
            binds = []
            v = self.ex(s.value.args[0], env, binds)
            elt = env.types[name][5:]
            return self.wrap(binds, f"let {name} := {name} ++ [{coerce(v, elt, env)}] in\n  "
                             + self.block(rest, env, K, later))
        if isinstance(s, ast.Expr) and isinstance(s.value, ast.Call) and isinstance(s.value.func, ast.Name) \
                and s.value.func.id == "_verify_variable_is_type":
            binds = []
            v = self.ex(s.value, env, binds)
            if not binds or binds[-1][0] != v.text:
                raise Fail("procedure call")
            binds[-1] = ("_", binds[-1][1])
            return self.wrap(binds, self.block(rest, env, K, later))
        if isinstance(s, ast.If):
            return self.do_if(s, rest, env, K, later)
        if isinstance(s, ast.For):
            return self.do_for(s, rest, env, K, later)
        if isinstance(s, ast.While):
            return self.do_while(s, rest, env, K, later)
        if isinstance(s, ast.Try):
            return self.do_try(s, rest, env, K, later)
        raise Fail(f"{self.prefix}: unsupported statement {type(s).__name__}")

    def do_if(self, s, rest, env, K, later):
        if self.simple_if(s) and not env.nobind:
            names = [n for n in self.order if n in assigned_names([s])]
            if names and all(n in env.types for n in names):
                try:
                    e2 = env.copy()
                    e2.nobind = True
                    saved_loop = self.loop
                    tup = names[0] if len(names) == 1 else "(" + ", ".join(names) + ")"

                    def kend(ee):
                        for n in names:
                            if ee.types[n] != env.types[n]:
                                raise NotSimple()
                        return tup
                    binds = []
                    c = self.truth(self.ex(s.test, e2, binds), e2)
                    a = self.block(list(s.body), e2.copy(), kend, later)
                    b = self.block(list(s.orelse), e2.copy(), kend, later)
                    self.loop = saved_loop
                    env2 = env.copy()
                    for n in names:
                        env2.truthy.discard(n)
                    pat = names[0] if len(names) == 1 else "'" + tup
                    return (f"let {pat} :=\n    if {c}\n    then {a}\n    else {b} in\n  "
                            + self.block(rest, env2, K, later))
                except (NotSimple, NeedCPS):
                    pass
        et, ef = env.copy(), env.copy()
        t = s.test
        if isinstance(t, ast.Name):
            et.truthy.add(t.id)
        if isinstance(t, ast.UnaryOp) and isinstance(t.op, ast.Not) and isinstance(t.operand, ast.Name):
            ef.truthy.add(t.operand.id)
        kt = self.block(list(s.body) + ([] if terminates(s.body) else rest), et, K, later)
        kf = self.block(list(s.orelse) + ([] if terminates(s.orelse) else rest), ef, K, later)
        return self.cond(t, env, kt, kf)

    def live_after(self, state, rest, later):
        used = used_names(rest) | set(later)
        return [v for v in state if v in used]

    @staticmethod
    def tuple_of(names):
        if not names:
            return "tt"      # a loop that only raises or passes
        return names[0] if len(names) == 1 else "(" + ", ".join(names) + ")"

    def tuple_type(self, names, env):
        if not names:
            return "unit"
        if len(names) == 1:
            return "(" + gt(env.types[names[0]]) + ")"
        return "(" + " * ".join(gt(env.types[n]) for n in names) + ")"

    def do_for(self, s, rest, env, K, later):
        if s.orelse or self.loop:
            raise Fail(f"{self.prefix}: for/else or nested loop")
        for n in ast.walk(ast.Module(body=s.body, type_ignores=[])):
            if isinstance(n, (ast.For, ast.While)):
                raise Fail(f"{self.prefix}: nested loop")
        it = s.iter
        enum = isinstance(it, ast.Call) and isinstance(it.func, ast.Name) and it.func.id == "enumerate"
        if enum:
            if len(it.args) != 1 or it.keywords:
                raise Fail("enumerate with a start value")
            it = it.args[0]
        binds = []
        itv = self.ex(it, env, binds)
        if itv.ty not in ELT:
            raise Fail(f"{self.prefix}: loop over a {itv.ty}")
        elt = ELT[itv.ty]
        idx = None
        if enum:
            if not (isinstance(s.target, ast.Tuple) and len(s.target.elts) == 2
                    and all(isinstance(x, ast.Name) for x in s.target.elts)):
                raise Fail("enumerate target")
            idx, tname = s.target.elts[0].id, s.target.elts[1].id
            if idx in env.types:
                raise Fail(f"enumerate index {idx} shadows a variable")
        else:
            if not isinstance(s.target, ast.Name):
                raise Fail("loop target")
            tname = s.target.id
        body_assigned = assigned_names(s.body)
        if tname in body_assigned or (idx and idx in body_assigned):
            raise Fail("the loop body assigns the loop variable")
        target_is_state = tname in env.types
        state = [v for v in self.order if (v in body_assigned or (v == tname and target_is_state)) and v in env.types]
        live = self.live_after(state, rest, later)
        reads = used_names(s.body)
        free = [v for v in self.order if v in reads and v in env.types and v not in state and v not in (tname, idx)]
        self.nloop += 1
        name = f"{self.prefix}_loop{self.nloop}"
        benv = env.copy()
        benv.truthy -= set(state)
        head_bind = ""
        if target_is_state:
            want = env.types[tname]
            if want != OPT_OF.get(elt):
                raise Fail(f"loop variable {tname} was a {want} before the loop")
            eltname = tname + "_0"
            head_bind = f"let {tname} := Some {eltname} in\n      "
        else:
            eltname = tname
            benv.types[tname] = elt
        if idx:
            benv.types[idx] = "nat"
        params = ([f"({idx} : nat)"] if idx else []) + [f"({v} : {gt(env.types[v])})" for v in state + free]
        rty = self.tuple_type(live, env)
        live_t = self.tuple_of(live)

        def brk(_e):
            return f"Ok {live_t}"

        def cont(_e):
            args = ([f"(S {idx})"] if idx else []) + state + free + ["it'"]
            return f"{name} " + " ".join(args)
        self.loop = (brk, cont, set(state))
        body = self.block(list(s.body), benv, cont, set(state) | set(free))
        self.loop = None
        self.top.append(
            f"Fixpoint {name} " + " ".join(params) + f" (it : list {gt(elt)}) {{struct it}} : res {rty} :=\n"
            f"  match it with\n  | [] => Ok {live_t}\n  | {eltname} :: it' =>\n      {head_bind}{body}\n  end.\n")
        env2 = env.copy()
        for v in state:
            env2.truthy.discard(v)
            if v not in live:
                del env2.types[v]
        args = (["0%nat"] if idx else []) + state + free + [itv.text]
        pat = "_" if not live else live[0] if len(live) == 1 else "'" + live_t
        return self.wrap(binds, f"bind ({name} " + " ".join(args) + f") (fun {pat} =>\n  "
                         + self.block(rest, env2, K, later) + ")")

    def do_while(self, s, rest, env, K, later):
        if s.orelse or self.loop or self.group is None or not self.fuel:
            raise Fail(f"{self.prefix}: while loop outside the parse methods (or nested)")
        for n in ast.walk(ast.Module(body=s.body, type_ignores=[])):
            if isinstance(n, (ast.For, ast.While, ast.Break, ast.Continue)):
                raise Fail(f"{self.prefix}: nested loop / break / continue in a while loop")
        body_assigned = assigned_names(s.body)
        state = [v for v in self.order if v in body_assigned and v in env.types]
        live = self.live_after(state, rest, later)
        if not live:
            raise Fail(f"{self.prefix}: a loop whose results are never read")
        reads = used_names(s.body) | used_names([s.test])
        free = [v for v in self.order if v in reads and v in env.types and v not in state]
        self.nwhile += 1
        name = f"{self.prefix}_while{self.nwhile}"
        benv = env.copy()
        benv.truthy -= set(state)
        live_t = self.tuple_of(live)
        rty = self.tuple_type(live, env)

        def cont(_e):
            return f"{name} fuel' " + " ".join(state + free)
        saved_fuel = self.fuel
        self.fuel = "fuel'"
        self.loop = (None, cont, set(state))
        body = self.block(list(s.body), benv.copy(), cont, set(state) | set(free))
        self.loop = None
        self.fuel = saved_fuel
        text = self.cond(s.test, benv,
                         f"match fuel with\n  | O => OutOfFuel\n  | S fuel' =>\n  {body}\n  end", f"Ok {live_t}")
        params = " ".join(f"({v} : {gt(env.types[v])})" for v in state + free)
        self.group.append(f"{name} (fuel : nat) {params} {{struct fuel}} : res {rty} :=\n  {text}")
        env2 = env.copy()
        for v in state:
            env2.truthy.discard(v)
            if v not in live:
                del env2.types[v]
        pat = live[0] if len(live) == 1 else "'" + live_t
        return (f"bind ({name} {saved_fuel} " + " ".join(state + free) + f") (fun {pat} =>\n  "
                + self.block(rest, env2, K, later) + ")")

    def do_try(self, s, rest, env, K, later):
        if s.orelse or s.finalbody or len(s.handlers) != 1 or self.loop:
            raise Fail("unsupported try statement")
        h = s.handlers[0]
        if not (isinstance(h.type, ast.Name) and h.type.id == "ValueError" and h.name is None):
            raise Fail("only `except ValueError:` is supported")
        if not terminates(s.body) or not terminates(h.body):
            raise Fail("try/except whose branches fall through")

        def dead(_e):
            raise Fail("try body falls through")
        b = self.block(list(s.body), env.copy(), dead, later)
        hb = self.block(list(h.body), env.copy(), dead, later)
        return f"match {b} with\n  | Err ValueError => {hb}\n  | r_ => r_\n  end"

    # -- whole function
    def body_text(self, env=None):
        env = env or Env(dict(self.params))

        def fall(_e):
            if self.ret == "unit":
                return "Ok tt"
            raise Fail(f"{self.prefix}: a path falls off the end without return")
        return self.block(self.body, env, fall, set())

    def definition(self):
        text = self.body_text()
        params = " ".join(f"({n} : {gt(t)})" for n, t in self.params)
        return "".join(t + "\n" for t in self.top) + \
            f"Definition {self.prefix} {params} : res ({gt(self.ret)}) :=\n  {text}.\n"


# ---------------------------------------------------------------------------
# kernels


def _clean(msg):
    """the message ends up inside a Coq comment of the generated file"""
    return str(msg).replace("(*", "( *").replace("*)", "* )").replace("\n", "\\n")[:600]


def _guard(f):
    def g(repo):
        try:
            return f(repo)
        except Fail as ex:
            raise Fail(_clean(ex))
        except RecursionError as ex:
            raise Fail(_clean(f"RecursionError: {ex}"))
        except Exception as ex:  # noqa: BLE001 -- fail closed, never crash the shared translator run
            raise Fail(_clean(f"{type(ex).__name__}: {ex}"))
    return g


@_guard
def tr_header(repo):
    Module(repo)
    return PRELUDE


def tr_check(cls):
    @_guard
    def tr(repo):
        mod = Module(repo)
        fn = Fn(mod, mod.method(cls, "check"), f"gen_{cls}_check", ["str"], ("tuple", "optstr", "str"))
        return fn.definition()
    return tr


@_guard
def tr_qtypes(repo):
    mod = Module(repo)
    names = mod.qtypes()
    if sorted(names) != sorted(CLASSES):
        raise Fail("qtypes does not list each of the six token classes exactly once")
    rows = "\n".join(f"  | {CLASSES[c]} => gen_{c}_check string" for c in CLASSES)
    return ("Definition gen_qtypes : list qtype := [" + "; ".join(CLASSES[c] for c in names) + "].\n\n"
            "(* t.check(string) for a class t *)\n"
            f"Definition gen_check (t : qtype) (string : str) : res (option str * str) :=\n  match t with\n{rows}\n  end.\n")


@_guard
def tr_parse_token(repo):
    mod = Module(repo)
    f = mod.function("_parse_token")
    if f.returns is None or ast.unparse(f.returns) != "Tuple[Tuple[Any, str], str]":
        raise Fail("_parse_token: return annotation changed")
    fn = Fn(mod, f, "gen_parse_token", ["str", "ns"], ("tuple", ("tuple", "optqtype", "str"), "str"), static=False)
    return fn.definition()


@_guard
def tr_parse_methods(repo):
    mod = Module(repo)
    out = []
    group = []
    rows = []
    for cls in CLASSES:
        m = mod.method(cls, "parse")
        if mod.is_leaf_parse(cls):
            fn = Fn(mod, m, f"gen_{cls}_parse", ["str", "ns"], "qtoken")
            out.append(fn.definition())
            rows.append(f"      | {CLASSES[cls]} => gen_{cls}_parse string namespace")
        else:
            fn = Fn(mod, m, f"gen_{cls}_parse", ["str", "ns"], "qtoken", fuel="fuel'", group=group)
            if [n for n, _ in fn.params] != ["string", "namespace"]:
                raise Fail(f"{cls}.parse: parameter names changed")
            text = fn.body_text()
            out.extend(fn.top)
            rows.append(f"      | {CLASSES[cls]} =>\n      {text}")
    head = ("Fixpoint gen_parse_tok (fuel : nat) (t : qtype) (string : str) (namespace : Query.namespace) {struct fuel}"
            " : res qtoken :=\n  match fuel with\n  | O => OutOfFuel\n  | S fuel' =>\n      match t with\n"
            + "\n".join(rows) + "\n      end\n  end")
    return "\n".join(out) + "\n(* t.parse(string, namespace) for a class t, and the while loops of the parse methods *)\n" \
        + head + "".join("\nwith " + g for g in group) + ".\n"


@_guard
def tr_parse(repo):
    mod = Module(repo)
    fn = Fn(mod, mod.function("parse"), "gen_parse_stmt", ["str", "ns"], ("tuple", "qtoken", "qtoken"),
            fuel="fuel", static=False)
    if [n for n, _ in fn.params] != ["line", "namespace"]:
        raise Fail("parse: parameter names changed")
    text = fn.body_text()
    if fn.top:
        raise Fail("parse: unexpected loop")
    return (f"Definition gen_parse_stmt (line : str) (namespace : Query.namespace) : res (qtoken * qtoken) :=\n"
            f"  let fuel := {ENTRY_FUEL['parse']} in\n  {text}.\n")


@_guard
def tr_create_namespace(repo):
    mod = Module(repo)
    fn = Fn(mod, mod.function("create_namespace"), "gen_create_namespace", [], "ns", static=False)
    return fn.definition()


@_guard
def tr_get_return(repo):
    mod = Module(repo)
    fn = Fn(mod, mod.function("get_return"), "gen_get_return", ["ns"], "value", static=False)
    return fn.definition()


@_guard
def tr_verify_type(repo):
    mod = Module(repo, FUNCTIONS_SRC)
    fn = Fn(mod, mod.function("_verify_variable_is_type"), "gen_verify_variable_is_type", ["arg", "ptype"], "unit",
            static=False)
    return fn.definition()


@_guard
def tr_typecheck(repo):
    """q2_typecheck: `sig = signature(f)`, the wrapper g(*args, **kwargs) whose loop walks sig.parameters with an
    index, and `return f(*args, **kwargs)`.  The loop is re-assembled as a function of (sig.parameters' values, args)
    and sent through the generic translator."""
    mod = Module(repo, FUNCTIONS_SRC)
    outer = mod.function("q2_typecheck")
    body = [x for x in outer.body if not is_skippable(x)]
    if len(body) != 3 or ast.unparse(body[0]) != "sig = signature(f)" or not isinstance(body[1], ast.FunctionDef) \
            or ast.unparse(body[2]) != "return g" or body[1].name != "g":
        raise Fail("q2_typecheck is no longer `sig = signature(f); def g(..); return g`")
    g = body[1]
    a = g.args
    if a.args or a.posonlyargs or a.kwonlyargs or not a.vararg or a.vararg.arg != "args" or not a.kwarg:
        raise Fail("q2_typecheck.g is no longer g(*args, **kwargs)")
    gb = [x for x in g.body if not is_skippable(x)]
    if len(gb) != 2 or not isinstance(gb[0], ast.For) or ast.unparse(gb[1]) != f"return f(*args, **{a.kwarg.arg})":
        raise Fail("q2_typecheck.g is no longer `for ..: ..; return f(*args, **kwargs)`")
    loop = gb[0]
    if ast.unparse(loop.target) != "(i, p)" or ast.unparse(loop.iter) != "enumerate(sig.parameters)" or loop.orelse:
        raise Fail("q2_typecheck: loop header is not `for i, p in enumerate(sig.parameters)`")
    lb = [x for x in loop.body if not is_skippable(x)]
    if not lb or ast.unparse(lb[0]) != "param = sig.parameters[p]":
        raise Fail("q2_typecheck: the loop does not start with `param = sig.parameters[p]`")
    for n in ast.walk(ast.Module(body=lb[1:], type_ignores=[])):
        if isinstance(n, ast.Name) and n.id in ("p", "sig", "f"):
            raise Fail(f"q2_typecheck: the loop body refers to {n.id}")
    # every annotation test must be conjoined with the default test
    guarded = set()
    for n in ast.walk(ast.Module(body=lb[1:], type_ignores=[])):
        if isinstance(n, ast.BoolOp) and isinstance(n.op, ast.And):
            srcs = [ast.unparse(v) for v in n.values]
            if "param.default == param.empty" in srcs:
                guarded.update(id(v) for v in n.values)
    for n in ast.walk(ast.Module(body=lb[1:], type_ignores=[])):
        if isinstance(n, ast.Compare) and isinstance(n.left, ast.Attribute) and n.left.attr == "annotation" \
                and id(n) not in guarded:
            raise Fail("q2_typecheck: an annotation test that is not conjoined with `param.default == param.empty`")
    syn = ast.parse("def gen(sig_parameters, args):\n    for i, param in enumerate(sig_parameters):\n        pass\n"
                    "    return None\n").body[0]
    syn.body[0].body = lb[1:]
    fn = Fn(mod, syn, "gen_typecheck", ["list:pkind", "list:arg"], "unit", static=False)
    return fn.definition()


@_guard
def tr_q2_function(repo):
    """q2_function: the wrapper g(datastore, namespace, *args, **kwargs) registered under the function's name:
    which of datastore / namespace it passes on.  `return f(*args, **kwargs)` becomes `return args`."""
    mod = Module(repo, FUNCTIONS_SRC)
    outer = mod.function("q2_function")
    hs = [x for x in outer.body if isinstance(x, ast.FunctionDef)]
    if len(hs) != 1 or hs[0].name != "h" or ast.unparse(outer.body[-1]) != "return h":
        raise Fail("q2_function is no longer `def h(f): ..; return h`")
    h = hs[0]
    hb = [x for x in h.body if not is_skippable(x)]
    if not hb or ast.unparse(hb[0]) != "sig = signature(f)":
        raise Fail("q2_function.h does not start with `sig = signature(f)`")
    gs = [x for x in hb if isinstance(x, ast.FunctionDef)]
    if len(gs) != 1 or gs[0].name != "g":
        raise Fail("q2_function.h: wrapper g not found")
    g = gs[0]
    tail = [ast.unparse(x) for x in hb[hb.index(g) + 1:]]
    if tail != ["fname = f.__name__", "if fname[:3] == 'q2_':\n    fname = fname[3:]", "functions[fname] = g", "return g"]:
        raise Fail("q2_function.h: the registration `functions[fname] = g` changed")
    a = g.args
    if [x.arg for x in a.args] != ["datastore", "namespace"] or a.posonlyargs or a.kwonlyargs or a.defaults \
            or not a.vararg or a.vararg.arg != "args" or not a.kwarg:
        raise Fail("q2_function.g is no longer g(datastore, namespace, *args, **kwargs)")
    gb = [x for x in g.body if not is_skippable(x)]
    if not gb or ast.unparse(gb[-1]) != f"return f(*args, **{a.kwarg.arg})":
        raise Fail("q2_function.g does not end with `return f(*args, **kwargs)`")
    for n in ast.walk(ast.Module(body=gb[:-1], type_ignores=[])):
        if isinstance(n, ast.Name) and n.id in ("f", a.kwarg.arg):
            raise Fail(f"q2_function.g refers to {n.id} before the call")
    syn = ast.parse("def gen(sig_parameters, datastore, namespace, args):\n    return args\n").body[0]
    syn.body = gb[:-1] + syn.body
    fn = Fn(mod, syn, "gen_q2_function_g", ["list:pkind", "arg", "arg", "list:arg"], "list:arg", static=False)
    return fn.definition()


@_guard
def tr_footer(repo):
    return "End Gen.\n"


KERNELS = {
    "GenQuery": [("query_header", tr_header)]
    + [(f"{c}.check", tr_check(c)) for c in CLASSES]
    + [("qtypes", tr_qtypes), ("_parse_token", tr_parse_token), ("parse_methods", tr_parse_methods),
       ("parse", tr_parse), ("create_namespace", tr_create_namespace), ("get_return", tr_get_return),
       ("_verify_variable_is_type", tr_verify_type), ("q2_typecheck", tr_typecheck), ("q2_function", tr_q2_function),
       ("query_footer", tr_footer)],
}
