"""Kernels of aw_transform/classify.py (tie B for C19): Rule.__init__, Rule.match,
_pick_deepest_cat, _pick_category, _categorize_one, _tag_one.

A small typed, fail-closed translator of exactly the Python forms these functions use.
Every expression is translated together with a type tag; truthiness tests are translated
by type (Optional[List] -> optlist_truthy, Optional[Pattern] -> regex_truthy,
Optional[str] -> optstr_truthy).  The Gallina names it emits (dget, dset, dvalues,
optlist_items, py_isinstance_str, py_regex_search, py_re_compile ...) are the primitives of
coq/Model/ClassifyBase.v; none of the hand-written transform models of Model/Classify.v
is referred to.  Anything else raises Fail, the kernel is omitted and its bridge lemma stops
compiling."""
import ast
import os

from py2v import Fail, find_function

CMP = {ast.LtE: "<=?", ast.Lt: "<?", ast.GtE: ">=?", ast.Gt: ">?"}
KEYLABEL = {"$category": "K_category", "$tags": "K_tags"}
STRLABEL = {"Uncategorized": "S_uncategorized"}
RULE_ATTR = {"select_keys": ("r_select", "optkeys"), "regex": ("r_regex", "optregex"),
             "ignore_case": ("r_icase", "bool")}
SPEC_GET = {("select_keys", None): ("s_select", "optkeys"), ("ignore_case", False): ("s_icase", "bool"),
            ("regex", None): ("s_regex", "optstr")}


def tree_of(repo):
    return ast.parse(open(os.path.join(repo, "aw_transform/classify.py")).read())


def find_method(tree, cls, name):
    for n in tree.body:
        if isinstance(n, ast.ClassDef) and n.name == cls:
            for m in n.body:
                if isinstance(m, ast.FunctionDef) and m.name == name:
                    return m
    raise Fail(f"method {cls}.{name} not found")


def check_sig(fn, names):
    a = fn.args
    if [x.arg for x in a.args] != names or a.vararg or a.kwarg or a.defaults or a.kwonlyargs or a.posonlyargs:
        raise Fail("signature changed")


def const(e):
    return isinstance(e, ast.Constant)


def truthy(e, env):
    text, ty = ex(e, env)
    if ty == "bool":
        return text
    if ty == "optkeys":
        return f"(optlist_truthy {text})"
    if ty == "optregex":
        return f"(regex_truthy {text})"
    if ty == "optstr":
        return f"(optstr_truthy {text})"
    raise Fail(f"truthiness of a {ty} is not supported")


def ex(e, env):
    """-> (Gallina text, type tag)"""
    if isinstance(e, ast.Name):
        if e.id in env:
            return env[e.id]
        raise Fail(f"unknown name {e.id}")
    if const(e) and e.value is True:
        return "true", "bool"
    if const(e) and e.value is False:
        return "false", "bool"
    if isinstance(e, ast.Attribute) and isinstance(e.value, ast.Name) and e.value.id in env:
        base, bty = env[e.value.id]
        if bty == "partial":
            # inside __init__: self.<attr> reads the value assigned earlier in the body
            if "self." + e.attr in env:
                return env["self." + e.attr]
            raise Fail(f"self.{e.attr} read before assignment")
        if bty == "rule" and e.attr in RULE_ATTR:
            f, ty = RULE_ATTR[e.attr]
            return f"({f} {base})", ty
        if bty == "event" and e.attr == "data":
            return f"(c_data {base})", "dict"
        raise Fail(f"unsupported attribute {e.attr} of a {bty}")
    if isinstance(e, ast.IfExp):
        c = truthy(e.test, env)
        (a, ta) = ex(e.body, env)
        if const(e.orelse) and e.orelse.value is None and ta == "optregex":
            (b, tb) = ("None", "optregex")
        else:
            (b, tb) = ex(e.orelse, env)
        if ta != tb:
            raise Fail(f"conditional expression mixes {ta} and {tb}")
        return f"(if {c} then {a} else {b})", ta
    if isinstance(e, ast.Compare) and len(e.ops) == 1 and type(e.ops[0]) in CMP:
        (a, ta), (b, tb) = ex(e.left, env), ex(e.comparators[0], env)
        if ta != "Z" or tb != "Z":
            raise Fail("comparison of non-integers")
        return f"({a} {CMP[type(e.ops[0])]} {b})", "bool"
    if isinstance(e, ast.BoolOp):
        op = " && " if isinstance(e.op, ast.And) else " || "
        return "(" + op.join(truthy(v, env) for v in e.values) + ")", "bool"
    if isinstance(e, ast.UnaryOp) and isinstance(e.op, ast.Not):
        return f"(negb {truthy(e.operand, env)})", "bool"
    if isinstance(e, ast.ListComp) and len(e.generators) == 1 and not e.generators[0].is_async:
        g = e.generators[0]
        it, ity = ex(g.iter, env)
        if isinstance(g.target, ast.Name) and not g.ifs and ity == "optkeys":
            env2 = dict(env)
            env2[g.target.id] = (g.target.id, "key")
            body, bty = ex(e.elt, env2)
            if bty != "optvalue":
                raise Fail("list comprehension over keys must yield values")
            return f"(map (fun {g.target.id} => {body}) (optlist_items {it}))", "optvalues"
        if isinstance(g.target, ast.Tuple) and len(g.target.elts) == 2 and ity.startswith("classes:") \
                and all(isinstance(x, ast.Name) for x in g.target.elts) and len(g.ifs) == 1 \
                and isinstance(e.elt, ast.Name) and e.elt.id == g.target.elts[0].id:
            env2 = dict(env)
            env2[g.target.elts[0].id] = ("(fst cr)", "class")
            env2[g.target.elts[1].id] = ("(snd cr)", "rule")
            cond = truthy(g.ifs[0], env2)
            return f"(map fst (filter (fun cr => {cond}) {it}))", "list:" + ity.split(":")[1]
        raise Fail("unsupported list comprehension")
    if isinstance(e, ast.Call) and not e.keywords:
        f, args = e.func, e.args
        if isinstance(f, ast.Name) and f.id == "len" and len(args) == 1:
            a, ta = ex(args[0], env)
            if ta != "cat":
                raise Fail("len of a non-category")
            return f"(Z.of_nat (length {a}))", "Z"
        if isinstance(f, ast.Name) and f.id == "isinstance" and len(args) == 2 \
                and isinstance(args[1], ast.Name) and args[1].id == "str":
            a, ta = ex(args[0], env)
            if ta != "optvalue":
                raise Fail("isinstance of a non-value")
            return f"(py_isinstance_str {a})", "bool"
        if isinstance(f, ast.Name) and f.id == "list" and len(args) == 1 and isinstance(args[0], ast.Call) \
                and isinstance(args[0].func, ast.Attribute) and args[0].func.attr == "values" and not args[0].args:
            d, td = ex(args[0].func.value, env)
            if td != "dict":
                raise Fail(".values() of a non-dict")
            return f"(map (fun v => Some v) (dvalues {d}))", "optvalues"
        if isinstance(f, ast.Name) and f.id == "_pick_category" and len(args) == 1:
            a, ta = ex(args[0], env)
            if ta != "list:cat":
                raise Fail("_pick_category of a non-category-list")
            return f"(gen_pick_category {a})", "cat"
        if isinstance(f, ast.Name) and f.id == "reduce" and len(args) == 3 and isinstance(args[0], ast.Name) \
                and args[0].id == "_pick_deepest_cat" and isinstance(args[2], ast.List) \
                and all(const(x) and x.value in STRLABEL for x in args[2].elts):
            a, ta = ex(args[1], env)
            if ta != "list:cat":
                raise Fail("reduce over a non-category-list")
            init = "[" + "; ".join(STRLABEL[x.value] for x in args[2].elts) + "]"
            return f"(fold_left gen_pick_deepest_cat {a} {init})", "cat"
        if isinstance(f, ast.Attribute) and f.attr == "get" and len(args) == 2 and const(args[1]):
            d, td = ex(f.value, env)
            if td == "dict" and args[1].value is None:
                k, tk = ex(args[0], env)
                if tk != "key":
                    raise Fail("dict.get with a non-key")
                return f"(dget {k} {d})", "optvalue"
            if td == "spec" and const(args[0]) and (args[0].value, args[1].value) in SPEC_GET \
                    and type(args[1].value) in (bool, type(None)):
                fld, ty = SPEC_GET[(args[0].value, args[1].value)]
                return f"({fld} {d})", ty
            raise Fail("unsupported .get(...)")
        if isinstance(f, ast.Attribute) and f.attr == "search" and len(args) == 1:
            r, tr = ex(f.value, env)
            v, tv = ex(args[0], env)
            if tr != "optregex" or tv != "optvalue":
                raise Fail("unsupported .search(...)")
            return f"(py_regex_search re_search {r} {v})", "bool"
        if isinstance(f, ast.Attribute) and f.attr == "match" and len(args) == 1:
            r, tr = ex(f.value, env)
            v, tv = ex(args[0], env)
            if tr != "rule" or tv != "event":
                raise Fail("unsupported .match(...)")
            return f"(gen_rule_match re_search {r} {v})", "bool"
        if isinstance(f, ast.Attribute) and f.attr == "compile" and isinstance(f.value, ast.Name) \
                and f.value.id == "re" and len(args) == 2:
            p, tp = ex(args[0], env)
            if tp != "optstr":
                raise Fail("re.compile of a non-string")
            return f"(py_re_compile {p} {re_flags(args[1], env)})", "optregex"
    raise Fail("unsupported expression " + ast.dump(e)[:90])


def re_flags(e, env):
    """(re.IGNORECASE if <c> else 0) | re.UNICODE  ->  <c>   (UNICODE is the default for str patterns)"""
    def is_re(x, name):
        return isinstance(x, ast.Attribute) and isinstance(x.value, ast.Name) and x.value.id == "re" and x.attr == name
    if isinstance(e, ast.BinOp) and isinstance(e.op, ast.BitOr) and is_re(e.right, "UNICODE") \
            and isinstance(e.left, ast.IfExp) and is_re(e.left.body, "IGNORECASE") \
            and const(e.left.orelse) and e.left.orelse.value == 0 and type(e.left.orelse.value) is int:
        return truthy(e.left.test, env)
    raise Fail("unsupported regex flags")


def skippable(s):
    return (isinstance(s, ast.Expr) and const(s.value)) or isinstance(s, ast.AnnAssign) and s.value is None


def block(body, env, k):
    """Statements of a bool-returning function; k = Gallina text for falling off the end."""
    if not body:
        return k
    s, rest = body[0], body[1:]
    if skippable(s):
        return block(rest, env, k)
    if isinstance(s, ast.Return):
        if s.value is None:
            raise Fail("bare return")
        text, ty = ex(s.value, env)
        if ty != "bool":
            raise Fail(f"returns a {ty}")
        return text
    if isinstance(s, ast.Assign) and len(s.targets) == 1 and isinstance(s.targets[0], ast.Name):
        v, ty = ex(s.value, env)
        env2 = dict(env)
        env2[s.targets[0].id] = (s.targets[0].id, ty)
        return f"let {s.targets[0].id} := {v} in\n  {block(rest, env2, k)}"
    if isinstance(s, ast.If):
        # both branches assign the same local: a conditional value
        if len(s.body) == 1 and len(s.orelse) == 1 and all(
                isinstance(b, ast.Assign) and len(b.targets) == 1 and isinstance(b.targets[0], ast.Name)
                for b in (s.body[0], s.orelse[0])) and s.body[0].targets[0].id == s.orelse[0].targets[0].id:
            name = s.body[0].targets[0].id
            (a, ta), (b, tb) = ex(s.body[0].value, env), ex(s.orelse[0].value, env)
            if ta != tb:
                raise Fail(f"branches assign {ta} and {tb}")
            env2 = dict(env)
            env2[name] = (name, ta)
            return f"let {name} := if {truthy(s.test, env)} then {a} else {b} in\n  {block(rest, env2, k)}"
        after = block(rest, env, k)
        return f"if {truthy(s.test, env)}\n  then {block(s.body, env, after)}\n  else {block(s.orelse, env, after)}"
    if isinstance(s, ast.For) and not s.orelse and isinstance(s.target, ast.Name) and len(s.body) == 1 \
            and isinstance(s.body[0], ast.If) and not s.body[0].orelse and len(s.body[0].body) == 1 \
            and isinstance(s.body[0].body[0], ast.Return) and const(s.body[0].body[0].value) \
            and s.body[0].body[0].value.value is True:
        # for x in xs: if c: return True      (search loop)
        it, ity = ex(s.iter, env)
        if ity != "optvalues":
            raise Fail("loop over a non-value-list")
        env2 = dict(env)
        env2[s.target.id] = (s.target.id, "optvalue")
        cond = truthy(s.body[0].test, env2)
        return f"if existsb (fun {s.target.id} => {cond}) {it}\n  then true\n  else {block(rest, env, k)}"
    raise Fail("unsupported statement " + type(s).__name__)


# ---------------------------------------------------------------------------
# kernels


def tr_header(repo):
    return "From AwVerif Require Import Model.ClassifyBase.\n"


def tr_rule_init(repo):
    fn = find_method(tree_of(repo), "Rule", "__init__")
    check_sig(fn, ["self", "rules"])
    env = {"rules": ("rules", "spec"), "self": ("self", "partial")}
    fields = {}
    lets = []
    for s in fn.body:
        if skippable(s):
            continue
        if not (isinstance(s, ast.Assign) and len(s.targets) == 1):
            raise Fail("unsupported statement in __init__")
        t = s.targets[0]
        v, ty = ex(s.value, env)
        if isinstance(t, ast.Attribute) and isinstance(t.value, ast.Name) and t.value.id == "self" \
                and t.attr in RULE_ATTR and t.attr not in fields:
            if RULE_ATTR[t.attr][1] != ty:
                raise Fail(f"self.{t.attr} assigned a {ty}")
            name = "self_" + t.attr
            fields[t.attr] = name
            lets.append(f"let {name} := {v} in")
            env = dict(env)
            env["self." + t.attr] = (name, ty)
        elif isinstance(t, ast.Name):
            lets.append(f"let {t.id} := {v} in")
            env = dict(env)
            env[t.id] = (t.id, ty)
        else:
            raise Fail("unsupported assignment in __init__")
    if set(fields) != set(RULE_ATTR):
        raise Fail("__init__ does not assign exactly regex, select_keys, ignore_case")
    return ("Definition gen_rule_init (rules : rulespec) : rule :=\n  " + "\n  ".join(lets) +
            f"\n  mkRule {fields['regex']} {fields['select_keys']} {fields['ignore_case']}.\n")


def tr_rule_match(repo):
    fn = find_method(tree_of(repo), "Rule", "match")
    check_sig(fn, ["self", "e"])
    body = block(fn.body, {"self": ("self", "rule"), "e": ("e", "event")}, "false")
    return ("Definition gen_rule_match (re_search : Z -> bool -> Z -> bool) (self : rule) (e : cevent) : bool :=\n  "
            + body + ".\n")


def tr_pick_deepest_cat(repo):
    fn = find_function(tree_of(repo), "_pick_deepest_cat")
    check_sig(fn, ["t1", "t2"])
    body = [s for s in fn.body if not skippable(s)]
    if len(body) != 1 or not isinstance(body[0], ast.Return):
        raise Fail("body is not a single return")
    text, ty = ex(body[0].value, {"t1": ("t1", "cat"), "t2": ("t2", "cat")})
    if ty != "cat":
        raise Fail("does not return a category")
    return f"Definition gen_pick_deepest_cat (t1 t2 : category) : category :=\n  {text}.\n"


def tr_pick_category(repo):
    fn = find_function(tree_of(repo), "_pick_category")
    check_sig(fn, ["tags"])
    body = [s for s in fn.body if not skippable(s)]
    if len(body) != 1 or not isinstance(body[0], ast.Return):
        raise Fail("body is not a single return")
    text, ty = ex(body[0].value, {"tags": ("tags", "list:cat")})
    if ty != "cat":
        raise Fail("does not return a category")
    return f"Definition gen_pick_category (tags : list category) : category :=\n  {text}.\n"


def tr_annotate_one(fname, gname, cty, want_key):
    def tr(repo):
        fn = find_function(tree_of(repo), fname)
        check_sig(fn, ["e", "classes"])
        body = [s for s in fn.body if not skippable(s)]
        # e.data["<key>"] = <list expr>; return e
        if len(body) != 2 or not isinstance(body[1], ast.Return) or not isinstance(body[1].value, ast.Name) \
                or body[1].value.id != "e":
            raise Fail("body is not `e.data[k] = v; return e`")
        a = body[0]
        if not (isinstance(a, ast.Assign) and len(a.targets) == 1 and isinstance(a.targets[0], ast.Subscript)):
            raise Fail("first statement is not a subscript assignment")
        tgt = a.targets[0]
        env = {"e": ("e", "event"), "classes": ("classes", "classes:" + cty)}
        d, td = ex(tgt.value, env)
        if td != "dict" or d != "(c_data e)" or not const(tgt.slice) or tgt.slice.value not in KEYLABEL:
            raise Fail("assignment is not to e.data[<known key>]")
        v, tv = ex(a.value, env)
        if (cty, tv) not in (("cat", "cat"), ("Z", "list:Z")):
            raise Fail(f"value written is a {tv}")
        cls = "category" if cty == "cat" else "Z"
        return (f"Definition {gname} (re_search : Z -> bool -> Z -> bool) (e : cevent) "
                f"(classes : list ({cls} * rule)) : cevent :=\n"
                f"  set_cdata e (dset {KEYLABEL[tgt.slice.value]} (VList {v}) {d}).\n")
    return tr


KERNELS = {
    "GenClassify": [("classify_header", tr_header),
                    ("Rule.__init__", tr_rule_init),
                    ("Rule.match", tr_rule_match),
                    ("_pick_deepest_cat", tr_pick_deepest_cat),
                    ("_pick_category", tr_pick_category),
                    ("_categorize_one", tr_annotate_one("_categorize_one", "gen_categorize_one", "cat", "$category")),
                    ("_tag_one", tr_annotate_one("_tag_one", "gen_tag_one", "Z", "$tags"))],
}
