"""Tie B for aw_datastore/datastore.py (classes Datastore and Bucket) against Model/Datastore.v (C05, C02, C04).

Every method of the two classes is re-translated on every run into a small state-and-exception monad over
`dstate S` (the vocabulary is emitted at the top of Gen/GenDatastore.v, see VOCAB below), generic in the storage
`step` exactly like the model (same `Section`, same `Context`):

  Datastore.__init__     -> gen_ds_init            `self.bucket_instances = dict()`
  Datastore.buckets      -> gen_ds_buckets
  Datastore.__getitem__  -> gen_ds_getitem         cache test, storage listing, membership, Bucket(...), cache store, KeyError
  Datastore.create_bucket-> gen_ds_create_bucket   argument binding against AbstractStorage.create_bucket, then self[bucket_id]
  Datastore.update_bucket-> gen_ds_update_bucket   **kwargs forwarding (names = the storage's parameter names)
  Datastore.delete_bucket-> gen_ds_delete_bucket   eviction before the storage call
  Bucket.__init__        -> gen_bucket_init        a Bucket stores nothing but ds and bucket_id
  Bucket.<method>        -> gen_b_<method>         which storage method with which arguments in which order
  (constant glue)        -> gen_ds_via / gen_ds_step : dispatch over the constructors of hop / dsop

Values: bucket ids, strings, data dicts, instants are Z labels (Model/StoreBase.v); an Optional[...] parameter is an
`option Z`; a Bucket object is a `handle` (serial, bucket id); the argument of Bucket.insert is a `pyarg`
(Event / list / anything else).  The storage call `storage.m(a1, ..., k=v)` is bound positionally / by keyword against
the parameter list READ FROM aw_datastore/storages/abstract.py and mapped through STORAGE (parameter name -> field of the
model's `op` constructor), so a swap of two arguments changes the emitted term.

Skipped (fail-closed, see _skippable): docstrings, logger calls, assignments of effect-free expressions to locals that
no translated statement reads, `if`s with an effect-free test and only skippable statements inside, `for` loops over a
name with only skippable statements inside, `if <name bound once to the literal False> ...` (dead code), and exactly the
statement `created = created or datetime.now(timezone.utc)`.  Anything else raises Fail."""
import ast
import os

import py2v
from py2v import Fail

DATASTORE = "aw_datastore/datastore.py"
ABSTRACT = "aw_datastore/storages/abstract.py"

# ---------------------------------------------------------------------------
# tables = the dictionary between the code's names and the model's vocabulary

# storage method -> (op constructor, its fields in the model's order; a tuple groups the fields of `mkMeta`)
STORAGE = {
    "create_bucket": ("CreateBucket", ["bucket_id", ("mkMeta", ["type_id", "client", "hostname", "created", "name", "data"])]),
    "update_bucket": ("UpdateBucket", ["bucket_id", "type_id", "client", "hostname", "name", "data"]),
    "delete_bucket": ("DeleteBucket", ["bucket_id"]),
    "buckets": ("Buckets", []),
    "get_metadata": ("GetMetadata", ["bucket_id"]),
    "get_event": ("GetEvent", ["bucket_id", "event_id"]),
    "get_events": ("GetEvents", ["bucket_id", "limit", "starttime", "endtime"]),
    "get_eventcount": ("GetEventCount", ["bucket_id", "starttime", "endtime"]),
    "insert_one": ("InsertOne", ["bucket_id", "event"]),
    "insert_many": ("InsertMany", ["bucket_id", "events"]),
    "delete": ("Delete", ["bucket_id", "event_id"]),
    "replace": ("Replace", ["bucket_id", "event_id", "event"]),
    "replace_last": ("ReplaceLast", ["bucket_id", "event"]),
}
# types of the fields, per storage method where they differ
FIELD_TYPE = {"bucket_id": "Z", "event_id": "Z", "limit": "Z", "starttime": "option Z", "endtime": "option Z",
              "event": "event", "events": "list event"}
FIELD_TYPE_OF = {
    "create_bucket": {"type_id": "Z", "client": "Z", "hostname": "Z", "created": "Z", "name": "option Z", "data": "Z"},
    "update_bucket": {"type_id": "option Z", "client": "option Z", "hostname": "option Z", "name": "option Z",
                      "data": "option Z"},
}
KW_FIELDS = ["type_id", "client", "hostname", "name", "data"]   # fields of the record `ukwargs` of VOCAB

# the public signatures (parameter names are API; their model types)
SIG = {
    ("Datastore", "__getitem__"): [("bucket_id", "Z")],
    ("Datastore", "create_bucket"): [("bucket_id", "Z"), ("type", "Z"), ("client", "Z"), ("hostname", "Z"),
                                     ("created", "Z"), ("name", "option Z"), ("data", "Z")],
    ("Datastore", "update_bucket"): [("bucket_id", "Z")],
    ("Datastore", "delete_bucket"): [("bucket_id", "Z")],
    ("Datastore", "buckets"): [],
    ("Bucket", "metadata"): [],
    ("Bucket", "get"): [("limit", "Z"), ("starttime", "option Z"), ("endtime", "option Z")],
    ("Bucket", "get_by_id"): [("event_id", "Z")],
    ("Bucket", "get_eventcount"): [("starttime", "option Z"), ("endtime", "option Z")],
    ("Bucket", "insert"): [("events", "pyarg")],
    ("Bucket", "delete"): [("event_id", "Z")],
    ("Bucket", "replace_last"): [("event", "event")],
    ("Bucket", "replace"): [("event_id", "Z"), ("event", "event")],
}
GEN_NAME = {("Datastore", "__getitem__"): "gen_ds_getitem", ("Datastore", "buckets"): "gen_ds_buckets"}
ERR = {"KeyError", "ValueError", "IndexError", "AttributeError", "TypeError"}
ALLOWED_EXTRA = {"Datastore": {"__init__", "__repr__"}, "Bucket": {"__init__"}}
# names a Python local may not take: the binders and the vocabulary of the generated text
RESERVED = {"self", "bucket_id", "serial", "step", "S", "M", "py_r", "py_c", "ret", "raise", "mbind", "call",
            "cache_has", "cache_get", "cache_set", "cache_del", "new_bucket", "keys_has", "listed", "None", "Some",
            "ONone", "DOut", "DHandle", "fun", "let", "in", "match", "with", "end", "if", "then", "else", "forall",
            "Type", "Prop", "Set", "as", "at", "fix", "cofix", "return", "using", "where", "exists", "exists2",
            "IF", "mod"}
CREATED_DEFAULT = "created = created or datetime.now(timezone.utc)"

HEADER = """From AwVerif Require Import Model.StoreBase Model.Window Model.Datastore.

(* the argument of Bucket.insert: isinstance(events, Event) / isinstance(events, list) / anything else *)
Inductive pyarg := AEvent (e : event) | AList (es : list event) | AOther.
(* the **kwargs of Datastore.update_bucket: an absent key is None (the default of every storage parameter) *)
Record ukwargs := mkKw { kw_type_id : option Z; kw_client : option Z; kw_hostname : option Z;
                         kw_name : option Z; kw_data : option Z }.
"""

VOCAB = """Section GenDatastore.
  Context {S : Type} (step : S -> op -> S * res out).

  (* computations of the Datastore: state `dstate S`, exceptions `Err` *)
  Definition M (A : Type) : Type := dstate S -> dstate S * res A.
  Definition ret {A} (a : A) : M A := fun d => (d, Ok a).
  Definition raise {A} (k : errclass) : M A := fun d => (d, Err k).
  Definition mbind {A B} (m : M A) (f : A -> M B) : M B :=
    fun d => match m d with
             | (d', Ok a) => f a d'
             | (d', Err k) => (d', Err k)
             | (d', OutOfFuel) => (d', OutOfFuel)
             end.
  (* self.storage_strategy.<method>(...) *)
  Definition call (o : op) : M out :=
    fun d => let '(s', r) := step (ds_store d) o in (with_store d s', r).
  (* k in self.bucket_instances / self.bucket_instances[k] / self.bucket_instances[k] = bucket / del self.bucket_instances[k] *)
  Definition cache_has (k : Z) : M bool :=
    fun d => (d, Ok (match aget k (ds_cache d) with Some _ => true | None => false end)).
  Definition cache_get (k : Z) : M handle :=
    fun d => match aget k (ds_cache d) with Some n => (d, Ok (mkHandle n k)) | None => (d, Err KeyError) end.
  Definition cache_set (k : Z) (h : handle) : M unit :=
    fun d => (mkDs (ds_store d) (aset k (h_serial h) (ds_cache d)) (ds_next d), Ok tt).
  Definition cache_del (k : Z) : M unit :=
    fun d => match aget k (ds_cache d) with
             | Some _ => (mkDs (ds_store d) (adel k (ds_cache d)) (ds_next d), Ok tt)
             | None => (d, Err KeyError)
             end.
  (* Bucket(self, k): the next serial *)
  Definition new_bucket (mk : Z -> handle) : M handle :=
    fun d => (mkDs (ds_store d) (ds_cache d) (ds_next d + 1), Ok (mk (ds_next d))).
  (* k in <the dict a method returned> *)
  Definition keys_has (k : Z) (o : dsout) : M bool :=
    match o with DOut (OBuckets l) => ret (listed k l) | _ => raise OtherError end.
"""

FOOTER = """  (* glue (not read from the source): which method a constructor of hop / dsop stands for *)
  Definition gen_ds_via (h : handle) (o : hop) : M dsout :=
    match o with
    | HMetadata => gen_b_metadata (h_bucket h)
    | HGet limit st en => gen_b_get (h_bucket h) limit st en
    | HGetById i => gen_b_get_by_id (h_bucket h) i
    | HCount st en => gen_b_get_eventcount (h_bucket h) st en
    | HInsert e => gen_b_insert (h_bucket h) (AEvent e)
    | HInsertMany es => gen_b_insert (h_bucket h) (AList es)
    | HDelete i => gen_b_delete (h_bucket h) i
    | HReplaceLast e => gen_b_replace_last (h_bucket h) e
    | HReplace i e => gen_b_replace (h_bucket h) i e
    end.
  Definition gen_ds_step (d : dstate S) (o : dsop) : dstate S * res dsout :=
    match o with
    | DsCreate b m => gen_ds_create_bucket b (m_type m) (m_client m) (m_hostname m) (m_created m) (m_name m) (m_data m) d
    | DsUpdate b ty cl ho na da => gen_ds_update_bucket b (mkKw ty cl ho na da) d
    | DsDelete b => gen_ds_delete_bucket b d
    | DsBuckets => gen_ds_buckets d
    | DsGetItem b => gen_ds_getitem b d
    | DsVia h o => gen_ds_via h o d
    | DsRaw o => mbind (call o) (fun py_r => ret (DOut py_r)) d
    end.
End GenDatastore.
"""


# ---------------------------------------------------------------------------
# reading the sources


def _guard(f):
    def g(repo):
        try:
            return f(repo)
        except Fail:
            raise
        except Exception as ex:  # noqa: BLE001 -- fail closed, never crash the shared translator run
            raise Fail(f"{type(ex).__name__}: {ex}")
    return g


def _cls(repo, path, name):
    tree = ast.parse(open(os.path.join(repo, path)).read())
    for n in tree.body:
        if isinstance(n, ast.ClassDef) and n.name == name:
            return n
    raise Fail(f"class {name} not found in {path}")


def _method(cls, name, decorators=()):
    found = [n for n in cls.body if isinstance(n, ast.FunctionDef) and n.name == name]
    if len(found) != 1:
        raise Fail(f"{cls.name}.{name}: {len(found)} definitions")
    if any(ast.unparse(x) not in decorators for x in found[0].decorator_list):
        raise Fail(f"{cls.name}.{name}: decorated")
    return found[0]


def _storage_params(repo, name):
    """[(parameter name, has a None default)] of AbstractStorage.<name>, without self"""
    fn = _method(_cls(repo, ABSTRACT, "AbstractStorage"), name, ("abstractmethod",))
    a = fn.args
    if a.vararg or a.kwarg or a.kwonlyargs or a.posonlyargs:
        raise Fail(f"AbstractStorage.{name}: unsupported parameter kinds")
    names = [x.arg for x in a.args]
    if not names or names[0] != "self":
        raise Fail(f"AbstractStorage.{name}: no self")
    names = names[1:]
    nd = len(a.defaults)
    out = []
    for i, n in enumerate(names):
        j = i - (len(names) - nd)
        if j >= 0:
            dflt = a.defaults[j]
            if not (isinstance(dflt, ast.Constant) and dflt.value is None):
                raise Fail(f"AbstractStorage.{name}: default of {n} is not None")
            out.append((n, True))
        else:
            out.append((n, False))
    return out


def _fields(meth):
    ctor, fs = STORAGE[meth]
    flat = []
    for f in fs:
        flat.extend(f[1] if isinstance(f, tuple) else [f])
    return ctor, fs, flat


def _ftype(meth, field):
    return FIELD_TYPE_OF.get(meth, {}).get(field) or FIELD_TYPE[field]


# ---------------------------------------------------------------------------
# what may be skipped


def _is_logging(s):
    if not (isinstance(s, ast.Expr) and isinstance(s.value, ast.Call) and isinstance(s.value.func, ast.Attribute)):
        return False
    t = s.value.func.value
    return (isinstance(t, ast.Name) and t.id == "logger") or \
        (isinstance(t, ast.Attribute) and t.attr == "logger" and isinstance(t.value, ast.Name) and t.value.id == "self")


def _is_doc(s):
    return isinstance(s, ast.Expr) and isinstance(s.value, ast.Constant) and isinstance(s.value.value, str)


def _effect_free(e):
    """no call (except sorted / str / len / datetime.now), no walrus, no await/yield"""
    for n in ast.walk(e):
        if isinstance(n, (ast.NamedExpr, ast.Await, ast.Yield, ast.YieldFrom)):
            return False
        if isinstance(n, ast.Call):
            f = n.func
            if isinstance(f, ast.Name) and f.id in ("sorted", "str", "len"):
                continue
            if isinstance(f, ast.Attribute) and f.attr == "now" and isinstance(f.value, ast.Name) \
                    and f.value.id == "datetime":
                continue
            return False
    return True


def _loads(node):
    return {n.id for n in ast.walk(node) if isinstance(n, ast.Name) and isinstance(n.ctx, ast.Load)}


class Skipper:
    """decides which statements of one function body are outside the model"""

    def __init__(self, fn):
        self.fn = fn
        assigned = {}
        for n in ast.walk(fn):
            tgt = None
            if isinstance(n, ast.Assign) and len(n.targets) == 1 and isinstance(n.targets[0], ast.Name):
                tgt = n.targets[0].id
            elif isinstance(n, ast.AnnAssign) and isinstance(n.target, ast.Name) and n.value is not None:
                tgt = n.target.id
            if tgt:
                assigned.setdefault(tgt, []).append(n.value)
        params = {a.arg for a in fn.args.args}
        # names bound exactly once, to the literal False, and not parameters: `if <name> ...` is dead code
        self.false_names = {k for k, vs in assigned.items() if k not in params and len(vs) == 1
                            and isinstance(vs[0], ast.Constant) and vs[0].value is False}
        self.dead = {k for k in assigned if k not in params}
        while True:
            reads = set()
            for s in fn.body:
                reads |= self.reads(s)
            new = self.dead - reads
            if new == self.dead:
                break
            self.dead = new

    def dead_test(self, t):
        if isinstance(t, ast.Name) and t.id in self.false_names:
            return True
        return (isinstance(t, ast.BoolOp) and isinstance(t.op, ast.And) and isinstance(t.values[0], ast.Name)
                and t.values[0].id in self.false_names)

    def skippable(self, s):
        if _is_doc(s) or _is_logging(s) or isinstance(s, ast.Pass):
            return True
        if isinstance(s, ast.Assign) and len(s.targets) == 1 and isinstance(s.targets[0], ast.Name):
            return s.targets[0].id in self.dead and _effect_free(s.value)
        if isinstance(s, ast.AnnAssign) and isinstance(s.target, ast.Name):
            return s.target.id in self.dead and (s.value is None or _effect_free(s.value))
        if isinstance(s, ast.If):
            if self.dead_test(s.test):
                return True
            return _effect_free(s.test) and all(self.skippable(x) for x in s.body + s.orelse)
        if isinstance(s, ast.For):
            return (isinstance(s.iter, ast.Name) and isinstance(s.target, ast.Name) and not s.orelse
                    and all(self.skippable(x) for x in s.body))
        return False

    def reads(self, s):
        if self.skippable(s):
            return set()
        if isinstance(s, ast.If):
            r = _loads(s.test)
            for x in s.body + s.orelse:
                r |= self.reads(x)
            return r
        return _loads(s)


# ---------------------------------------------------------------------------
# the translation


class Tr:
    def __init__(self, repo, cls, name):
        self.repo = repo
        self.cls = cls
        self.cname = cls.name
        self.name = name
        self.fn = _method(cls, name)
        self.skip = Skipper(self.fn)
        self.kwargs = None

    def fail(self, msg, node=None):
        where = f" (line {node.lineno})" if node is not None and hasattr(node, "lineno") else ""
        raise Fail(f"{self.cname}.{self.name}: {msg}{where}")

    # -- signature
    def signature(self):
        a = self.fn.args
        if a.vararg or a.kwonlyargs or a.posonlyargs:
            self.fail("unsupported parameter kinds")
        names = [x.arg for x in a.args]
        want = SIG[(self.cname, self.name)]
        if names != ["self"] + [n for n, _ in want]:
            self.fail(f"parameters {names} are not self + {[n for n, _ in want]}")
        env = {n: (n, t) for n, t in want}
        binders = [f"({n} : {t})" for n, t in want]
        if a.kwarg is not None:
            if (self.cname, self.name) != ("Datastore", "update_bucket"):
                self.fail("**kwargs only in update_bucket")
            self.kwargs = a.kwarg.arg
            binders.append(f"({self.kwargs} : ukwargs)")
        elif (self.cname, self.name) == ("Datastore", "update_bucket"):
            self.fail("update_bucket no longer takes **kwargs")
        if self.cname == "Bucket":
            binders.insert(0, "(bucket_id : Z)")     # self.bucket_id
        return env, binders

    # -- pure expressions -> (text, type)
    def pure(self, e, env):
        if isinstance(e, ast.Constant) and e.value is None:
            return "None", "none"
        if isinstance(e, ast.Name):
            if e.id in env:
                return env[e.id]
            self.fail(f"unknown name {e.id}", e)
        if self.cname == "Bucket" and isinstance(e, ast.Attribute) and e.attr == "bucket_id" \
                and isinstance(e.value, ast.Name) and e.value.id == "self":
            return "bucket_id", "Z"
        # <instant>.isoformat(): the time codec is the identity in the store models
        if isinstance(e, ast.Call) and isinstance(e.func, ast.Attribute) and e.func.attr == "isoformat" \
                and not e.args and not e.keywords and isinstance(e.func.value, ast.Name):
            t, ty = self.pure(e.func.value, env)
            if ty != "Z":
                self.fail("isoformat() of something that is not an instant", e)
            return t, ty
        self.fail("unsupported expression " + ast.unparse(e)[:60], e)

    # -- computations -> (text : M <type>, type)   or None when e is not one
    def storage_target(self, f):
        """self.storage_strategy (Datastore) / self.ds.storage_strategy (Bucket)"""
        if not (isinstance(f, ast.Attribute) and f.attr == "storage_strategy"):
            return False
        v = f.value
        if self.cname == "Datastore":
            return isinstance(v, ast.Name) and v.id == "self"
        return (isinstance(v, ast.Attribute) and v.attr == "ds" and isinstance(v.value, ast.Name)
                and v.value.id == "self")

    def cache_ref(self, e):
        return (self.cname == "Datastore" and isinstance(e, ast.Attribute) and e.attr == "bucket_instances"
                and isinstance(e.value, ast.Name) and e.value.id == "self")

    def storage_call(self, c, env):
        meth = c.func.attr
        if meth not in STORAGE:
            self.fail(f"unknown storage method {meth}", c)
        ctor, fs, flat = _fields(meth)
        params = _storage_params(self.repo, meth)
        if sorted(n for n, _ in params) != sorted(flat):
            self.fail(f"AbstractStorage.{meth} has parameters {[n for n, _ in params]}, the model's {ctor} has {flat}")
        bound = {}
        if len(c.args) > len(params):
            self.fail(f"too many arguments for {meth}", c)
        for a, (p, _) in zip(c.args, params):
            if isinstance(a, ast.Starred):
                self.fail("*args", c)
            bound[p] = self.pure(a, env)
        for kw in c.keywords:
            if kw.arg is None:
                if not (self.kwargs and isinstance(kw.value, ast.Name) and kw.value.id == self.kwargs):
                    self.fail("unsupported ** argument", c)
                for p, has_default in params:
                    if p in bound:
                        continue
                    if p not in KW_FIELDS or not has_default:
                        self.fail(f"**{self.kwargs} cannot supply {p}", c)
                    bound[p] = (f"(kw_{p} {self.kwargs})", "option Z")
                continue
            if kw.arg not in [p for p, _ in params]:
                self.fail(f"{meth} has no parameter {kw.arg}", c)
            if kw.arg in bound:
                self.fail(f"{kw.arg} bound twice", c)
            bound[kw.arg] = self.pure(kw.value, env)
        for p, has_default in params:
            if p not in bound:
                if not has_default:
                    self.fail(f"{meth}: parameter {p} is not supplied", c)
                bound[p] = ("None", "none")

        def field(f):
            t, ty = bound[f]
            want = _ftype(meth, f)
            if ty == "none" and want.startswith("option"):
                return "None"
            if ty != want:
                self.fail(f"{meth}: parameter {f} receives a value of type {ty}, the model's {ctor} takes {want}", c)
            return t
        parts = []
        for f in fs:
            if isinstance(f, tuple):
                parts.append("(" + " ".join([f[0]] + [field(x) for x in f[1]]) + ")")
            else:
                parts.append(field(f))
        return "(call (" + " ".join([ctor] + parts) + "))", "out"

    def comp(self, e, env):
        if isinstance(e, ast.Call) and isinstance(e.func, ast.Attribute) and self.storage_target(e.func.value):
            return self.storage_call(e, env)
        # self.<method of Datastore>(): only buckets()
        if self.cname == "Datastore" and isinstance(e, ast.Call) and isinstance(e.func, ast.Attribute) \
                and isinstance(e.func.value, ast.Name) and e.func.value.id == "self":
            if e.func.attr == "buckets" and not e.args and not e.keywords:
                return "gen_ds_buckets", "dsout"
            self.fail(f"call of self.{e.func.attr}(...)", e)
        if isinstance(e, ast.Subscript) and isinstance(e.ctx, ast.Load):
            k = e.slice
            # self[k]
            if self.cname == "Datastore" and isinstance(e.value, ast.Name) and e.value.id == "self":
                t, ty = self.pure(k, env)
                if ty != "Z":
                    self.fail("self[<not a bucket id>]", e)
                return f"(gen_ds_getitem {t})", "dsout"
            # self.bucket_instances[k]
            if self.cache_ref(e.value):
                t, ty = self.pure(k, env)
                if ty != "Z":
                    self.fail("bucket_instances[<not a bucket id>]", e)
                return f"(cache_get {t})", "handle"
        # Bucket(self, k)
        if self.cname == "Datastore" and isinstance(e, ast.Call) and isinstance(e.func, ast.Name) \
                and e.func.id == "Bucket":
            init = _method(_cls(self.repo, DATASTORE, "Bucket"), "__init__")
            ps = [a.arg for a in init.args.args][1:]
            if ps != ["datastore", "bucket_id"]:
                self.fail("Bucket.__init__ parameters changed", e)
            bound = dict(zip(ps, e.args))
            for kw in e.keywords:
                if kw.arg in bound or kw.arg not in ps:
                    self.fail("Bucket(...) arguments", e)
                bound[kw.arg] = kw.value
            if len(e.args) > 2 or set(bound) != set(ps):
                self.fail("Bucket(...) arguments", e)
            if not (isinstance(bound["datastore"], ast.Name) and bound["datastore"].id == "self"):
                self.fail("Bucket(...) is not given this datastore", e)
            t, ty = self.pure(bound["bucket_id"], env)
            if ty != "Z":
                self.fail("Bucket(self, <not a bucket id>)", e)
            return f"(new_bucket (fun serial => gen_bucket_init serial {t}))", "handle:" + t
        return None

    def cond(self, t, env):
        """-> text : M bool"""
        if isinstance(t, ast.Compare) and len(t.ops) == 1 and isinstance(t.ops[0], (ast.In, ast.NotIn)):
            k, ty = self.pure(t.left, env)
            if ty != "Z":
                self.fail("membership test of something that is not a bucket id", t)
            r = t.comparators[0]
            if self.cache_ref(r):
                c = f"(cache_has {k})"
            else:
                cm = self.comp(r, env)
                if cm is None or cm[1] != "dsout":
                    self.fail("membership in something that is not the cache / a listing", t)
                c = f"(mbind {cm[0]} (keys_has {k}))"
            if isinstance(t.ops[0], ast.NotIn):
                c = f"(mbind {c} (fun py_c => ret (negb py_c)))"
            return c
        self.fail("unsupported condition " + ast.unparse(t)[:60], t)

    def returned(self, text, ty):
        if ty == "dsout":
            return text
        if ty == "out":
            return f"(mbind {text} (fun py_r => ret (DOut py_r)))"
        if ty.startswith("handle"):
            return f"(mbind {text} (fun py_r => ret (DHandle py_r)))"
        self.fail("return of a computation of type " + ty)

    def block(self, body, env, after):
        body = list(body)
        while body and self.skip.skippable(body[0]):
            body.pop(0)
        if not body:
            return after
        s, rest = body[0], body[1:]
        if ast.unparse(s) == CREATED_DEFAULT and (self.cname, self.name) == ("Datastore", "create_bucket"):
            return self.block(rest, env, after)
        if isinstance(s, ast.Return):
            if s.value is None or (isinstance(s.value, ast.Constant) and s.value.value is None):
                return "(ret (DOut ONone))"
            cm = self.comp(s.value, env)
            if cm is not None:
                return self.returned(*cm)
            t, ty = self.pure(s.value, env)
            if ty == "out":
                return f"(ret (DOut {t}))"
            if ty.startswith("handle"):
                return f"(ret (DHandle {t}))"
            self.fail("return of a value of type " + ty, s)
        if isinstance(s, ast.Raise):
            if isinstance(s.exc, ast.Name) and s.exc.id in ERR and s.cause is None:
                return f"(raise {s.exc.id})"
            if isinstance(s.exc, ast.Call) and isinstance(s.exc.func, ast.Name) and s.exc.func.id in ERR \
                    and s.cause is None and all(_effect_free(a) for a in s.exc.args) and not s.exc.keywords:
                return f"(raise {s.exc.func.id})"
            self.fail("unsupported raise", s)
        if isinstance(s, ast.Expr):
            cm = self.comp(s.value, env)
            if cm is None:
                self.fail("unsupported expression statement " + ast.unparse(s)[:60], s)
            return f"(mbind {cm[0]} (fun _ =>\n    {self.block(rest, env, after)}))"
        if isinstance(s, (ast.Assign, ast.AnnAssign)):
            if isinstance(s, ast.Assign):
                if len(s.targets) != 1:
                    self.fail("multiple assignment targets", s)
                tgt, val = s.targets[0], s.value
            else:
                tgt, val = s.target, s.value
                if val is None:
                    self.fail("bare annotation of a live name", s)
            if isinstance(tgt, ast.Name):
                if tgt.id in RESERVED or tgt.id == self.kwargs or tgt.id in [n for n, _ in SIG[(self.cname, self.name)]]:
                    self.fail(f"re-binding of {tgt.id}", s)
                cm = self.comp(val, env)
                env2 = dict(env)
                if cm is not None:
                    env2[tgt.id] = (tgt.id, cm[1])
                    return f"(mbind {cm[0]} (fun {tgt.id} =>\n    {self.block(rest, env2, after)}))"
                t, ty = self.pure(val, env)
                if ty == "none":
                    t, ty = "ONone", "out"          # a local that holds None: the value a method returns
                env2[tgt.id] = (tgt.id, ty)
                return f"(let {tgt.id} := {t} in\n    {self.block(rest, env2, after)})"
            # self.bucket_instances[k] = bucket
            if isinstance(tgt, ast.Subscript) and self.cache_ref(tgt.value) and isinstance(s, ast.Assign):
                k, kty = self.pure(tgt.slice, env)
                v, vty = self.pure(val, env)
                if kty != "Z" or not vty.startswith("handle"):
                    self.fail("bucket_instances[k] = v with unexpected types", s)
                # the model's cache maps a bucket id to a serial: the cached Bucket must carry that same id
                if vty != "handle:" + k:
                    self.fail(f"the Bucket stored under {k} was not built for {k}", s)
                return f"(mbind (cache_set {k} {v}) (fun _ =>\n    {self.block(rest, env, after)}))"
            self.fail("unsupported assignment target", s)
        if isinstance(s, ast.Delete):
            if len(s.targets) == 1 and isinstance(s.targets[0], ast.Subscript) and self.cache_ref(s.targets[0].value):
                k, kty = self.pure(s.targets[0].slice, env)
                if kty != "Z":
                    self.fail("del bucket_instances[<not a bucket id>]", s)
                return f"(mbind (cache_del {k}) (fun _ =>\n    {self.block(rest, env, after)}))"
            self.fail("unsupported del", s)
        if isinstance(s, ast.If):
            t = s.test
            # isinstance(x, Event) / isinstance(x, list) on the argument of insert
            if isinstance(t, ast.Call) and isinstance(t.func, ast.Name) and t.func.id == "isinstance" \
                    and len(t.args) == 2 and not t.keywords and isinstance(t.args[0], ast.Name) \
                    and isinstance(t.args[1], ast.Name) and t.args[1].id in ("Event", "list"):
                x = t.args[0].id
                if x not in env or env[x][1] != "pyarg":
                    self.fail(f"isinstance test of {x}", s)
                ctor, ty = ("AEvent", "event") if t.args[1].id == "Event" else ("AList", "list event")
                rest_t = self.block(rest, env, after)
                env2 = dict(env)
                env2[x] = (x, ty)
                rest_in = self.block(rest, env2, after)
                return (f"(match {env[x][0]} with\n    | {ctor} {x} => {self.block(s.body, env2, rest_in)}\n"
                        f"    | _ => {self.block(s.orelse, env, rest_t)}\n    end)")
            # `if x is not None and x.utcoffset() is not None: x = x.astimezone(timezone.utc)` on a window edge of
            # Bucket.get: in this vocabulary an edge is its INSTANT, which the conversion keeps; remembered, because
            # only a UTC reading may be rounded field-wise here (k_window translates the statement with the offset)
            import k_window
            nm = k_window.utc_normalisation(s)
            if nm is not None:
                if not (nm in env and env[nm] == (nm, "option Z")) or nm in getattr(self, "utc_edges", set()):
                    self.fail(f"UTC conversion of {nm}", s)
                k_window.check_timezone_utc(self.repo)
                self.utc_edges = getattr(self, "utc_edges", set()) | {nm}
                return self.block(rest, env, after)
            # `if <optional instant>:` re-binding it: the window rounding of Bucket.get (k_window's translation)
            if isinstance(t, ast.Name) and t.id in env and env[t.id][1] == "option Z" and not s.orelse \
                    and env[t.id][0] == t.id:
                if t.id not in getattr(self, "utc_edges", set()):
                    self.fail(f"{t.id} is rounded on the fields of the caller's reading (no conversion to UTC before "
                              "it): not a function of the instant (sub-millisecond utcoffsets, fold)", s)
                body = [x for x in s.body if not self.skip.skippable(x)]
                txt = k_window.round_block(body, t.id)
                return (f"(let {t.id} := match {t.id} with Some {t.id} => Some ({txt}) | None => None end in\n"
                        f"    {self.block(rest, env, after)})")
            c = self.cond(t, env)
            rest_t = self.block(rest, env, after)
            return (f"(mbind {c} (fun py_c => if py_c\n    then {self.block(s.body, env, rest_t)}\n"
                    f"    else {self.block(s.orelse, env, rest_t)}))")
        self.fail("unsupported statement " + type(s).__name__, s)

    def definition(self):
        env, binders = self.signature()
        gen = GEN_NAME.get((self.cname, self.name)) or \
            ("gen_ds_" if self.cname == "Datastore" else "gen_b_") + self.name
        body = self.block(self.fn.body, env, "(ret (DOut ONone))")
        return f"  Definition {gen} {' '.join(binders)} : M dsout :=\n    {body}.\n"


def _method_kernel(cname, name):
    @_guard
    def tr(repo):
        return Tr(repo, _cls(repo, DATASTORE, cname), name).definition()
    return (f"{cname}.{name}", tr)


@_guard
def tr_header(repo):
    # module level: imports, the logger, the two classes - nothing that could patch them afterwards
    tree = ast.parse(open(os.path.join(repo, DATASTORE)).read())
    for n in tree.body:
        if isinstance(n, (ast.Import, ast.ImportFrom)) or _is_doc(n):
            continue
        if isinstance(n, ast.ClassDef) and n.name in ("Datastore", "Bucket"):
            continue
        if isinstance(n, ast.Assign) and ast.unparse(n) == "logger = logging.getLogger(__name__)":
            continue
        raise Fail("datastore.py: unsupported module-level statement " + ast.unparse(n)[:60])
    for cname in ("Datastore", "Bucket"):
        cls = _cls(repo, DATASTORE, cname)
        if cls.bases or cls.keywords or cls.decorator_list:
            raise Fail(f"class {cname} has bases / decorators")
        known = {m for c, m in SIG if c == cname} | ALLOWED_EXTRA[cname]
        for n in cls.body:
            if isinstance(n, ast.FunctionDef):
                if n.name not in known:
                    raise Fail(f"{cname}.{n.name}: a method the model does not have")
            elif not _is_doc(n):
                raise Fail(f"class {cname}: unsupported class-level statement")
    return HEADER


@_guard
def tr_bucket_init(repo):
    fn = _method(_cls(repo, DATASTORE, "Bucket"), "__init__")
    a = fn.args
    if [x.arg for x in a.args] != ["self", "datastore", "bucket_id"] or a.vararg or a.kwarg or a.defaults:
        raise Fail("Bucket.__init__: parameters changed")
    stored = {}
    for s in fn.body:
        if _is_doc(s) or _is_logging(s):
            continue
        if isinstance(s, ast.Assign) and len(s.targets) == 1 and isinstance(s.targets[0], ast.Attribute) \
                and isinstance(s.targets[0].value, ast.Name) and s.targets[0].value.id == "self":
            attr = s.targets[0].attr
            if attr in stored:
                raise Fail(f"Bucket.__init__: self.{attr} assigned twice")
            stored[attr] = ast.unparse(s.value)
            continue
        raise Fail("Bucket.__init__: unsupported statement " + ast.unparse(s)[:60])
    if stored.pop("logger", 'logger.getChild("Bucket")').replace('"', "'") != "logger.getChild('Bucket')":
        raise Fail("Bucket.__init__: self.logger")
    if stored.get("ds") != "datastore":
        raise Fail("Bucket.__init__: self.ds is not the datastore argument")
    if set(stored) != {"ds", "bucket_id"}:
        raise Fail(f"Bucket.__init__ stores {sorted(stored)}: a handle is no longer a name")
    if stored["bucket_id"] not in ("bucket_id",):
        raise Fail("Bucket.__init__: self.bucket_id is not the bucket_id argument")
    # the fields of a Bucket object besides its datastore: (identity, self.bucket_id)
    return ("Definition gen_bucket_init (serial : Z) (bucket_id : Z) : handle :=\n"
            f"  mkHandle serial {stored['bucket_id']}.\n")


@_guard
def tr_vocab(repo):
    return VOCAB


@_guard
def tr_ds_init(repo):
    fn = _method(_cls(repo, DATASTORE, "Datastore"), "__init__")
    cache = None
    for s in ast.walk(fn):
        tgt = None
        if isinstance(s, ast.AnnAssign):
            tgt, val = s.target, s.value
        elif isinstance(s, ast.Assign) and len(s.targets) == 1:
            tgt, val = s.targets[0], s.value
        if tgt is not None and isinstance(tgt, ast.Attribute) and tgt.attr == "bucket_instances":
            if cache is not None:
                raise Fail("Datastore.__init__: bucket_instances assigned twice")
            cache = ast.unparse(val) if val is not None else None
    if cache not in ("dict()", "{}"):
        raise Fail(f"Datastore.__init__: bucket_instances = {cache}")
    # no other method may touch the cache or build Buckets behind the model's back: checked per method (Tr refuses
    # every statement it does not know)
    return "  Definition gen_ds_init (s : S) : dstate S := mkDs s [] 0.\n"


@_guard
def tr_footer(repo):
    return FOOTER


KERNELS = {
    "GenDatastore": [("datastore.header", tr_header), ("Bucket.__init__", tr_bucket_init),
                     ("datastore.vocabulary", tr_vocab), ("Datastore.__init__", tr_ds_init)]
                    + [_method_kernel(c, m) for c, m in
                       [("Datastore", "buckets"), ("Datastore", "__getitem__"), ("Datastore", "create_bucket"),
                        ("Datastore", "update_bucket"), ("Datastore", "delete_bucket"),
                        ("Bucket", "metadata"), ("Bucket", "get"), ("Bucket", "get_by_id"),
                        ("Bucket", "get_eventcount"), ("Bucket", "insert"), ("Bucket", "delete"),
                        ("Bucket", "replace_last"), ("Bucket", "replace")]]
                    + [("datastore.dispatch", tr_footer)],
}
