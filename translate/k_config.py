"""Kernel of aw_core/config.py: the body of `for key in b:` in _merge, as a function of
av = a.get(key) and bv = b[key] giving what a.get(key) is afterwards (vocabulary:
coq/Model/ConfigKernel.v).  Fail-closed: the function must consist of the docstring, the
`if path is None: path = []` prologue, one `for key in b:` loop and `return a`; the loop body
may use if/elif/else, `pass`, `a[key] = <expr>`, `_merge(a[key], <expr>, ...)`, with
conditions built from `key in a`, `isinstance(<expr>, dict)`, and/or/not, and expressions
`a[key]` / `b[key]`.  Anything else (e.g. an `==` comparison of values) is refused."""
import ast
import os

from py2v import Fail, find_function


def _is_sub(e, name):
    return (isinstance(e, ast.Subscript) and isinstance(e.value, ast.Name) and e.value.id == name
            and isinstance(e.slice, ast.Name) and e.slice.id == "key")


def expr(e):
    if _is_sub(e, "a"):
        return "(getitem av)"
    if _is_sub(e, "b"):
        return "(Ok bv)"
    raise Fail("unsupported expression " + ast.dump(e)[:80])


def cond(e):
    if isinstance(e, ast.Compare) and len(e.ops) == 1 and isinstance(e.left, ast.Name) and e.left.id == "key" \
            and isinstance(e.comparators[0], ast.Name) and e.comparators[0].id == "a":
        if isinstance(e.ops[0], ast.In):
            return "(Ok (in_dict av))"
        if isinstance(e.ops[0], ast.NotIn):
            return "(Ok (negb (in_dict av)))"
    if isinstance(e, ast.Call) and isinstance(e.func, ast.Name) and e.func.id == "isinstance" and len(e.args) == 2 \
            and not e.keywords and isinstance(e.args[1], ast.Name) and e.args[1].id == "dict":
        return f"(bind {expr(e.args[0])} (fun v => Ok (is_dict v)))"
    if isinstance(e, ast.BoolOp):
        op = "and_then" if isinstance(e.op, ast.And) else "or_else"
        out = cond(e.values[-1])
        for v in reversed(e.values[:-1]):
            out = f"({op} {cond(v)} {out})"
        return out
    if isinstance(e, ast.UnaryOp) and isinstance(e.op, ast.Not):
        return f"(not_ {cond(e.operand)})"
    raise Fail("unsupported condition " + ast.dump(e)[:80])


def block(body):
    body = [s for s in body if not (isinstance(s, ast.Expr) and isinstance(s.value, ast.Constant))]
    if len(body) != 1:
        raise Fail("a block of the loop body must hold exactly one statement")
    s = body[0]
    if isinstance(s, ast.Pass):
        return "(Ok av)"
    if isinstance(s, ast.If):
        other = block(s.orelse) if s.orelse else "(Ok av)"
        return f"(bind {cond(s.test)} (fun c => if c\n    then {block(s.body)}\n    else {other}))"
    if isinstance(s, ast.Assign) and len(s.targets) == 1 and _is_sub(s.targets[0], "a"):
        return f"(bind {expr(s.value)} (fun v => Ok (Some v)))"
    if isinstance(s, ast.Expr) and isinstance(s.value, ast.Call) and isinstance(s.value.func, ast.Name) \
            and s.value.func.id == "_merge" and len(s.value.args) in (2, 3) and not s.value.keywords \
            and _is_sub(s.value.args[0], "a"):
        return f"(bind (getitem av) (fun x => bind {expr(s.value.args[1])} (fun y => call_merge rec x y)))"
    raise Fail("unsupported statement " + ast.dump(s)[:80])


PROLOGUE = ast.dump(ast.parse("if path is None:\n    path = []").body[0])


def tr_merge(repo):
    tree = ast.parse(open(os.path.join(repo, "aw_core/config.py")).read())
    fn = find_function(tree, "_merge")
    a = fn.args
    if [x.arg for x in a.args] != ["a", "b", "path"] or a.vararg or a.kwarg or a.kwonlyargs or len(a.defaults) != 1 \
            or not (isinstance(a.defaults[0], ast.Constant) and a.defaults[0].value is None):
        raise Fail("signature of _merge changed")
    body = [s for s in fn.body if not (isinstance(s, ast.Expr) and isinstance(s.value, ast.Constant))]
    if len(body) != 3 or ast.dump(body[0]) != PROLOGUE:
        raise Fail("_merge is no longer prologue + one loop + return a")
    loop, ret = body[1], body[2]
    if not (isinstance(loop, ast.For) and isinstance(loop.target, ast.Name) and loop.target.id == "key"
            and isinstance(loop.iter, ast.Name) and loop.iter.id == "b" and not loop.orelse):
        raise Fail("loop header is not `for key in b:`")
    if not (isinstance(ret, ast.Return) and isinstance(ret.value, ast.Name) and ret.value.id == "a"):
        raise Fail("_merge does not end with `return a`")
    return ("From AwVerif Require Import Model.Config Model.ConfigKernel.\n\n"
            "(* body of `for key in b:` in _merge: a.get(key) afterwards, given av = a.get(key), bv = b[key] *)\n"
            "Definition gen_merge_body (rec : table -> table -> table) (av : option toml) (bv : toml)\n"
            "  : res (option toml) :=\n  " + block(loop.body) + ".\n")


KERNELS = {
    "GenConfig": [("_merge", tr_merge)],
}
