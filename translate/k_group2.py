"""Kernels of aw_transform/merge_events_by_keys.py and aw_transform/chunk_events_by_key.py
(tie B for C16, second part; k_group.py holds sort_by.py / filter_keyvals).

Both functions are loops that mutate containers (an insertion-ordered dict of Event objects,
a list of Event objects whose last element is mutated through an alias).  They are
translated statement by statement into the Python primitives of coq/Model/GroupPy.v and
coq/Model/GroupPy2.v; Bridge/BridgeGroup2.v proves the result equal to the hand-written
model of Model/Group.v for all inputs.  Nothing is matched against a fixed skeleton: the
translator is a small compiler for a typed subset of Python, so harmless rewrites (renamed
locals, `not keys` for `len(keys) < 1`) are translated as well and it is the bridge proof
that decides whether the new text still means the same.

The subset (anything else raises Fail; the definition is then omitted from
coq/Gen/GenGroup2.v and the bridge lemma stops compiling):

  statements   x = e | x: T = e | D[k] = e | P.duration = e | P.duration += e
               | P.data[k] = e | P.data["subevents"].append(e) | L.append(e)
               | for x in <list or dict name>: ... (no else) | if/elif/else | break | continue
               | return e | docstrings and logger.* calls (skipped)
               where L is a local list, D a local dict of events and the place P is `D[k]` or a
               local bound by `x = L[-1]`
  expressions  names; int literals; () and (e,) with e = (key, val) or val; [] ; {} ;
               {key: val, "subevents": [event, ...]}; e.timestamp / e.duration / e.data / e["data"];
               d[key]; D[k]; l[-1]; len(l); tuple(v); + and - on datetimes/timedeltas, + on
               tuples; timedelta(seconds=<literal or the seconds parameter>);
               Event(timestamp=, duration=, data=) and Event(**e)
  conditions   and / or / not; one comparison out of < <= > >= == != in `not in`;
               isinstance(v, list); truthiness of a list name

Rendering (what the reader of GenGroup2.v has to trust the translator for):

  * every Python local x is the Gallina variable v_x; an assignment shadows it;
  * an expression that can raise is bound with `bind` in Python's evaluation order, one that
    cannot is inlined; conditions are `res bool` built with py_and / py_or / py_not (short
    circuit);
  * a `for` loop is py_for / py_for_brk (the latter when its body contains `break`) over the
    tuple of the outer variables its body assigns or mutates; locals first assigned inside a
    body are not visible in the next iteration or after the loop (reading them fails closed);
  * an `if` without break/continue/return yields the outer variables its branches change;
    with one of them the rest of the block is copied into both branches;
  * objects are values: an Event created by `Event(...)` is owned by the local it is assigned
    to until it is stored into a container (after that the local is gone); mutation of an
    object inside a container (`D[k].duration += d`, or through `x = L[-1]`) is
    read - modify - write back (od_put / py_set_last); an alias `x = L[-1]` dies when L is
    appended to or reassigned and at the end of the block it was made in.  Input events are
    never mutated (no statement form can);
  * e["data"] is rendered as e.data (equal for every Event built by Event.__init__, which
    always stores a dict under "data");
  * timedelta(seconds=pulsetime): the parameter is integer microseconds in the model
    (the convention of py2v.py); a literal is converted with Python's own timedelta;
  * event.data[key] is a `pyval` (a list or a hashable value; `is_list` tells which, and is a
    parameter the bridge quantifies over); storing it into a data dict stores its label;
  * "subevents" is the label `sub_key`, a parameter of the generated function.
"""
import ast
import os
from datetime import timedelta

from py2v import Fail, find_function, is_skippable
from k_group import _args, _guard, _src

LISTS = {"events": "gev", "gevs": "gev", "cevs": "cev", "keys": "key"}
LOCAL_LISTS = ("gevs", "cevs")
GTYPE = {"events": "list gev", "keys": "list Z", "key": "Z", "secs": "Z"}
ATTRS = {
    "gev": {"timestamp": ("gts", "dt"), "duration": ("gdur", "td"), "data": ("gdata", "dict")},
    "cev": {"timestamp": ("ce_ts", "dt"), "duration": ("ce_dur", "td"), "data": ("ce_data", "cdict")},
}
SETDUR = {"gev": "gev_set_dur", "cev": "cev_set_dur"}
OD = "ckey_eqb2 ckey_hashable"
CMP = {ast.Lt: "<?", ast.LtE: "<=?", ast.Gt: ">?", ast.GtE: ">=?"}
ARITH = {("dt", "-", "dt"): "td", ("dt", "+", "td"): "dt", ("td", "+", "dt"): "dt", ("dt", "-", "td"): "dt",
         ("td", "+", "td"): "td", ("td", "-", "td"): "td", ("int", "+", "int"): "int", ("int", "-", "int"): "int"}


class V:
    """g: Gallina name; ty: type; ref: python name of the local list whose [-1] this name aliases;
    owned: the local holds an object created in this function (Event(...), a dict literal) that
    nothing else refers to yet"""

    def __init__(self, g, ty, ref=None, owned=False):
        self.g, self.ty, self.ref, self.owned = g, ty, ref, owned


class Ctx:
    def __init__(self, fall, brk=None, cont=None, ret=None):
        self.fall, self.brk, self.cont, self.ret = fall, brk, cont, ret


def gname(n):
    return "v_" + n


def _idx(sub):
    s = sub.slice
    return s.value if isinstance(s, ast.Index) else s  # py3.8 compat


def _is_minus_one(e):
    return (isinstance(e, ast.UnaryOp) and isinstance(e.op, ast.USub) and isinstance(e.operand, ast.Constant)
            and type(e.operand.value) is int and e.operand.value == 1) or \
           (isinstance(e, ast.Constant) and type(e.value) is int and e.value == -1)


def _is_str(e, s=None):
    return isinstance(e, ast.Constant) and isinstance(e.value, str) and (s is None or e.value == s)


def _base(e):
    while True:
        if isinstance(e, ast.Name):
            return e.id
        if isinstance(e, (ast.Attribute, ast.Subscript)):
            e = e.value
        elif isinstance(e, ast.Call):
            e = e.func
        else:
            return None


def _walk_stmts(body, into_loops=True):
    for s in body:
        yield s
        for fld in ("body", "orelse"):
            sub = getattr(s, fld, None)
            if isinstance(sub, list) and (into_loops or not isinstance(s, (ast.For, ast.While))):
                yield from _walk_stmts(sub, into_loops)


def mutated(body, aliases):
    """python names that the statements may assign or mutate (through aliases as well)"""
    out, al = set(), dict(aliases)
    for s in _walk_stmts(body):
        if isinstance(s, (ast.Assign, ast.AnnAssign, ast.AugAssign)):
            targets = s.targets if isinstance(s, ast.Assign) else [s.target]
            for t in targets:
                b = _base(t)
                if b is None:
                    raise Fail("unsupported assignment target")
                out.add(b)
                v = getattr(s, "value", None)
                if isinstance(t, ast.Name) and isinstance(v, ast.Subscript) and isinstance(v.value, ast.Name):
                    al[t.id] = v.value.id
        elif isinstance(s, ast.Expr) and isinstance(s.value, ast.Call) and isinstance(s.value.func, ast.Attribute):
            b = _base(s.value.func.value)
            if b is not None and b != "logger":
                out.add(b)
        elif isinstance(s, ast.For):
            b = _base(s.target)
            if b is not None:
                out.add(b)
    for x in list(out):
        if x in al:
            out.add(al[x])
    return out


def has_escape(body, kinds, into_loops):
    return any(isinstance(s, kinds) for s in _walk_stmts(body, into_loops))


class Fn:
    def __init__(self, empty_list, empty_dict, ret_types):
        self.empty_list, self.empty_dict, self.ret_types = empty_list, empty_dict, ret_types
        self.n = 0

    def fresh(self, p="t"):
        self.n += 1
        return f"{p}{self.n}"

    def bindr(self, text, k, p="t"):
        t = self.fresh(p)
        return f"bind ({text}) (fun {t} =>\n  {k(t)})"

    # ---------------------------------------------------------------- expressions
    def ex(self, e, env, k):
        """k(text, type) -> text; raising sub-expressions are bound in evaluation order"""
        if isinstance(e, ast.Name):
            v = env.get(e.id)
            if v is None:
                raise Fail(f"name {e.id} is not defined here")
            if v.ref is not None:
                return self.bindr(f"py_last {env[v.ref].g}", lambda t: k(t, v.ty))
            return k(v.g, v.ty)
        if isinstance(e, ast.Constant) and type(e.value) is int:
            return k(str(e.value) if e.value >= 0 else f"({e.value})", "int")
        if isinstance(e, ast.Tuple):
            if not e.elts:
                return k("[]", "ckey")
            if len(e.elts) != 1:
                raise Fail("only () and one-element tuples (e,) are supported as tuple values")
            el = e.elts[0]
            if isinstance(el, ast.Tuple) and len(el.elts) == 2:
                def pair(ta, tya, tb, tyb):
                    if (tya, tyb) != ("key", "val"):
                        raise Fail(f"key tuple element ({tya}, {tyb}) is not (key, value)")
                    return k(f"[KPair {ta} {tb}]", "ckey")
                return self.ex(el.elts[0], env, lambda ta, tya: self.ex(el.elts[1], env,
                                                                         lambda tb, tyb: pair(ta, tya, tb, tyb)))

            def single(t, ty):
                if ty != "val":
                    raise Fail(f"key tuple element of type {ty}")
                return k(f"[KVal {t}]", "ckey")
            return self.ex(el, env, single)
        if isinstance(e, ast.List):
            if e.elts:
                raise Fail("non-empty list literal outside a dict literal")
            return k("[]", self.empty_list)
        if isinstance(e, ast.Dict):
            if not e.keys:
                return k("[]", self.empty_dict)
            return self.dict_literal(e, env, k)
        if isinstance(e, ast.Attribute):
            def attr(t, ty):
                if ty not in ATTRS or e.attr not in ATTRS[ty]:
                    raise Fail(f"attribute .{e.attr} of a {ty}")
                f, rty = ATTRS[ty][e.attr]
                return k(f"({f} {t})", rty)
            return self.ex(e.value, env, attr)
        if isinstance(e, ast.Subscript):
            return self.subscript(e, env, k)
        if isinstance(e, ast.BinOp) and isinstance(e.op, (ast.Add, ast.Sub)):
            op = "+" if isinstance(e.op, ast.Add) else "-"

            def arith(ta, tya, tb, tyb):
                if (tya, op, tyb) == ("ckey", "+", "ckey"):
                    return k(f"({ta} ++ {tb})", "ckey")
                if (tya, op, tyb) not in ARITH:
                    raise Fail(f"{tya} {op} {tyb}")
                return k(f"({ta} {op} {tb})", ARITH[(tya, op, tyb)])
            return self.ex(e.left, env, lambda ta, tya: self.ex(e.right, env, lambda tb, tyb: arith(ta, tya, tb, tyb)))
        if isinstance(e, ast.Call) and isinstance(e.func, ast.Name):
            return self.call(e, env, k)
        if isinstance(e, (ast.Compare, ast.BoolOp)) or (isinstance(e, ast.UnaryOp) and isinstance(e.op, ast.Not)):
            return self.bindr(self.cond(e, env), lambda t: k(t, "bool"))
        raise Fail("unsupported expression " + ast.dump(e)[:80])

    def dict_literal(self, e, env, k):
        """{key: val, "subevents": [event, ...]} -> cdict, entries stored left to right"""
        items = list(zip(e.keys, e.values))

        def go(i, acc):
            if i == len(items):
                return k(acc, "cdict")
            kk, vv = items[i]
            if kk is None:
                raise Fail("** in a dict literal")

            def with_key(tk):
                if isinstance(vv, ast.List):
                    def elems(j, got):
                        if j == len(vv.elts):
                            return go(i + 1, f"(cd_put {tk} (CSub [{'; '.join(got)}]) {acc})")

                        def one(t, ty):
                            if ty != "gev":
                                raise Fail(f"list of {ty} as a dict value")
                            return elems(j + 1, got + [t])
                        return self.ex(vv.elts[j], env, one)
                    return elems(0, [])

                def scalar(t, ty):
                    if ty != "val":
                        raise Fail(f"dict value of type {ty}")
                    return go(i + 1, f"(cd_put {tk} (cv_of_val {t}) {acc})")
                return self.ex(vv, env, scalar)
            if _is_str(kk, "subevents"):
                return with_key("sub_key")
            if _is_str(kk):
                raise Fail(f"string key {kk.value!r} in a dict literal")

            def named(t, ty):
                if ty != "key":
                    raise Fail(f"dict key of type {ty}")
                return with_key(t)
            return self.ex(kk, env, named)
        return go(0, "[]")

    def subscript(self, e, env, k):
        idx = _idx(e)
        if isinstance(idx, ast.Slice):
            raise Fail("slices")
        if _is_minus_one(idx):
            def last(t, ty):
                if ty not in LISTS:
                    raise Fail(f"[-1] of a {ty}")
                return self.bindr(f"py_last {t}", lambda x: k(x, LISTS[ty]))
            return self.ex(e.value, env, last)
        if _is_str(idx):
            def strkey(t, ty):
                if ty == "gev" and idx.value == "data":
                    return k(f"(gdata {t})", "dict")
                if ty == "cdict" and idx.value == "subevents":
                    return self.bindr(f"cd_getitem {t} sub_key", lambda x: k(x, "cval"))
                raise Fail(f"[{idx.value!r}] of a {ty}")
            return self.ex(e.value, env, strkey)

        def item(tv, tyv, ti, tyi):
            if (tyv, tyi) == ("dict", "key"):
                return self.bindr(f"py_getitem_v is_list {tv} {ti}", lambda x: k(x, "val"))
            if (tyv, tyi) == ("cdict", "key"):
                return self.bindr(f"cd_getitem {tv} {ti}", lambda x: k(x, "cval"))
            if (tyv, tyi) == ("mdict", "ckey"):
                return self.bindr(f"od_getitem {OD} {ti} {tv}", lambda x: k(x, "gev"))
            raise Fail(f"{tyv}[{tyi}]")
        return self.ex(e.value, env, lambda tv, tyv: self.ex(idx, env, lambda ti, tyi: item(tv, tyv, ti, tyi)))

    def call(self, e, env, k):
        f = e.func.id
        if f in env:
            raise Fail(f"call of the local {f}")
        if f == "len" and len(e.args) == 1 and not e.keywords:
            def ln(t, ty):
                if ty not in LISTS:
                    raise Fail(f"len of a {ty}")
                return k(f"(py_len {t})", "int")
            return self.ex(e.args[0], env, ln)
        if f == "tuple" and len(e.args) == 1 and not e.keywords:
            def tup(t, ty):
                if ty != "val":
                    raise Fail(f"tuple() of a {ty}")
                return self.bindr(f"py_tuple {t}", lambda x: k(x, "val"))
            return self.ex(e.args[0], env, tup)
        if f == "timedelta" and not e.args and len(e.keywords) == 1 and e.keywords[0].arg == "seconds":
            a = e.keywords[0].value
            if isinstance(a, ast.Constant) and type(a.value) in (int, float):
                td = timedelta(seconds=a.value)
                us = (td.days * 86400 + td.seconds) * 1000000 + td.microseconds
                if timedelta(microseconds=us) != td or (type(a.value) is float and us / 1e6 != a.value):
                    raise Fail("timedelta literal is not a whole number of microseconds")
                return k(str(us) if us >= 0 else f"({us})", "td")
            if isinstance(a, ast.Name) and a.id in env and env[a.id].ty == "secs":
                return k(env[a.id].g, "td")
            raise Fail("unsupported timedelta(seconds=...) argument")
        if f == "Event":
            if e.args:
                raise Fail("positional arguments of Event(...)")
            if len(e.keywords) == 1 and e.keywords[0].arg is None:
                def splat(t, ty):
                    if ty != "gev":
                        raise Fail(f"Event(**{ty})")
                    return k(f"(py_Event_splat {t})", "gev")
                return self.ex(e.keywords[0].value, env, splat)
            names = [kw.arg for kw in e.keywords]
            if sorted(names, key=str) != ["data", "duration", "timestamp"]:
                raise Fail("Event(...) must be given exactly timestamp=, duration=, data=")
            got = {}

            def go(i):
                if i == len(e.keywords):
                    if got["timestamp"][1] != "dt" or got["duration"][1] != "td":
                        raise Fail("Event(...) argument types")
                    if got["data"][1] == "dict":
                        return k(f"(py_Event {got['timestamp'][0]} {got['duration'][0]} {got['data'][0]})", "gev")
                    if got["data"][1] == "cdict":
                        return k(f"(py_Event_c {got['timestamp'][0]} {got['duration'][0]} {got['data'][0]})", "cev")
                    raise Fail(f"Event(data=<{got['data'][1]}>)")

                def one(t, ty):
                    got[e.keywords[i].arg] = (t, ty)
                    return go(i + 1)
                kv = e.keywords[i].value
                if e.keywords[i].arg == "data" and not self.fresh_object(kv, env):
                    raise Fail("Event(data=...) must be given a dict created here (a shared dict would be mutated later)")
                if e.keywords[i].arg == "data" and isinstance(kv, ast.Dict) and not kv.keys:
                    return one("[]", "dict")      # data={}: an empty data dict whatever {} means elsewhere
                return self.ex(kv, env, one)
            return go(0)
        raise Fail(f"call of {f}")

    # ---------------------------------------------------------------- conditions: closed `res bool` terms
    def cond(self, e, env):
        if isinstance(e, ast.BoolOp):
            op = "py_and" if isinstance(e.op, ast.And) else "py_or"
            parts = [self.cond(v, env) for v in e.values]
            out = parts[-1]
            for p in reversed(parts[:-1]):
                out = f"({op} {p}\n  {out})"
            return out
        if isinstance(e, ast.UnaryOp) and isinstance(e.op, ast.Not):
            return f"(py_not {self.cond(e.operand, env)})"
        if isinstance(e, ast.Compare):
            if len(e.ops) != 1:
                raise Fail("chained comparison")
            op = e.ops[0]

            def cmp(ta, tya, tb, tyb):
                if isinstance(op, (ast.In, ast.NotIn)):
                    if (tya, tyb) == ("key", "dict"):
                        t = f"(py_in_dict {ta} {tb})"
                    elif (tya, tyb) == ("ckey", "mdict"):
                        t = f"(od_contains {OD} {ta} {tb})"
                    else:
                        raise Fail(f"{tya} in {tyb}")
                    return t if isinstance(op, ast.In) else f"(py_not {t})"
                if type(op) in CMP:
                    if tya != tyb or tya not in ("int", "td", "dt"):
                        raise Fail(f"{tya} {CMP[type(op)]} {tyb}")
                    return f"(Ok ({ta} {CMP[type(op)]} {tb}))"
                if isinstance(op, (ast.Eq, ast.NotEq)):
                    if (tya, tyb) == ("cval", "val"):
                        t = f"(py_eq_cv {ta} {tb})"
                    elif (tya, tyb) == ("val", "val"):
                        t = f"(Ok (pyval_eqb {ta} {tb}))"
                    elif tya == tyb and tya in ("int", "td", "dt", "key"):
                        t = f"(Ok ({ta} =? {tb}))"
                    else:
                        raise Fail(f"{tya} == {tyb}")
                    return t if isinstance(op, ast.Eq) else f"(py_not {t})"
                raise Fail("unsupported comparison operator")
            return "(" + self.ex(e.left, env, lambda ta, tya: self.ex(e.comparators[0], env,
                                                                    lambda tb, tyb: cmp(ta, tya, tb, tyb))) + ")"
        if isinstance(e, ast.Call) and isinstance(e.func, ast.Name) and e.func.id == "isinstance" \
                and "isinstance" not in env and len(e.args) == 2 and not e.keywords \
                and isinstance(e.args[1], ast.Name) and e.args[1].id == "list" and "list" not in env:
            def inst(t, ty):
                if ty != "val":
                    raise Fail(f"isinstance of a {ty}")
                return f"(Ok (py_isinstance_list {t}))"
            return "(" + self.ex(e.args[0], env, inst) + ")"
        if isinstance(e, ast.Name) and e.id in env and env[e.id].ref is None:
            v = env[e.id]
            if v.ty == "bool":
                return f"(Ok {v.g})"
            if v.ty in LISTS:
                return f"(Ok (0 <? py_len {v.g}))"
        raise Fail("unsupported condition " + ast.dump(e)[:80])

    # ---------------------------------------------------------------- variable tuples
    def pack(self, names, env):
        ts = []
        for n in names:
            if n not in env or env[n].ref is not None:
                raise Fail(f"{n} is not available where the block ends (moved into a container?)")
            ts.append(env[n].g)
        if not ts:
            return "tt"
        out = ts[-1]
        for t in reversed(ts[:-1]):
            out = f"({t}, {out})"
        return out

    def pat(self, names):
        if not names:
            return "_"
        if len(names) == 1:
            return gname(names[0])
        out = gname(names[-1])
        for n in reversed(names[:-1]):
            out = f"({gname(n)}, {out})"
        return "'" + out

    @staticmethod
    def rebound(env, names, drop_refs_of=()):
        env2 = {n: v for n, v in env.items() if not (v.ref is not None and v.ref in drop_refs_of)}
        for n in names:
            env2[n] = V(gname(n), env[n].ty)
        return env2

    @staticmethod
    def aliases(env):
        return {n: v.ref for n, v in env.items() if v.ref is not None}

    # ---------------------------------------------------------------- places (objects inside containers)
    def place(self, p, env, k):
        """k(object text, object type, writeback); writeback(new object text, rest) -> text"""
        if isinstance(p, ast.Name) and p.id in env and env[p.id].ref is not None:
            v = env[p.id]
            lst = env[v.ref].g

            def wb(new, rest):
                return f"let {lst} := py_set_last {lst} {new} in\n  {rest(env)}"
            return self.bindr(f"py_last {lst}", lambda o: k(o, v.ty, wb), "o")
        if isinstance(p, ast.Subscript) and isinstance(p.value, ast.Name) and p.value.id in env \
                and env[p.value.id].ty == "mdict" and env[p.value.id].ref is None:
            d = env[p.value.id].g

            def keyed(tk, tyk):
                if tyk != "ckey":
                    raise Fail(f"dict subscript of type {tyk}")

                def wb(new, rest):
                    return f"let {d} := od_put ckey_eqb2 {tk} {new} {d} in\n  {rest(env)}"
                return self.bindr(f"od_getitem {OD} {tk} {d}", lambda o: k(o, "gev", wb), "o")
            return self.ex(_idx(p), env, keyed)
        raise Fail("mutation of something that is neither D[k] nor an alias of L[-1]: " + ast.dump(p)[:60])

    # ---------------------------------------------------------------- statements
    def block(self, body, env, ctx):
        if not body:
            return ctx.fall(env)
        s, rest = body[0], body[1:]

        def nxt(env2):
            return self.block(rest, env2, ctx)
        if is_skippable(s):
            return nxt(env)
        if isinstance(s, ast.AnnAssign) and s.value is not None and s.simple and isinstance(s.target, ast.Name):
            return self.assign(s.target, s.value, env, nxt)
        if isinstance(s, ast.Assign) and len(s.targets) == 1:
            return self.assign(s.targets[0], s.value, env, nxt)
        if isinstance(s, ast.AugAssign) and isinstance(s.op, ast.Add) and isinstance(s.target, ast.Attribute) \
                and s.target.attr == "duration":
            def aug(o, ty, wb):
                def add(te, tye):
                    if tye != "td":
                        raise Fail(f".duration += {tye}")
                    return wb(f"({SETDUR[ty]} {o} ({ATTRS[ty]['duration'][0]} {o} + {te}))", nxt)
                return self.ex(s.value, env, add)
            return self.place(s.target.value, env, aug)
        if isinstance(s, ast.Expr) and isinstance(s.value, ast.Call) and isinstance(s.value.func, ast.Attribute) \
                and s.value.func.attr == "append" and len(s.value.args) == 1 and not s.value.keywords:
            return self.append(s.value.func.value, s.value.args[0], env, nxt)
        if isinstance(s, ast.For):
            return self.for_(s, env, nxt)
        if isinstance(s, ast.If):
            return self.if_(s, rest, env, ctx)
        if isinstance(s, (ast.Break, ast.Continue, ast.Return)):
            if any(not is_skippable(r) for r in rest):
                raise Fail("statements after break/continue/return")
            if isinstance(s, ast.Break):
                if ctx.brk is None:
                    raise Fail("break outside a loop")
                return ctx.brk(env)
            if isinstance(s, ast.Continue):
                if ctx.cont is None:
                    raise Fail("continue outside a loop")
                return ctx.cont(env)
            if ctx.ret is None:
                raise Fail("return inside a loop")
            if s.value is None:
                raise Fail("return without a value")
            return self.ex(s.value, env, ctx.ret)
        raise Fail("unsupported statement " + type(s).__name__)

    def assign(self, target, value, env, nxt):
        if isinstance(target, ast.Name):
            n = target.id
            if isinstance(value, ast.Subscript) and _is_minus_one(_idx(value)) and isinstance(value.value, ast.Name) \
                    and value.value.id in env and env[value.value.id].ty in LOCAL_LISTS \
                    and env[value.value.id].ref is None and value.value.id != n:
                root = value.value.id
                env2 = {a: v for a, v in env.items() if v.ref != n}
                env2[n] = V(None, LISTS[env[root].ty], ref=root)
                # the alias is only as good as the list is non-empty: evaluate l[-1] now
                return self.bindr(f"py_last {env[root].g}", lambda _t: nxt(env2), "_a")

            def bound(t, ty):
                env2 = {a: v for a, v in (self.moved(env, value) if self.is_creation(value) else env).items() if v.ref != n}
                env2[n] = V(gname(n), ty, owned=self.is_creation(value))
                return f"let {gname(n)} := {t} in\n  {nxt(env2)}"
            return self.ex(value, env, bound)
        if isinstance(target, ast.Subscript) and isinstance(target.value, ast.Name) and target.value.id in env \
                and env[target.value.id].ty == "mdict" and env[target.value.id].ref is None:
            d = env[target.value.id].g

            def stored(tv, tyv):
                if tyv != "gev":
                    raise Fail(f"storing a {tyv} into the dict of events")
                if not self.fresh_object(value, env):
                    raise Fail("storing an object into the dict that was not created here (it would be mutated through the dict)")

                def keyed(tk, tyk):
                    if tyk != "ckey":
                        raise Fail(f"dict subscript of type {tyk}")
                    env2 = self.moved(env, value)
                    return self.bindr(f"od_setitem {OD} {tk} {tv} {d}", lambda t: f"let {d} := {t} in\n  {nxt(env2)}")
                return self.ex(_idx(target), env, keyed)
            return self.ex(value, env, stored)
        if isinstance(target, ast.Attribute) and target.attr == "duration":
            def val(te, tye):
                if tye != "td":
                    raise Fail(f".duration = {tye}")
                return self.place(target.value, env, lambda o, ty, wb: wb(f"({SETDUR[ty]} {o} {te})", nxt))
            return self.ex(value, env, val)
        if isinstance(target, ast.Subscript) and isinstance(target.value, ast.Attribute) and target.value.attr == "data":
            def val2(te, tye):
                if tye != "val":
                    raise Fail(f"storing a {tye} into event data")

                def obj(o, ty, wb):
                    if ty != "gev":
                        raise Fail(f"<{ty}>.data[k] = v")

                    def keyed(tk, tyk):
                        if tyk != "key":
                            raise Fail(f"data subscript of type {tyk}")
                        return wb(f"(gev_set_data {o} (dset {tk} (pv_label {te}) (gdata {o})))", nxt)
                    return self.ex(_idx(target), env, keyed)
                return self.place(target.value.value, env, obj)
            return self.ex(value, env, val2)
        raise Fail("unsupported assignment target " + ast.dump(target)[:60])

    @staticmethod
    def is_creation(e):
        return isinstance(e, ast.Dict) or (isinstance(e, ast.Call) and isinstance(e.func, ast.Name) and e.func.id == "Event")

    def fresh_object(self, e, env):
        """an object nothing else refers to: created by this very expression, or held by an owning local"""
        return self.is_creation(e) or (isinstance(e, ast.Name) and e.id in env and env[e.id].ref is None and env[e.id].owned)

    @staticmethod
    def moved(env, value):
        """an object stored into a container / handed to Event(data=...) is no longer reachable through the local"""
        gone = set()
        if isinstance(value, ast.Name):
            gone.add(value.id)
        for node in ast.walk(value):
            if isinstance(node, ast.Call) and isinstance(node.func, ast.Name) and node.func.id == "Event":
                gone |= {kw.value.id for kw in node.keywords if kw.arg == "data" and isinstance(kw.value, ast.Name)}
        return {a: v for a, v in env.items() if a not in gone or v.ty not in ("gev", "cev", "dict", "cdict")}

    def append(self, recv, arg, env, nxt):
        if isinstance(recv, ast.Name) and recv.id in env and env[recv.id].ty in LOCAL_LISTS and env[recv.id].ref is None:
            lv = env[recv.id]

            def app(t, ty):
                if ty != LISTS[lv.ty]:
                    raise Fail(f"appending a {ty} to a list of {LISTS[lv.ty]}")
                if not self.fresh_object(arg, env):
                    raise Fail("appending an object that was not created here to a list whose elements get mutated")
                env2 = {a: v for a, v in self.moved(env, arg).items() if v.ref != recv.id}
                return f"let {lv.g} := {lv.g} ++ [{t}] in\n  {nxt(env2)}"
            return self.ex(arg, env, app)
        if isinstance(recv, ast.Subscript) and _is_str(_idx(recv), "subevents") and isinstance(recv.value, ast.Attribute) \
                and recv.value.attr == "data":
            def obj(o, ty, wb):
                if ty != "cev":
                    raise Fail(f"<{ty}>.data['subevents'].append")

                def got(cv):
                    def arg_(t, tya):
                        if tya != "gev":
                            raise Fail(f"appending a {tya} to the sub-events")
                        return self.bindr(f"cv_append {cv} {t}", lambda cv2: wb(
                            f"(cev_set_data {o} (cd_put sub_key {cv2} (ce_data {o})))", nxt))
                    return self.ex(arg, env, arg_)
                return self.bindr(f"cd_getitem (ce_data {o}) sub_key", got)
            return self.place(recv.value.value, env, obj)
        raise Fail("unsupported .append receiver " + ast.dump(recv)[:60])

    def for_(self, s, env, nxt):
        if s.orelse or not isinstance(s.target, ast.Name) or not isinstance(s.iter, ast.Name) or s.iter.id not in env \
                or env[s.iter.id].ref is not None:
            raise Fail("unsupported for header")
        x, it = s.target.id, env[s.iter.id]
        if it.ty in LISTS:
            seq, ety = it.g, LISTS[it.ty]
        elif it.ty == "mdict":
            seq, ety = f"(od_keys {it.g})", "ckey"
        else:
            raise Fail(f"iteration over a {it.ty}")
        mut = mutated(s.body, self.aliases(env))
        if s.iter.id in mut or x in mut:
            raise Fail("the loop body changes the iterated container or the loop variable")
        state = sorted(n for n in mut if n in env and env[n].ref is None)
        brk = has_escape(s.body, (ast.Break,), into_loops=False)
        inner = {n: v for n, v in env.items() if v.ref is None and n != x}
        inner = self.rebound(inner, state)
        inner[x] = V(gname(x), ety)
        if brk:
            ctx = Ctx(fall=lambda e2: f"Ok (false, {self.pack(state, e2)})",
                      brk=lambda e2: f"Ok (true, {self.pack(state, e2)})",
                      cont=lambda e2: f"Ok (false, {self.pack(state, e2)})")
        else:
            ctx = Ctx(fall=lambda e2: f"Ok {self.pack(state, e2)}", cont=lambda e2: f"Ok {self.pack(state, e2)}")
        body = self.block(s.body, inner, ctx)
        after = self.rebound({n: v for n, v in env.items() if n != x}, state, drop_refs_of=state)
        return (f"bind ({'py_for_brk' if brk else 'py_for'} {seq} {self.pack(state, env)} (fun {gname(x)} {self.pat(state)} =>\n"
                f"  {body})) (fun {self.pat(state)} =>\n  {nxt(after)})")

    def if_(self, s, rest, env, ctx):
        c = self.cond(s.test, env)
        cn = self.fresh("c")
        branches = s.body + s.orelse
        if has_escape(branches, (ast.Break, ast.Continue), into_loops=False) or has_escape(branches, (ast.Return,), True):
            ctx2 = Ctx(fall=lambda e2: self.block(rest, e2, ctx), brk=ctx.brk, cont=ctx.cont, ret=ctx.ret)
            return (f"bind {c} (fun {cn} =>\n  if {cn}\n  then {self.block(s.body, env, ctx2)}\n"
                    f"  else {self.block(s.orelse, env, ctx2)})")
        mut = mutated(branches, self.aliases(env))
        # new locals that both branches define and still hold where they end
        new_both = sorted(n for n in self.definitely(s.body) & self.definitely(s.orelse) if n not in env)
        n0 = self.n
        while True:
            join = sorted(set(n for n in mut if n in env and env[n].ref is None) | set(new_both))
            seen, gone = {}, set()

            def fall(e2):
                for n in join:
                    if n in e2 and e2[n].ref is None:
                        seen.setdefault(n, set()).add(e2[n].ty)
                    elif n in new_both:
                        gone.add(n)
                if gone:
                    return "?"
                return f"Ok {self.pack(join, e2)}"
            ctxj = Ctx(fall=fall)
            self.n = n0
            then_, else_ = self.block(s.body, env, ctxj), self.block(s.orelse, env, ctxj)
            if not gone:
                break
            new_both = [n for n in new_both if n not in gone]
        after = {n: v for n, v in env.items() if not (v.ref is not None and v.ref in join)}
        for n in join:
            tys = {env[n].ty} if n in env else seen.get(n, set())
            if len(tys) != 1:
                raise Fail(f"{n} has no single type after the if")
            after[n] = V(gname(n), next(iter(tys)))
        return (f"bind (bind {c} (fun {cn} =>\n  if {cn}\n  then {then_}\n"
                f"  else {else_})) (fun {self.pat(join)} =>\n"
                f"  {self.block(rest, after, ctx)})")

    @staticmethod
    def definitely(body):
        out = set()
        for st in body:
            if isinstance(st, ast.Assign) and len(st.targets) == 1 and isinstance(st.targets[0], ast.Name):
                out.add(st.targets[0].id)
            elif isinstance(st, ast.AnnAssign) and st.value is not None and isinstance(st.target, ast.Name):
                out.add(st.target.id)
        return out

    # ---------------------------------------------------------------- a whole function
    def function(self, fn, params):
        env = {n: V(gname(n), ty) for n, ty in params}

        def ret(t, ty):
            if ty not in self.ret_types:
                raise Fail(f"return of a {ty}")
            return f"Ok {t}"

        def fall(_e):
            raise Fail("the function can fall off its end")
        return self.block(fn.body, env, Ctx(fall=fall, ret=ret))


def tr_prelude(repo):
    return "From AwVerif Require Import Model.Group Model.GroupPy Model.GroupPy2.\n"


def _sig(params):
    return " ".join(f"({gname(n)} : {GTYPE[ty]})" for n, ty in params)


@_guard
def tr_merge_events_by_keys(repo):
    fn = find_function(_src(repo, "aw_transform/merge_events_by_keys.py"), "merge_events_by_keys")
    _args(fn, ["events", "keys"])
    if fn.decorator_list:
        raise Fail("decorated")
    params = [("events", "events"), ("keys", "keys")]
    body = Fn(empty_list="gevs", empty_dict="mdict", ret_types=("events", "gevs")).function(fn, params)
    return (f"Definition gen_merge_events_by_keys (is_list : Z -> bool) {_sig(params)} : res (list gev) :=\n"
            f"  {body}.\n")


@_guard
def tr_chunk_events_by_key(repo):
    fn = find_function(_src(repo, "aw_transform/chunk_events_by_key.py"), "chunk_events_by_key")
    _args(fn, ["events", "key", "pulsetime"], [5.0])
    if fn.decorator_list:
        raise Fail("decorated")
    params = [("events", "events"), ("key", "key"), ("pulsetime", "secs")]
    body = Fn(empty_list="cevs", empty_dict="cdict", ret_types=("cevs",)).function(fn, params)
    return (f"Definition gen_chunk_events_by_key (is_list : Z -> bool) (sub_key : Z) {_sig(params)} : res (list cev) :=\n"
            f"  {body}.\n")


KERNELS = {
    "GenGroup2": [("group2_prelude", tr_prelude),
                  ("merge_events_by_keys", tr_merge_events_by_keys),
                  ("chunk_events_by_key", tr_chunk_events_by_key)],
}
