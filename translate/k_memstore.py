"""Tie B for aw_datastore/storages/memory.py (C01, C02, C04, C05, C07): every method of MemoryStorage (and
AbstractStorage.insert_many, which it inherits) is translated statement by statement into Gallina over the
vocabulary of Model/StoreBase.v + Model/PyMem.v and written to coq/Gen/GenMemStore.v; Bridge/BridgeMemStore.v
proves that the translated methods simulate `mem_step` of Model/MemStore.v.

The translated code keeps the TWO dicts of the class (`db`, `md` = self.db, self._metadata) and is in
continuation-passing form:
  d[k] read                    -> match aget k d with Some v => ... | None => (state, Err KeyError) end
  d[k] = v / del d[k] / k in d -> aset / adel (after the KeyError test) / ain
  l.append(x) l.pop(i) l[i]=x  -> aset k (l ++ [x]) / (list_pop i l) / (list_set i x l) on the dict entry
  l[0] l[-1] l[::-1] l[:n]     -> nth_error 0 / last_opt (IndexError) / rev / py_take
  sorted(l, key=lambda v: e)   -> sort_by (fun v => e) l            max(gen) -> py_max (ValueError when empty)
  [x for x in l if c]          -> filter (fun x => c) l
  (i for i, x in reversed(list(enumerate(l))) if c)   -> rev_matching_idx (fun x => c) l   ([x for ...] -> rev_matching)
  for x in it: body            -> py_for (heap + loop-carried locals), or `match it with [] | x :: _` when the body
                                  always returns
  if c: A else: B ; REST       -> let k := fun <assigned variables> => REST in if c then A; k .. else B; k ..
  `if x:` on an Optional       -> match x with Some v => (if truthy v then) ... | None => ... end (narrowing)
  self.m(args)                 -> match gen_mem_m (mkPyMem db md) args with (s, Ok r) => ... | (s, Err k) => (s, Err k) ...
  raise C(...) / return e      -> (state, Err C) / (state, Ok e)
copy.deepcopy is the identity (aliasing is C01own's heap model), `int(x)` of an int is x, `x or 0` is py_or0,
a datetime is always truthy, strings / dicts are Z labels with 0 the falsy one, `{}` is label 0.
Parameter TYPES come from the table SIG below (by position; the NAMES are read from the source).
Fail-closed: any statement / expression form not listed raises Fail; the whole file is then omitted."""
import ast
import os

import py2v
from py2v import Fail

MEMORY = "aw_datastore/storages/memory.py"
ABSTRACT = "aw_datastore/storages/abstract.py"

GT = {"Z": "Z", "label": "Z", "optlabel": "option Z", "opttime": "option Z", "optid": "option Z", "event": "Prelude.event",
      "optevent": "option Prelude.event", "events": "list Prelude.event", "pyint": "pyint", "bool": "bool", "unit": "unit",
      "meta": "StoreBase.meta", "bmap": "list (Z * StoreBase.meta)", "nat": "nat", "zlist": "list Z", "natlist": "list nat"}

# method -> (types of the parameters after self, type of the returned value)
SIG = {
    "create_bucket": (["Z", "Z", "Z", "Z", "Z", "optlabel", "label"], "unit"),
    "update_bucket": (["Z", "optlabel", "optlabel", "optlabel", "optlabel", "optlabel"], "unit"),
    "delete_bucket": (["Z"], "unit"),
    "buckets": ([], "bmap"),
    "get_event": (["Z", "Z"], "optevent"),
    "get_events": (["Z", "Z", "opttime", "opttime"], "events"),
    "get_eventcount": (["Z", "opttime", "opttime"], "Z"),
    "get_metadata": (["Z"], "meta"),
    "insert_one": (["Z", "event"], "event"),
    "insert_many": (["Z", "events"], "unit"),
    "delete": (["Z", "Z"], "bool"),
    "_get_event": (["Z", "Z"], "optevent"),
    "replace": (["Z", "optid", "event"], "unit"),
    "replace_last": (["Z", "event"], "unit"),
}
ORDER = ["replace", "_get_event", "get_metadata", "create_bucket", "update_bucket", "delete_bucket", "buckets",
         "get_event", "get_events", "get_eventcount", "insert_one", "insert_many", "delete", "replace_last"]
ERRS = {"KeyError", "ValueError", "IndexError", "AttributeError", "TypeError"}
META_KEYS = {"type": "set_type", "client": "set_client", "hostname": "set_hostname",
             "name": "(fun m_ v_ => set_name m_ (Some v_))", "data": "set_mdata"}
CMP = {ast.LtE: "<=?", ast.Lt: "<?", ast.GtE: ">=?", ast.Gt: ">?", ast.Eq: "=?"}
STATE = "(mkPyMem db md)"


def _is_self_attr(e, attr):
    return isinstance(e, ast.Attribute) and isinstance(e.value, ast.Name) and e.value.id == "self" and e.attr == attr


def _dict_of(e):
    """self.db -> 'db', self._metadata -> 'md'"""
    if _is_self_attr(e, "db"):
        return "db"
    if _is_self_attr(e, "_metadata"):
        return "md"
    return None


def _is_deepcopy(e):
    return (isinstance(e, ast.Call) and isinstance(e.func, ast.Attribute) and e.func.attr == "deepcopy"
            and isinstance(e.func.value, ast.Name) and e.func.value.id == "copy" and len(e.args) == 1
            and not e.keywords)


def _self_call(e):
    if (isinstance(e, ast.Call) and isinstance(e.func, ast.Attribute) and isinstance(e.func.value, ast.Name)
            and e.func.value.id == "self" and not e.keywords):
        return e.func.attr
    return None


class Tr:
    def __init__(self, name, fn):
        self.name = name
        self.fn = fn
        self.n = 0
        self.ret_ty = SIG[name][1]
        self.in_loop = 0

    def fresh(self, base):
        self.n += 1
        return f"{base}_{self.n}"

    # ---- coercions
    def coerce(self, text, ty, want):
        if ty == want:
            return text
        if want in ("optid", "optlabel", "opttime") and ty in ("Z", "label"):
            return f"(Some {text})"
        if want in ("optid", "optlabel", "opttime") and ty in ("optid", "optlabel", "opttime"):
            return text
        if want in ("Z", "label") and ty in ("Z", "label"):
            return text
        if want == "pyint" and ty == "Z":
            return f"(PInt {text})"
        if want == "optevent" and ty == "event":
            return f"(Some {text})"
        if want in ("optevent", "optid", "optlabel", "opttime") and ty == "none":
            return "None"
        if want == "label" and ty == "emptydict":
            return "0"
        if want in ("events", "bmap") and ty == "emptylist":
            return "[]"
        if want == "bmap" and ty == "emptydict":
            return "[]"
        raise Fail(f"{self.name}: cannot use a value of type {ty} as {want}")

    def join_ty(self, a, b):
        if a == b:
            return a
        for x, y in ((a, b), (b, a)):
            if x == "pyint" and y == "Z":
                return "pyint"
            if x in ("optlabel", "optid", "opttime") and y in ("Z", "label"):
                return x
            if x == "label" and y in ("Z", "emptydict"):
                return "label"
            if x == "optevent" and y in ("event", "none"):
                return "optevent"
        raise Fail(f"{self.name}: a variable holds a {a} on one path and a {b} on another")

    # ---- wrapping of raising sub-expressions
    def wrap(self, pre, inner):
        for var, kind, text, cls in reversed(pre):
            if kind == "opt":
                inner = f"match {text} with\n  | Some {var} => {inner}\n  | None => ({STATE}, Err {cls})\n  end"
            else:
                inner = (f"match {text} with\n  | Ok {var} => {inner}\n  | Err k_ => ({STATE}, Err k_)\n"
                         f"  | OutOfFuel => ({STATE}, OutOfFuel)\n  end")
        return inner

    def lookup(self, d, key, pre):
        var = self.fresh("es" if d == "db" else "m")
        pre.append((var, "opt", f"aget {key} {d}", "KeyError"))
        return var, ("events" if d == "db" else "meta")

    # ---- expressions
    def lam(self, target, env, ty):
        if not isinstance(target, ast.Name):
            raise Fail(f"{self.name}: unsupported binder")
        env2 = dict(env)
        env2[target.id] = (target.id, ty)
        return target.id, env2

    def enum_rev(self, gen, env, pre):
        """`for idx, event in reversed(list(enumerate(L))) if C` -> (idx name, elt name, L text, C text)"""
        if gen.is_async or len(gen.ifs) != 1:
            raise Fail(f"{self.name}: unsupported comprehension")
        t, it = gen.target, gen.iter
        if not (isinstance(t, ast.Tuple) and len(t.elts) == 2 and all(isinstance(x, ast.Name) for x in t.elts)):
            raise Fail(f"{self.name}: comprehension target is not `idx, event`")
        def c1(x, f):
            return (isinstance(x, ast.Call) and isinstance(x.func, ast.Name) and x.func.id == f and f not in env
                    and len(x.args) == 1 and not x.keywords)
        if not (c1(it, "reversed") and c1(it.args[0], "list") and c1(it.args[0].args[0], "enumerate")):
            raise Fail(f"{self.name}: iterable is not reversed(list(enumerate(...)))")
        ltext, lty = self.expr(it.args[0].args[0].args[0], env, pre)
        if lty != "events":
            raise Fail(f"{self.name}: enumerate over a non-list")
        idx, ev = t.elts[0].id, t.elts[1].id
        env2 = dict(env)
        env2.pop(idx, None)
        env2[ev] = (ev, "event")
        return idx, ev, ltext, self.bexpr(gen.ifs[0], env2)

    def expr(self, e, env, pre):
        """-> (Gallina text, type)"""
        if isinstance(e, ast.Name):
            if e.id in env:
                return env[e.id]
            raise Fail(f"{self.name}: unknown name {e.id}")
        if isinstance(e, ast.Constant):
            if type(e.value) is int:
                return (str(e.value) if e.value >= 0 else f"({e.value})"), "Z"
            if type(e.value) is bool:
                return ("true" if e.value else "false"), "bool"
            if e.value is None:
                return "None", "none"
            raise Fail(f"{self.name}: unsupported constant {e.value!r}")
        if isinstance(e, ast.List) and not e.elts:
            return "[]", "emptylist"
        if isinstance(e, ast.Dict) and not e.keys:
            return "0", "emptydict"
        if isinstance(e, ast.Call) and isinstance(e.func, ast.Name) and e.func.id == "dict" and not e.args \
                and not e.keywords:
            return "0", "emptydict"
        if isinstance(e, ast.Dict):
            return self.meta_dict(e, env, pre)
        if _is_deepcopy(e):
            return self.expr(e.args[0], env, pre)
        if isinstance(e, ast.Attribute):
            if isinstance(e.value, ast.Name) and e.value.id == "sys" and e.attr == "maxsize" and "sys" not in env:
                return "PMaxsize", "pyint"
            if isinstance(e.value, ast.Name) and e.value.id in env and env[e.value.id][1] == "event":
                v = env[e.value.id][0]
                if e.attr == "id":
                    return f"(eid {v})", "optid"
                if e.attr in ("timestamp", "duration"):
                    return f"({'ts' if e.attr == 'timestamp' else 'dur'} {v})", "Z"
            raise Fail(f"{self.name}: unsupported attribute {ast.unparse(e)}")
        if isinstance(e, ast.Subscript):
            d = _dict_of(e.value)
            if d:
                key, kty = self.expr(e.slice, env, pre)
                if kty != "Z":
                    raise Fail(f"{self.name}: dict key is not a bucket id")
                return self.lookup(d, key, pre)
            base, bty = self.expr(e.value, env, pre)
            sl = e.slice
            if bty == "event" and isinstance(sl, ast.Constant) and sl.value in ("timestamp", "duration"):
                return f"({'ts' if sl.value == 'timestamp' else 'dur'} {base})", "Z"
            if bty == "events":
                if isinstance(sl, ast.Constant) and sl.value == 0 and type(sl.value) is int:
                    var = self.fresh("x")
                    pre.append((var, "opt", f"nth_error {base} 0", "IndexError"))
                    return var, "event"
                if isinstance(sl, ast.UnaryOp) and isinstance(sl.op, ast.USub) and isinstance(sl.operand, ast.Constant) \
                        and sl.operand.value == 1 and type(sl.operand.value) is int:
                    var = self.fresh("x")
                    pre.append((var, "opt", f"last_opt {base}", "IndexError"))
                    return var, "event"
                if isinstance(sl, ast.Slice):
                    if sl.lower is None and sl.upper is None and ast.unparse(sl.step) == "-1":
                        return f"(rev {base})", "events"
                    if sl.lower is None and sl.step is None and sl.upper is not None:
                        n, nty = self.expr(sl.upper, env, pre)
                        return f"(py_take {self.coerce(n, nty, 'pyint')} {base})", "events"
            raise Fail(f"{self.name}: unsupported subscript {ast.unparse(e)}")
        if isinstance(e, ast.BinOp) and isinstance(e.op, (ast.Add, ast.Sub)):
            l, lt = self.expr(e.left, env, pre)
            r, rt = self.expr(e.right, env, pre)
            if lt != "Z" or rt != "Z":
                raise Fail(f"{self.name}: arithmetic on non-integers")
            return f"({l} {'+' if isinstance(e.op, ast.Add) else '-'} {r})", "Z"
        if isinstance(e, ast.BoolOp) and isinstance(e.op, ast.Or) and len(e.values) == 2 \
                and isinstance(e.values[1], ast.Constant) and e.values[1].value == 0 and type(e.values[1].value) is int:
            v, vt = self.expr(e.values[0], env, pre)
            if vt != "optid":
                raise Fail(f"{self.name}: `x or 0` on a non-id")
            return f"(py_or0 {v})", "Z"
        if isinstance(e, ast.IfExp):
            a, at = self.expr(e.body, env, pre)
            b, bt = self.expr(e.orelse, env, pre)
            ty = self.join_ty(at, bt)
            if not (isinstance(e.test, ast.Name) and e.test.id in env and env[e.test.id][1] == "label"):
                raise Fail(f"{self.name}: unsupported conditional expression")
            return (f"(if truthy {env[e.test.id][0]} then {self.coerce(a, at, ty)} else {self.coerce(b, bt, ty)})", ty)
        if isinstance(e, ast.ListComp):
            if len(e.generators) != 1:
                raise Fail(f"{self.name}: nested comprehension")
            g = e.generators[0]
            if isinstance(g.target, ast.Tuple):
                idx, ev, ltext, c = self.enum_rev(g, env, pre)
                if not (isinstance(e.elt, ast.Name) and e.elt.id == ev):
                    raise Fail(f"{self.name}: comprehension does not yield the element")
                return f"(rev_matching (fun {ev} => {c}) {ltext})", "events"
            it, ity = self.expr(g.iter, env, pre)
            if ity != "events" or g.is_async or len(g.ifs) != 1:
                raise Fail(f"{self.name}: unsupported list comprehension")
            v, env2 = self.lam(g.target, env, "event")
            if not (isinstance(e.elt, ast.Name) and e.elt.id == v):
                raise Fail(f"{self.name}: comprehension does not yield its variable")
            return f"(filter (fun {v} => {self.bexpr(g.ifs[0], env2)}) {it})", "events"
        if isinstance(e, ast.Compare) or (isinstance(e, ast.BoolOp)) or \
                (isinstance(e, ast.UnaryOp) and isinstance(e.op, ast.Not)):
            return self.bexpr(e, env), "bool"
        if isinstance(e, ast.Call) and isinstance(e.func, ast.Name) and not e.keywords and len(e.args) == 1:
            f, a = e.func.id, e.args[0]
            if f in env:
                raise Fail(f"{self.name}: builtin {f} is shadowed")
            if f == "len":
                v, vt = self.expr(a, env, pre)
                if vt != "events":
                    raise Fail(f"{self.name}: len of a non-list")
                return f"(Z.of_nat (length {v}))", "Z"
            if f == "int":
                v, vt = self.expr(a, env, pre)
                if vt != "Z":
                    raise Fail(f"{self.name}: int() of a non-integer")
                return v, "Z"
            if f == "max" and isinstance(a, ast.GeneratorExp) and len(a.generators) == 1:
                g = a.generators[0]
                it, ity = self.expr(g.iter, env, pre)
                if ity != "events" or g.ifs or g.is_async:
                    raise Fail(f"{self.name}: unsupported max(...)")
                v, env2 = self.lam(g.target, env, "event")
                pre2 = []
                body, bty = self.expr(a.elt, env2, pre2)
                if pre2 or bty != "Z":
                    raise Fail(f"{self.name}: unsupported element of max(...)")
                var = self.fresh("mx")
                pre.append((var, "res", f"py_max (map (fun {v} => {body}) {it})", None))
                return var, "Z"
        if isinstance(e, ast.Call) and isinstance(e.func, ast.Name) and e.func.id == "sorted" and len(e.args) == 1 \
                and len(e.keywords) == 1 and e.keywords[0].arg == "key" and isinstance(e.keywords[0].value, ast.Lambda) \
                and "sorted" not in env:
            lst, lty = self.expr(e.args[0], env, pre)
            lm = e.keywords[0].value
            if lty != "events" or len(lm.args.args) != 1 or lm.args.defaults or lm.args.kwonlyargs:
                raise Fail(f"{self.name}: unsupported sorted(...)")
            v = lm.args.args[0].arg
            env2 = dict(env)
            env2[v] = (v, "event")
            pre2 = []
            body, bty = self.expr(lm.body, env2, pre2)
            if pre2 or bty != "Z":
                raise Fail(f"{self.name}: unsupported sort key")
            return f"(sort_by (fun {v} => {body}) {lst})", "events"
        raise Fail(f"{self.name}: unsupported expression {ast.unparse(e)[:60]}")

    def meta_dict(self, e, env, pre):
        items = {}
        for k, v in zip(e.keys, e.values):
            if not (isinstance(k, ast.Constant) and isinstance(k.value, str)) or k.value in items:
                raise Fail(f"{self.name}: metadata dict key")
            items[k.value] = v
        if set(items) != {"id", "name", "type", "client", "hostname", "created", "data"}:
            raise Fail(f"{self.name}: metadata dict has keys {sorted(items)}")
        out = {}
        for key, want in (("type", "Z"), ("client", "Z"), ("hostname", "Z"), ("created", "Z"), ("name", "optlabel"),
                          ("data", "label")):
            t, ty = self.expr(items[key], env, pre)
            out[key] = self.coerce(t, ty, want)
        idt, idty = self.expr(items["id"], env, pre)
        self.last_meta_id = idt
        return (f"(mkMeta {out['type']} {out['client']} {out['hostname']} {out['created']} {out['name']} {out['data']})",
                "meta")

    def bexpr(self, e, env):
        """pure boolean expressions (no raising sub-expression)"""
        if isinstance(e, ast.BoolOp):
            if isinstance(e.op, ast.Or) and len(e.values) == 2 and isinstance(e.values[0], ast.UnaryOp) \
                    and isinstance(e.values[0].op, ast.Not) and isinstance(e.values[0].operand, ast.Name) \
                    and env.get(e.values[0].operand.id, ("", ""))[1] == "opttime":
                nm = e.values[0].operand.id
                g = env[nm][0]
                env2 = dict(env)
                env2[nm] = (nm + "_v", "Z")
                return f"(match {g} with None => true | Some {nm}_v => {self.bexpr(e.values[1], env2)} end)"
            op = " && " if isinstance(e.op, ast.And) else " || "
            return "(" + op.join(self.bexpr(v, env) for v in e.values) + ")"
        if isinstance(e, ast.UnaryOp) and isinstance(e.op, ast.Not):
            return f"(negb {self.bexpr(e.operand, env)})"
        if isinstance(e, ast.Name) and e.id in env:
            g, ty = env[e.id]
            if ty == "bool":
                return g
            if ty == "label":
                return f"(truthy {g})"
            if ty == "optlabel":
                return f"(opt_truthy {g})"
            if ty == "opttime":
                return f"(not_none {g})"
            raise Fail(f"{self.name}: truth value of a {ty}")
        if isinstance(e, ast.Compare):
            parts = []
            left = e.left
            for op, right in zip(e.ops, e.comparators):
                pre = []
                l, lt = self.expr(left, env, pre)
                r, rt = self.expr(right, env, pre)
                if pre:
                    raise Fail(f"{self.name}: raising expression inside a condition")
                if isinstance(op, (ast.Is, ast.IsNot)) and rt == "none" and lt in ("optid", "optlabel", "opttime", "optevent"):
                    t = f"(match {l} with None => true | Some _ => false end)"
                    parts.append(t if isinstance(op, ast.Is) else f"(negb {t})")
                elif isinstance(op, ast.Eq) and "optid" in (lt, rt):
                    parts.append(f"(option_eqb Z.eqb {self.coerce(l, lt, 'optid')} {self.coerce(r, rt, 'optid')})")
                elif type(op) in CMP and lt == "Z" and rt == "Z":
                    parts.append(f"({l} {CMP[type(op)]} {r})")
                elif isinstance(op, ast.In) and _dict_of(right):
                    raise Fail("internal")
                else:
                    raise Fail(f"{self.name}: unsupported comparison {ast.unparse(e)}")
                left = right
            return parts[0] if len(parts) == 1 else "(" + " && ".join(parts) + ")"
        raise Fail(f"{self.name}: unsupported condition {ast.unparse(e)[:60]}")

    # ---- conditions of `if` statements: branch(test, env, then_fn, else_fn)
    def branch(self, test, env, then_fn, else_fn):
        neg = False
        while isinstance(test, ast.UnaryOp) and isinstance(test.op, ast.Not):
            neg = not neg
            test = test.operand
        if neg:
            then_fn, else_fn = else_fn, then_fn
        if isinstance(test, ast.Name) and test.id in env and env[test.id][1] in ("opttime", "optlabel"):
            g, ty = env[test.id]
            v = test.id + "_v"
            env2 = dict(env)
            env2[test.id] = (v, "Z" if ty == "opttime" else "label")
            # after the swap above then_fn is whatever runs when the value is truthy (narrowed), else_fn when falsy
            if ty == "opttime":
                return f"match {g} with\n  | Some {v} => {then_fn(env2)}\n  | None => {else_fn(env)}\n  end"
            return (f"match {g} with\n  | Some {v} => if truthy {v} then {then_fn(env2)} else {else_fn(env)}\n"
                    f"  | None => {else_fn(env)}\n  end")
        pre = []
        if isinstance(test, ast.Subscript) and _dict_of(test.value) == "db":
            es, _ = self.expr(test, env, pre)
            c = f"list_truthy {es}"
        elif isinstance(test, ast.Compare) and len(test.ops) == 1 and isinstance(test.ops[0], (ast.In, ast.NotIn)) \
                and _dict_of(test.comparators[0]):
            k, kty = self.expr(test.left, env, pre)
            if kty != "Z" or pre:
                raise Fail(f"{self.name}: unsupported membership test")
            c = f"ain {k} {_dict_of(test.comparators[0])}"
            if isinstance(test.ops[0], ast.NotIn):
                c = f"negb ({c})"
        elif isinstance(test, ast.Compare) and len(test.ops) == 1 and isinstance(test.ops[0], (ast.Is, ast.IsNot)) \
                and isinstance(test.comparators[0], ast.Constant) and test.comparators[0].value is None:
            l, lt = self.expr(test.left, env, pre)
            if pre or lt not in ("optid", "optlabel", "opttime", "optevent"):
                raise Fail(f"{self.name}: `is None` on a {lt}")
            a, b = then_fn(env), else_fn(env)
            if isinstance(test.ops[0], ast.Is):
                a, b = b, a
            return f"match {l} with\n  | Some _ => {a}\n  | None => {b}\n  end"
        else:
            c = self.bexpr(test, env)
        return self.wrap(pre, f"if {c} then {then_fn(env)} else {else_fn(env)}")

    # ---- statements
    def falls(self, body):
        """can control fall off the end of this block?"""
        for s in body:
            if isinstance(s, (ast.Return, ast.Raise)):
                return False
            if isinstance(s, ast.If) and not self.falls(s.body) and not self.falls(s.orelse):
                return False
            if isinstance(s, ast.For) and self.always_returns(s.body) and False:
                return False
        return True

    def always_returns(self, body):
        return bool(body) and not self.falls(body)

    def assigned(self, body):
        """python locals (and 'db' / 'md') a block may (re)bind"""
        out = []

        def add(x):
            if x not in out:
                out.append(x)
        for s in body:
            for n in ast.walk(s):
                if isinstance(n, (ast.Assign, ast.AugAssign, ast.Delete)):
                    tgts = n.targets if not isinstance(n, ast.AugAssign) else [n.target]
                    for t in tgts:
                        base = t
                        while isinstance(base, (ast.Subscript, ast.Attribute)) and not _dict_of(base):
                            base = base.value
                        d = _dict_of(base)
                        if d:
                            add(d)
                        elif isinstance(base, ast.Name):
                            add(base.id)
                        else:
                            raise Fail(f"{self.name}: unsupported assignment target")
                elif isinstance(n, ast.Call):
                    if _self_call(n):
                        add("db")
                        add("md")
                    elif isinstance(n.func, ast.Attribute) and n.func.attr in ("append", "pop"):
                        base = n.func.value
                        while isinstance(base, ast.Subscript) and not _dict_of(base):
                            base = base.value
                        d = _dict_of(base)
                        if not d:
                            raise Fail(f"{self.name}: mutation of a local list")
                        add(d)
        return out

    def ret(self, text):
        if self.in_loop:
            raise Fail(f"{self.name}: return inside a loop that goes on")
        return f"({STATE}, Ok {text})"

    def call(self, e, env, bind, cont):
        m = _self_call(e)
        if m not in SIG:
            raise Fail(f"{self.name}: call of unknown method self.{m}")
        ptys, rty = SIG[m]
        if len(e.args) != len(ptys):
            raise Fail(f"{self.name}: self.{m} called with {len(e.args)} arguments")
        pre = []
        args = []
        for a, want in zip(e.args, ptys):
            t, ty = self.expr(a, env, pre)
            args.append(self.coerce(t, ty, want))
        env2 = dict(env)
        r = "r_"
        if bind:
            env2[bind] = (bind, rty)
            r = bind
        self.calls.add(m)
        inner = (f"match gen_mem_{m} {STATE} {' '.join(args)} with\n"
                 f"  | (s_, Ok {r}) => let db := py_db s_ in let md := py_md s_ in {cont(env2)}\n"
                 f"  | (s_, Err k_) => (s_, Err k_)\n  | (s_, OutOfFuel) => (s_, OutOfFuel)\n  end")
        return self.wrap(pre, inner)

    def stmts(self, body, env, k):
        body = [s for s in body if not py2v.is_skippable(s) and not isinstance(s, ast.Pass)]
        if not body:
            return k(env)
        s, rest = body[0], body[1:]

        def cont(env2):
            return self.stmts(rest, env2, k)
        pre = []
        # `target = self.m(..)` / `return self.m(..)` with a compound target: evaluate the call into a temporary first
        if isinstance(s, (ast.Assign, ast.Return)) and s.value is not None and _self_call(s.value) \
                and not (isinstance(s, ast.Assign) and len(s.targets) == 1 and isinstance(s.targets[0], ast.Name)):
            tmp = self.fresh("call")
            first = ast.Assign(targets=[ast.Name(id=tmp, ctx=ast.Store())], value=s.value)
            second = (ast.Return(value=ast.Name(id=tmp, ctx=ast.Load())) if isinstance(s, ast.Return)
                      else ast.Assign(targets=s.targets, value=ast.Name(id=tmp, ctx=ast.Load())))
            return self.stmts([first, second] + rest, env, k)
        if isinstance(s, ast.Return):
            if rest:
                raise Fail(f"{self.name}: code after return")
            if s.value is None:
                t, ty = "tt", "unit"
            else:
                t, ty = self.expr(s.value, env, pre)
            if self.ret_ty == "unit" and ty == "none":
                t, ty = "tt", "unit"
            if self.ret_ty == "events" and ty == "emptylist":
                ty = "events"
            return self.wrap(pre, self.ret(self.coerce(t, ty, self.ret_ty)))
        if isinstance(s, ast.Raise):
            exc = s.exc
            if isinstance(exc, ast.Call):
                exc = exc.func
            if not (isinstance(exc, ast.Name) and exc.id in ERRS) or s.cause:
                raise Fail(f"{self.name}: unsupported raise")
            return f"({STATE}, Err {exc.id})"
        if isinstance(s, ast.Expr) and _self_call(s.value):
            return self.call(s.value, env, None, cont)
        if isinstance(s, ast.Assign) and len(s.targets) == 1 and isinstance(s.targets[0], ast.Name) \
                and _self_call(s.value):
            return self.call(s.value, env, s.targets[0].id, cont)
        if isinstance(s, ast.Expr) and isinstance(s.value, ast.Call) and isinstance(s.value.func, ast.Attribute) \
                and s.value.func.attr in ("append", "pop") and isinstance(s.value.func.value, ast.Subscript) \
                and _dict_of(s.value.func.value.value) == "db" and len(s.value.args) == 1 and not s.value.keywords:
            key, kty = self.expr(s.value.func.value.slice, env, pre)
            es, _ = self.lookup("db", key, pre)
            a, aty = self.expr(s.value.args[0], env, pre)
            if s.value.func.attr == "append":
                new = f"({es} ++ [{self.coerce(a, aty, 'event')}])"
            else:
                if aty != "nat":
                    raise Fail(f"{self.name}: pop of a non-index")
                new = f"(list_pop {a} {es})"
            return self.wrap(pre, f"let db := aset {key} {new} db in {cont(env)}")
        if isinstance(s, ast.Delete) and len(s.targets) == 1 and isinstance(s.targets[0], ast.Subscript) \
                and _dict_of(s.targets[0].value):
            d = _dict_of(s.targets[0].value)
            key, kty = self.expr(s.targets[0].slice, env, pre)
            self.lookup(d, key, pre)
            return self.wrap(pre, f"let {d} := adel {key} {d} in {cont(env)}")
        if isinstance(s, ast.Assign) and len(s.targets) == 1:
            t = s.targets[0]
            if isinstance(t, ast.Name):
                if t.id in ("db", "md", "self"):
                    raise Fail(f"{self.name}: local named {t.id}")
                v, ty = self.expr(s.value, env, pre)
                if ty == "none":
                    raise Fail(f"{self.name}: None assigned to a local")
                if ty == "emptydict":
                    v, ty = "[]", "bmap"     # a dict built locally: only the result of buckets()
                if ty not in GT:
                    raise Fail(f"{self.name}: local of unknown type {ty}")
                env2 = dict(env)
                env2[t.id] = (t.id, ty)
                return self.wrap(pre, f"let {t.id} := {v} in {self.stmts(rest, env2, k)}")
            if isinstance(t, ast.Attribute) and t.attr == "id" and isinstance(t.value, ast.Name) \
                    and t.value.id in env and env[t.value.id][1] == "event" and env[t.value.id][0] == t.value.id:
                v, ty = self.expr(s.value, env, pre)
                return self.wrap(pre, f"let {t.value.id} := set_eid {t.value.id} {self.coerce(v, ty, 'optid')} in {cont(env)}")
            if isinstance(t, ast.Subscript):
                d = _dict_of(t.value)
                if d:
                    key, kty = self.expr(t.slice, env, pre)
                    if kty != "Z":
                        raise Fail(f"{self.name}: dict key is not a bucket id")
                    v, ty = self.expr(s.value, env, pre)
                    if d == "md":
                        if ty != "meta" or self.last_meta_id != key:
                            raise Fail(f"{self.name}: the metadata dict stored under {key} carries id {self.last_meta_id}")
                    else:
                        v = self.coerce(v, ty, "events")
                    return self.wrap(pre, f"let {d} := aset {key} {v} {d} in {cont(env)}")
                if isinstance(t.value, ast.Subscript) and _dict_of(t.value.value):
                    d = _dict_of(t.value.value)
                    key, kty = self.expr(t.value.slice, env, pre)
                    cur, _ = self.lookup(d, key, pre)
                    if d == "md":
                        if not (isinstance(t.slice, ast.Constant) and t.slice.value in META_KEYS):
                            raise Fail(f"{self.name}: unknown metadata field {ast.unparse(t.slice)}")
                        v, ty = self.expr(s.value, env, pre)
                        if ty not in ("Z", "label"):
                            raise Fail(f"{self.name}: metadata field set to a {ty}")
                        new = f"({META_KEYS[t.slice.value]} {cur} {v})"
                    else:
                        i, ity = self.expr(t.slice, env, pre)
                        v, ty = self.expr(s.value, env, pre)
                        if ity != "nat":
                            raise Fail(f"{self.name}: list index is not a loop index")
                        new = f"(list_set {i} {self.coerce(v, ty, 'event')} {cur})"
                    return self.wrap(pre, f"let {d} := aset {key} {new} {d} in {cont(env)}")
                if isinstance(t.value, ast.Name) and t.value.id in env and env[t.value.id][1] == "bmap" \
                        and env[t.value.id][0] == t.value.id:
                    key, kty = self.expr(t.slice, env, pre)
                    v, ty = self.expr(s.value, env, pre)
                    if kty != "Z" or ty != "meta":
                        raise Fail(f"{self.name}: unsupported entry of the result dict")
                    return self.wrap(pre, f"let {t.value.id} := aset {key} {v} {t.value.id} in {cont(env)}")
            raise Fail(f"{self.name}: unsupported assignment {ast.unparse(s)[:60]}")
        if isinstance(s, ast.If):
            tf, ef = self.falls(s.body), self.falls(s.orelse)
            trivial_rest = not [x for x in rest if not py2v.is_skippable(x)] and getattr(k, "trivial", False)
            if not (tf and ef) or trivial_rest:
                return self.branch(s.test, env, lambda e2: self.stmts(s.body, e2, cont if tf else self.nofall),
                                   lambda e2: self.stmts(s.orelse, e2, cont if ef else self.nofall))
            # both branches fall through: REST becomes a local function of the variables they assign
            vs = [v for v in self.assigned(s.body) + self.assigned(s.orelse)]
            vs = [v for i, v in enumerate(vs) if v not in vs[:i]]
            seen = []

            def rec(e2):
                seen.append(e2)
                return "_"
            save = self.n
            self.branch(s.test, env, lambda e2: self.stmts(s.body, e2, rec), lambda e2: self.stmts(s.orelse, e2, rec))
            self.n = save
            loc = [v for v in vs if v not in ("db", "md")]
            tys = {}
            for v in loc:
                ts_ = [e2[v][1] for e2 in seen if v in e2]
                if len(ts_) != len(seen):
                    if v in env:
                        ts_.append(env[v][1])
                    else:
                        continue    # a branch-local variable: not visible after the if
                ty = ts_[0]
                for x in ts_[1:]:
                    ty = self.join_ty(ty, x)
                tys[v] = ty
            loc = [v for v in loc if v in tys]
            st = [v for v in vs if v in ("db", "md")]
            env_after = dict(env)
            for v in loc:
                env_after[v] = (v, tys[v])

            def jump(e2):
                vals = [self.coerce(e2[v][0], e2[v][1], tys[v]) for v in loc]
                t = ("(" + ", ".join(vals) + ")") if len(vals) > 1 else (vals[0] if vals else "tt")
                return f"({STATE}, Ok {t})"
            pat = ("'(" + ", ".join(loc) + ")") if len(loc) > 1 else (loc[0] if loc else "_")
            self.in_loop += 1       # a `return` inside the sub-computation is not supported
            sub = self.branch(s.test, env, lambda e2: self.stmts(s.body, e2, jump),
                              lambda e2: self.stmts(s.orelse, e2, jump))
            self.in_loop -= 1
            rest_text = self.stmts(rest, env_after, k)
            return (f"match ({sub}) with\n"
                    f"  | (s_, Ok l_) => let db := py_db s_ in let md := py_md s_ in let {pat} := l_ in {rest_text}\n"
                    f"  | (s_, Err k_) => (s_, Err k_)\n  | (s_, OutOfFuel) => (s_, OutOfFuel)\n  end")
        if isinstance(s, ast.For):
            if s.orelse:
                raise Fail(f"{self.name}: for/else")
            it, elty, var, env_b = self.loop_iter(s, env, pre)
            if self.always_returns(s.body):
                body = self.stmts(s.body, env_b, self.nofall)
                return self.wrap(pre, f"match {it} with\n  | [] => {cont(env)}\n  | {var} :: _ => {body}\n  end")
            carried = [v for v in self.assigned(s.body) if v not in ("db", "md")]
            for v in carried:
                if v not in env:
                    raise Fail(f"{self.name}: loop introduces the local {v}")
                if env[v][0] != v:
                    raise Fail(f"{self.name}: loop-carried {v} is a narrowed name")
            ltype = " * ".join(GT[env[v][1]] for v in carried) if carried else "unit"
            pat = ("'(" + ", ".join(carried) + ")") if len(carried) > 1 else (carried[0] if carried else "_")
            tup = ("(" + ", ".join(carried) + ")") if len(carried) > 1 else (carried[0] if carried else "tt")
            self.in_loop += 1

            def kend(e2):
                vals = [self.coerce(e2[v][0], e2[v][1], env[v][1]) for v in carried]
                t = ("(" + ", ".join(vals) + ")") if len(vals) > 1 else (vals[0] if vals else "tt")
                return f"({STATE}, Ok {t})"
            body = self.stmts(s.body, env_b, kend)
            self.in_loop -= 1
            inner = (f"match py_for (fun (g_ : pymem) (l_ : {ltype}) {var} =>\n"
                     f"      let db := py_db g_ in let md := py_md g_ in let {pat} := l_ in\n      {body})\n"
                     f"    {it} {STATE} {tup} with\n"
                     f"  | (g_, Ok l_) => let db := py_db g_ in let md := py_md g_ in let {pat} := l_ in {cont(env)}\n"
                     f"  | (g_, Err k_) => (g_, Err k_)\n  | (g_, OutOfFuel) => (g_, OutOfFuel)\n  end")
            return self.wrap(pre, inner)
        raise Fail(f"{self.name}: unsupported statement {type(s).__name__}: {ast.unparse(s)[:50]}")

    def nofall(self, env):
        raise Fail(f"{self.name}: internal: fall-through of a block that cannot fall through")

    def loop_iter(self, s, env, pre):
        it = s.iter
        if not isinstance(s.target, ast.Name):
            raise Fail(f"{self.name}: unsupported loop target")
        var = s.target.id
        env_b = dict(env)
        if isinstance(it, ast.GeneratorExp) and len(it.generators) == 1:
            idx, ev, ltext, c = self.enum_rev(it.generators[0], env, pre)
            if not (isinstance(it.elt, ast.Name) and it.elt.id == idx):
                raise Fail(f"{self.name}: the generator does not yield the index")
            env_b[var] = (var, "nat")
            return f"(rev_matching_idx (fun {ev} => {c}) {ltext})", "nat", var, env_b
        if _dict_of(it):
            env_b[var] = (var, "Z")
            return f"(akeys {_dict_of(it)})", "Z", var, env_b
        t, ty = self.expr(it, env, pre)
        if ty == "events":
            env_b[var] = (var, "event")
            return t, "event", var, env_b
        raise Fail(f"{self.name}: unsupported loop iterable")

    def definition(self):
        fn = self.fn
        a = fn.args
        if a.vararg or a.kwarg or a.kwonlyargs or a.posonlyargs:
            raise Fail(f"{self.name}: unsupported parameter kinds")
        names = [x.arg for x in a.args]
        ptys = SIG[self.name][0]
        if names[:1] != ["self"] or len(names) - 1 != len(ptys):
            raise Fail(f"{self.name}: takes {names}, expected self + {len(ptys)} parameters")
        for d in a.defaults:
            if not (isinstance(d, ast.Constant) and d.value is None):
                raise Fail(f"{self.name}: parameter default is not None")
        env = {}
        for n, t in zip(names[1:], ptys):
            if n in ("db", "md", "s", "s_", "g_", "l_", "k_", "r_"):
                raise Fail(f"{self.name}: parameter named {n}")
            env[n] = (n, t)
        self.calls = set()
        self.last_meta_id = None

        def kend(e2):
            if self.ret_ty != "unit":
                raise Fail(f"{self.name}: may fall off its end without returning a value")
            return f"({STATE}, Ok tt)"
        kend.trivial = True
        body = self.stmts(fn.body, env, kend)
        params = "".join(f" ({n} : {GT[t]})" for n, t in zip(names[1:], ptys))
        return (f"Definition gen_mem_{self.name} (s : pymem){params} : pymem * res ({GT[self.ret_ty]}) :=\n"
                f"  let db := py_db s in let md := py_md s in\n  {body}.\n"), names[1:]


def _methods(repo, path, cls):
    tree = ast.parse(open(os.path.join(repo, path)).read())
    for n in tree.body:
        if isinstance(n, ast.ClassDef) and n.name == cls:
            return n, {m.name: m for m in n.body if isinstance(m, ast.FunctionDef)}
    raise Fail(f"class {cls} not found")


def _guard(f):
    def g(repo):
        try:
            return f(repo)
        except Fail:
            raise
        except RecursionError:
            raise Fail("recursion limit")
        except Exception as ex:  # noqa: BLE001 -- fail closed, never crash the shared translator run
            raise Fail(f"{type(ex).__name__}: {ex}")
    return g


# op constructor -> method, arguments of the call in terms of the constructor's fields (by parameter NAME)
STEP = [
    ("CreateBucket b m", "create_bucket", {"bucket_id": "b", "type_id": "(m_type m)", "client": "(m_client m)",
                                          "hostname": "(m_hostname m)", "created": "(m_created m)",
                                          "name": "(m_name m)", "data": "(m_data m)"}, "ONone"),
    ("UpdateBucket b ty cl ho na da", "update_bucket", {"bucket_id": "b", "type_id": "ty", "client": "cl",
                                                        "hostname": "ho", "name": "na", "data": "da"}, "ONone"),
    ("DeleteBucket b", "delete_bucket", {"bucket_id": "b"}, "ONone"),
    ("Buckets", "buckets", {}, "OBuckets r"),
    ("GetMetadata b", "get_metadata", {"bucket_id": "b"}, "OMeta b r"),
    ("InsertOne b e", "insert_one", {"bucket": "b", "bucket_id": "b", "event": "e"}, "OEvent (Some r)"),
    ("InsertMany b es", "insert_many", {"bucket": "b", "bucket_id": "b", "events": "es"}, "ONone"),
    ("Replace b i e", "replace", {"bucket_id": "b", "event_id": "(Some i)", "event": "e"}, "ONone"),
    ("ReplaceLast b e", "replace_last", {"bucket_id": "b", "event": "e"}, "ONone"),
    ("Delete b i", "delete", {"bucket_id": "b", "event_id": "i"}, "OBool r"),
    ("GetEvent b i", "get_event", {"bucket_id": "b", "event_id": "i"}, "OEvent r"),
    ("GetEvents b limit st en", "get_events", {"bucket": "b", "bucket_id": "b", "limit": "limit", "starttime": "st",
                                               "endtime": "en"}, "OEvents r"),
    ("GetEventCount b st en", "get_eventcount", {"bucket": "b", "bucket_id": "b", "starttime": "st", "endtime": "en"},
     "OCount r"),
]


@_guard
def tr_memstore(repo):
    cls, ms = _methods(repo, MEMORY, "MemoryStorage")
    _, abs_ms = _methods(repo, ABSTRACT, "AbstractStorage")
    if [ast.unparse(b) for b in cls.bases] != ["AbstractStorage"]:
        raise Fail("MemoryStorage no longer derives from AbstractStorage only")
    extra = [m for m in ms if m not in SIG and m != "__init__"]
    if extra:
        raise Fail("MemoryStorage has methods the model does not know: " + ", ".join(extra))
    for n in cls.body:
        if not isinstance(n, (ast.FunctionDef, ast.Assign, ast.Expr, ast.AnnAssign)):
            raise Fail(f"unsupported class-level statement {type(n).__name__}")
        if isinstance(n, ast.FunctionDef) and n.decorator_list:
            raise Fail(f"{n.name}: decorated method")
    init = [ast.unparse(s) for s in ms["__init__"].body
            if not py2v.is_skippable(s)] if "__init__" in ms else []
    want = {"self.db: Dict[str, List[Event]] = {}", "self._metadata: Dict[str, dict] = dict()",
            "self.logger = logger.getChild(self.sid)"}
    norm = {s.replace("dict()", "{}").split(":")[0].split("=")[0].strip() + " = " + s.split("=")[-1].strip().replace("dict()", "{}")
            for s in init}
    if norm != {"self.db = {}", "self._metadata = {}", "self.logger = logger.getChild(self.sid)"}:
        raise Fail(f"__init__ no longer just creates two empty dicts: {sorted(norm)}")
    del want
    if "insert_many" in ms:
        src = ms
    else:
        src = dict(ms)
        src["insert_many"] = abs_ms.get("insert_many") or (_ for _ in ()).throw(Fail("insert_many not found"))
    out = ["From AwVerif Require Import Model.StoreBase Model.PyMem.\n"]
    pnames = {}
    for m in ORDER:
        if m not in src:
            raise Fail(f"method {m} not found")
        t = Tr(m, src[m])
        text, names = t.definition()
        for c in t.calls:
            if ORDER.index(c) >= ORDER.index(m):
                raise Fail(f"{m} calls {c}: call order not supported")
        pnames[m] = names
        out.append(text)
    arms = []
    for pat, m, binding, wrap in STEP:
        try:
            args = " ".join(binding[n] for n in pnames[m])
        except KeyError as ex:
            raise Fail(f"{m}: parameter {ex} has no counterpart in the model's op")
        arms.append(f"  | {pat} =>\n      match gen_mem_{m} s {args} with\n      | (s', Ok r) => (s', Ok ({wrap}))\n"
                    f"      | (s', Err k) => (s', Err k)\n      | (s', OutOfFuel) => (s', OutOfFuel)\n      end")
    out.append("Definition gen_mem_step (s : pymem) (o : op) : pymem * res out :=\n  match o with\n"
               + "\n".join(arms) + "\n  end.\n")
    out.append("Definition gen_mem_init : pymem := mkPyMem [] [].\n")
    return "\n".join(out)


KERNELS = {"GenMemStore": [("MemoryStorage", tr_memstore)]}
