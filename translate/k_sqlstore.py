"""Tie B for aw_datastore/storages/sqlite.py (C01, C02, C04, C05, C07): per method of SqliteStorage the
*script* - which SQL statements run in which order, with which parameter expressions in which `?` positions, and
what is done with the result (`rowcount == 1`, `fetchone()`, `lastrowid`, `_rows_to_events`) - translated into
Gallina over Model/SqliteStore.v + Model/PySql.v and written to coq/Gen/GenSqliteStore.v; Bridge/BridgeSqliteStore.v
proves `gen_sq_step = sq_step`.

SQL: every statement text (a string constant, possibly a `+` concatenation, possibly bound to a local first) is
normalised (whitespace collapsed, SQL keywords upper-cased, no space next to punctuation) and looked up in SQL_TABLE,
which names the statement function of the model (`sql_*`) and says which `?` goes to which of its arguments; a text
that is not in the table is refused (fail closed).  The column list of a SELECT (read off the text) gives the
meaning of `row[i]`.  update_bucket builds its UPDATE dynamically; that block is recognised as a whole.
Normalisations (trusted; see notes/agents/TIEBS.md): commit()/conditional_commit() calls and cursor creation are
skipped here (k_commit.py owns them); json.dumps / json.loads are the identity on data labels, `data or {}` and
`row[6] or "{}"` are the label itself (0 is the empty dict); `x.timestamp() * 1000000` is the instant in microseconds
and `datetime.fromtimestamp(us / 1000000, timezone.utc)` its inverse (C01/C03 own the float codec); `(t - _EPOCH) //
_MICROSECOND` is the instant, `d // _MICROSECOND` the duration, given the module constants _EPOCH = 1970-01-01 UTC and
_MICROSECOND = timedelta(microseconds=1) (checked); bucket ids are UNIQUE so `buckets[row[0]] = ...` over the rows
is a map."""
import ast
import os
import re

import py2v
from py2v import Fail

SQLITE = "aw_datastore/storages/sqlite.py"
KEYWORDS = {"select", "from", "where", "and", "or", "order", "by", "desc", "asc", "limit", "insert", "into",
            "values", "update", "set", "delete", "in", "count", "not", "null", "is"}


def norm_sql(s):
    toks = re.findall(r"[A-Za-z_][A-Za-z_0-9.]*|\d+|\S", s)
    out = ""
    for t in toks:
        if t.lower() in KEYWORDS:
            t = t.upper()
        if out and re.match(r"[A-Za-z_0-9?]", t[0]) and re.match(r"[A-Za-z_0-9?]", out[-1]):
            out += " "
        out += t
    return out


BUCKET_COLS = {"id": "(br_id {r})", "name": "(m_name (br_meta {r}))", "type": "(m_type (br_meta {r}))",
               "client": "(m_client (br_meta {r}))", "hostname": "(m_hostname (br_meta {r}))",
               "created": "(m_created (br_meta {r}))", "datastr": "(m_data (br_meta {r}))"}
BUCKET_COL_TY = {"id": "Z", "name": "optZ", "type": "Z", "client": "Z", "hostname": "Z", "created": "Z", "datastr": "Z"}
EVENT_COLS = {"id": "(er_id {r})", "starttime": "(er_start {r})", "endtime": "(er_end {r})", "datastr": "(er_data {r})"}

_T = [
    ("SELECT id, name, type, client, hostname, created, datastr FROM buckets",
     "rows_b", "(sq_buckets {c})", []),
    ("INSERT INTO buckets(id, name, type, client, hostname, created, datastr) VALUES (?, ?, ?, ?, ?, ?, ?)",
     "res_state", "sql_insert_bucket {c} {0} (mkMeta {2} {3} {4} {5} {1} {6})", ["Z", "optZ", "Z", "Z", "Z", "Z", "Z"]),
    ("DELETE FROM events WHERE bucketrow IN (SELECT rowid FROM buckets WHERE id = ?)",
     "state", "sql_delete_events_of {c} {0}", ["Z"]),
    ("DELETE FROM buckets WHERE id = ?", "state_count", "sql_delete_bucket {c} {0}", ["Z"]),
    ("SELECT id, name, type, client, hostname, created, datastr FROM buckets WHERE id = ?",
     "first_b", "sql_select_bucket {c} {0}", ["Z"]),
    ("INSERT INTO events(bucketrow, starttime, endtime, datastr) VALUES ((SELECT rowid FROM buckets WHERE id = ?), ?, ?, ?)",
     "res_state_id", "sql_insert_event {c} {0} (cells_event {1} {2} {3})", ["Z", "Z", "Z", "Z"]),
    ("""UPDATE events SET starttime = ?, endtime = ?, datastr = ? WHERE id = (SELECT id FROM events WHERE bucketrow =
        (SELECT rowid FROM buckets WHERE id = ?) ORDER BY starttime DESC, id DESC LIMIT 1)""",
     "state", "sql_update_newest {c} {3} (cells_event {0} {1} {2})", ["Z", "Z", "Z", "Z"]),
    ("DELETE FROM events WHERE id = ? AND bucketrow = (SELECT b.rowid FROM buckets b WHERE b.id = ?)",
     "state_count", "sql_delete_event {c} {1} {0}", ["Z", "Z"]),
    ("UPDATE events SET starttime = ?, endtime = ?, datastr = ? WHERE id = ? AND bucketrow = (SELECT rowid FROM buckets WHERE id = ?)",
     "state", "sql_update_event_n {c} {4} {3} (cells_event {0} {1} {2})", ["Z", "Z", "Z", "optZ", "Z"]),
    ("SELECT id, starttime, endtime, datastr FROM events WHERE bucketrow = (SELECT rowid FROM buckets WHERE id = ?) AND id = ? LIMIT 1",
     "rows_e", "(sql_select_event {c} {0} {1})", ["Z", "Z"]),
    ("""SELECT id, starttime, endtime, datastr FROM events WHERE bucketrow = (SELECT rowid FROM buckets WHERE id = ?)
        AND endtime >= ? AND starttime <= ? ORDER BY starttime DESC, id DESC LIMIT ?""",
     "rows_e", "(sql_select_events {c} {0} {1} {2} {3})", ["Z", "Z", "Z", "Z"]),
    ("SELECT count(*) FROM events WHERE bucketrow = (SELECT rowid FROM buckets WHERE id = ?) AND endtime >= ? AND starttime <= ?",
     "count", "(sql_count_events {c} {0} {1} {2})", ["Z", "Z", "Z"]),
]
SQL_TABLE = {norm_sql(t): (kind, tpl, ptys) for t, kind, tpl, ptys in _T}

GT = {"Z": "Z", "optZ": "option Z", "opttime": "option Z", "event": "Prelude.event", "events": "list Prelude.event"}
# method -> types of the parameters after self
SIG = {
    "buckets": [], "create_bucket": ["Z", "Z", "Z", "Z", "Z", "optZ", "Z"],
    "update_bucket": ["Z", "optZ", "optZ", "optZ", "optZ", "optZ"], "delete_bucket": ["Z"], "get_metadata": ["Z"],
    "insert_one": ["Z", "event"], "insert_many": ["Z", "events"], "replace_last": ["Z", "event"],
    "delete": ["Z", "Z"], "_replace": ["Z", "optZ", "event"], "replace": ["Z", "optZ", "event"], "get_event": ["Z", "Z"],
    "get_events": ["Z", "Z", "opttime", "opttime"], "get_eventcount": ["Z", "opttime", "opttime"],
}
ORDER = ["get_metadata", "_replace", "replace", "buckets", "create_bucket", "update_bucket", "delete_bucket", "insert_one",
         "insert_many", "replace_last", "delete", "get_event", "get_events", "get_eventcount"]
NOT_MODELLED = {"__init__", "commit", "conditional_commit"}
UPDATE_COLS = ["type", "client", "hostname", "name", "datastr"]     # argument order of sql_update_bucket
ERRS = {"KeyError", "ValueError", "IndexError", "AttributeError", "TypeError"}
CMP = {ast.LtE: "<=?", ast.Lt: "<?", ast.GtE: ">=?", ast.Gt: ">?", ast.Eq: "=?"}


def _is_self_attr(e, attr):
    return isinstance(e, ast.Attribute) and isinstance(e.value, ast.Name) and e.value.id == "self" and e.attr == attr


def _call(e, recv_pred, meth):
    return (isinstance(e, ast.Call) and isinstance(e.func, ast.Attribute) and e.func.attr == meth
            and recv_pred(e.func.value))


def _json(e, fn):
    return (isinstance(e, ast.Call) and isinstance(e.func, ast.Attribute) and e.func.attr == fn
            and isinstance(e.func.value, ast.Name) and e.func.value.id == "json" and len(e.args) == 1 and not e.keywords)


class SqTr:
    def __init__(self, name, fn, consts):
        self.name, self.fn, self.consts = name, fn, consts
        self.strings = {}
        self.cursors = set()
        self.n = 0
        self.calls = set()
        self.in_loop = False

    def fresh(self, b):
        self.n += 1
        return f"{b}_{self.n}"

    def fail(self, msg):
        raise Fail(f"{self.name}: {msg}")

    # ---- SQL text
    def sql_text(self, e):
        if isinstance(e, ast.Constant) and isinstance(e.value, str):
            return e.value
        if isinstance(e, ast.Name) and e.id in self.strings:
            return self.strings[e.id]
        if isinstance(e, ast.BinOp) and isinstance(e.op, ast.Add):
            return self.sql_text(e.left) + self.sql_text(e.right)
        self.fail("SQL text is not a string constant")

    def lookup_sql(self, e):
        key = norm_sql(self.sql_text(e))
        if key not in SQL_TABLE:
            self.fail(f"SQL statement not in the table: {key}")
        return key, SQL_TABLE[key]

    @staticmethod
    def select_cols(key):
        m = re.match(r"SELECT (.*?) FROM (\w+)", key)
        cols = [c.strip() for c in m.group(1).split(",")]
        return cols, m.group(2)

    def coerce(self, text, ty, want):
        if ty == want or (ty, want) in (("label", "Z"), ("Z", "label"), ("opttime", "optZ"), ("optZ", "opttime")):
            return text
        if want == "optZ" and ty == "Z":
            return f"(Some {text})"
        if want == "optZ" and ty == "none":
            return "None"
        self.fail(f"cannot use a {ty} as {want}")

    # ---- expressions: -> (text, type [, extra])
    def expr(self, e, env):
        if isinstance(e, ast.Name):
            if e.id in env:
                return env[e.id][0], env[e.id][1]
            if e.id in self.consts:
                return self.consts[e.id], "Z"
            self.fail(f"unknown name {e.id}")
        if isinstance(e, ast.Constant):
            if type(e.value) is int:
                return str(e.value), "Z"
            if type(e.value) is bool:
                return ("true" if e.value else "false"), "bool"
            if e.value is None:
                return "None", "none"
            self.fail(f"unsupported constant {e.value!r}")
        if isinstance(e, ast.UnaryOp) and isinstance(e.op, ast.USub) and isinstance(e.operand, ast.Constant) \
                and type(e.operand.value) is int:
            return f"(-{e.operand.value})", "Z"
        if isinstance(e, ast.List) and not e.elts:
            return "[]", "emptylist"
        if isinstance(e, ast.Dict) and not e.keys:
            return "[]", "emptydict"
        if isinstance(e, ast.Attribute) and isinstance(e.value, ast.Name) and e.value.id in env:
            v, ty = env[e.value.id][0], env[e.value.id][1]
            if ty == "event" and e.attr == "id":
                return f"(eid {v})", "optZ"
            if ty == "event" and e.attr == "data":
                return f"(data {v})", "Z"
            if ty == "cursor" and e.attr in ("rowcount", "lastrowid"):
                res = env[e.value.id][2]
                if res is None or res[0] != e.attr:
                    self.fail(f"{e.value.id}.{e.attr} without a statement that defines it")
                return res[1], "Z"
        if _json(e, "dumps"):
            a = e.args[0]
            # json.dumps(data or {}): the label itself
            if isinstance(a, ast.BoolOp) and isinstance(a.op, ast.Or) and len(a.values) == 2 \
                    and isinstance(a.values[1], ast.Dict) and not a.values[1].keys:
                a = a.values[0]
            t, ty = self.expr(a, env)
            if ty not in ("Z", "optZ"):
                self.fail("json.dumps of a non-label")
            return t, ty
        if _json(e, "loads"):
            a = e.args[0]
            if isinstance(a, ast.BoolOp) and isinstance(a.op, ast.Or) and len(a.values) == 2 \
                    and isinstance(a.values[1], ast.Constant) and a.values[1].value == "{}":
                a = a.values[0]
            t, ty = self.expr(a, env)
            if ty != "Z":
                self.fail("json.loads of a non-label")
            return t, ty
        if isinstance(e, ast.IfExp):
            # json.dumps(data) if data is not None else None  -> the optional label itself
            if isinstance(e.orelse, ast.Constant) and e.orelse.value is None and ast.unparse(e.test).endswith(" is not None") \
                    and isinstance(e.test, ast.Compare) and isinstance(e.test.left, ast.Name) and _json(e.body, "dumps") \
                    and ast.unparse(e.body.args[0]) == e.test.left.id:
                t, ty = self.expr(e.test.left, env)
                if ty != "optZ":
                    self.fail("optional json.dumps of a non-optional")
                return t, "optZ"
            # x.timestamp() * 1000000 if x else K
            if isinstance(e.test, ast.Name) and e.test.id in env and env[e.test.id][1] == "opttime" \
                    and ast.unparse(e.body) == f"{e.test.id}.timestamp() * 1000000":
                k, kty = self.expr(e.orelse, env)
                if kty != "Z":
                    self.fail("window default is not an integer")
                return f"(match {env[e.test.id][0]} with Some t_ => t_ | None => {k} end)", "Z"
            self.fail("unsupported conditional expression " + ast.unparse(e)[:60])
        if isinstance(e, ast.Subscript) and isinstance(e.value, ast.Name) and e.value.id in env:
            v, ty = env[e.value.id][0], env[e.value.id][1]
            if ty in ("row_b", "row_e", "countrow") and isinstance(e.slice, ast.Constant) and type(e.slice.value) is int:
                cols = env[e.value.id][2]
                i = e.slice.value
                if not 0 <= i < len(cols):
                    self.fail(f"row[{i}] out of the SELECT's {len(cols)} columns")
                acc, cty = cols[i]
                return acc.format(r=v), cty
        if isinstance(e, ast.Call) and isinstance(e.func, ast.Name) and e.func.id == "_rows_to_events" and len(e.args) == 1 \
                and not e.keywords:
            t, ty = self.expr(e.args[0], env)
            if ty != "rows_e":
                self.fail("_rows_to_events of something that is not an events cursor")
            return f"(gen_rows_to_events {t})", "events"
        if isinstance(e, ast.ListComp) and len(e.generators) == 1:
            g = e.generators[0]
            it, ity = self.expr(g.iter, env)
            if ity != "events" or len(g.ifs) != 1 or not isinstance(g.target, ast.Name) \
                    or not (isinstance(e.elt, ast.Name) and e.elt.id == g.target.id):
                self.fail("unsupported list comprehension")
            env2 = dict(env)
            env2[g.target.id] = (g.target.id, "event")
            return f"(filter (fun {g.target.id} => {self.bexpr(g.ifs[0], env2)}) {it})", "events"
        if isinstance(e, ast.Compare):
            return self.bexpr(e, env), "bool"
        self.fail("unsupported expression " + ast.unparse(e)[:70])

    def bexpr(self, e, env):
        if isinstance(e, ast.Compare) and len(e.ops) == 1:
            op, r = e.ops[0], e.comparators[0]
            l, lt = self.expr(e.left, env)
            if isinstance(op, (ast.Is, ast.IsNot)) and isinstance(r, ast.Constant) and r.value is None:
                if lt not in ("optZ", "opttime"):
                    self.fail(f"`is None` on a {lt}")
                t = f"(match {l} with None => true | Some _ => false end)"
                return t if isinstance(op, ast.Is) else f"(negb {t})"
            rt_, rty = self.expr(r, env)
            if lt == "Z" and rty == "Z":
                if type(op) in CMP:
                    return f"({l} {CMP[type(op)]} {rt_})"
                if isinstance(op, ast.NotEq):
                    return f"(negb ({l} =? {rt_}))"
        self.fail("unsupported condition " + ast.unparse(e)[:60])

    def meta_dict(self, e, env):
        """{"id": .., "name": .., ...} -> (id text, mkMeta text)"""
        items = {}
        for k, v in zip(e.keys, e.values):
            if not (isinstance(k, ast.Constant) and isinstance(k.value, str)) or k.value in items:
                self.fail("metadata dict key")
            items[k.value] = v
        if set(items) != {"id", "name", "type", "client", "hostname", "created", "data"}:
            self.fail(f"metadata dict has keys {sorted(items)}")
        out = {}
        for key, want in (("type", "Z"), ("client", "Z"), ("hostname", "Z"), ("created", "Z"), ("name", "optZ"),
                          ("data", "Z"), ("id", "Z")):
            t, ty = self.expr(items[key], env)
            out[key] = self.coerce(t, ty, want)
        return out["id"], (f"(mkMeta {out['type']} {out['client']} {out['hostname']} {out['created']} {out['name']} "
                           f"{out['data']})")

    # ---- execute
    def execute(self, call, env):
        """-> (sql key, kind, statement text with parameters filled in)"""
        if call.keywords or not 1 <= len(call.args) <= 2:
            self.fail("unsupported execute(...) call")
        key, (kind, tpl, ptys) = self.lookup_sql(call.args[0])
        params = []
        if len(call.args) == 2:
            p = call.args[1]
            if not isinstance(p, (ast.List, ast.Tuple)):
                self.fail("statement parameters are not a list / tuple literal")
            params = list(p.elts)
        if len(params) != len(ptys):
            self.fail(f"{len(params)} parameters for {len(ptys)} placeholders")
        args = []
        for a, want in zip(params, ptys):
            t, ty = self.expr(a, env)
            args.append(self.coerce(t, ty, want))
        return key, kind, tpl.format(*args, c="st")

    def is_conn(self, e):
        return _is_self_attr(e, "conn") or (isinstance(e, ast.Name) and e.id in self.cursors)

    def bind_result(self, key, kind, text, target, env, cont):
        """emit the statement, bind what it returns to the python name `target` (or to the cursor it ran on)"""
        env2 = dict(env)
        err = "(st, Err k_)\n  | OutOfFuel => (st, OutOfFuel)\n  end"
        if kind == "state":
            if target:
                env2[target] = (target, "cursor", None)
            return f"let st := {text} in\n  {cont(env2)}"
        if kind == "state_count":
            v = self.fresh("rowcount")
            if target:
                env2[target] = (target, "cursor", ("rowcount", v))
            return f"let '(st, {v}) := {text} in\n  {cont(env2)}"
        if kind == "res_state":
            return f"match {text} with\n  | Ok st => {cont(env2)}\n  | Err k_ => {err}"
        if kind == "res_state_id":
            v = self.fresh("lastrowid")
            if target:
                env2[target] = (target, "cursor", ("lastrowid", v))
            return f"match {text} with\n  | Ok (st, {v}) => {cont(env2)}\n  | Err k_ => {err}"
        cols, table = self.select_cols(key)
        if kind == "rows_e":
            if not target:
                self.fail("result of a SELECT is dropped")
            v = self.fresh("rows")
            env2[target] = (v, "rows_e", [(EVENT_COLS[c], "Z") for c in cols])
            return f"let {v} := {text} in\n  {cont(env2)}"
        if kind == "first_b":
            if not target:
                self.fail("result of a SELECT is dropped")
            v = self.fresh("first")
            env2[target] = (v, "first_b", [(BUCKET_COLS[c], BUCKET_COL_TY[c]) for c in cols])
            return f"let {v} := {text} in\n  {cont(env2)}"
        if kind == "count":
            if not target:
                self.fail("result of a SELECT is dropped")
            v = self.fresh("cnt")
            env2[target] = (v, "first_count", None)
            return f"let {v} := {text} in\n  {cont(env2)}"
        self.fail(f"statement kind {kind} not usable here")

    # ---- statements
    def ret(self, e, env):
        if self.in_loop:
            self.fail("return inside a loop")
        if e is None or (isinstance(e, ast.Constant) and e.value is None):
            return "(st, Ok (OEvent None))" if self.name == "get_event" else "(st, Ok ONone)"
        if isinstance(e, ast.Dict) and e.keys:
            i, m = self.meta_dict(e, env)
            return f"(st, Ok (OMeta {i} {m}))"
        if isinstance(e, ast.Call) and isinstance(e.func, ast.Attribute) and isinstance(e.func.value, ast.Name) \
                and e.func.value.id == "self" and e.func.attr in SIG and not e.keywords:
            return self.self_call(e, env)
        if isinstance(e, ast.Subscript) and isinstance(e.value, ast.Name) and e.value.id in env \
                and env[e.value.id][1] == "events" and isinstance(e.slice, ast.Constant) and e.slice.value == 0 \
                and type(e.slice.value) is int:
            return (f"match nth_error {env[e.value.id][0]} 0 with\n  | Some x_ => (st, Ok (OEvent (Some x_)))\n"
                    f"  | None => (st, Err IndexError)\n  end")
        t, ty = self.expr(e, env)
        if ty == "bool":
            return f"(st, Ok (OBool {t}))"
        if ty == "event":
            return f"(st, Ok (OEvent (Some {t})))"
        if ty == "events":
            return f"(st, Ok (OEvents {t}))"
        if ty == "emptylist" and self.name == "get_events":
            return "(st, Ok (OEvents []))"
        if ty == "none" and self.name == "get_event":
            return "(st, Ok (OEvent None))"
        if ty == "bmap":
            return f"(st, Ok (OBuckets {t}))"
        if ty == "Z" and self.name == "get_eventcount":
            return f"(st, Ok (OCount {t}))"
        self.fail(f"unsupported return of a {ty}")

    def self_call(self, e, env):
        m = e.func.attr
        if len(e.args) != len(SIG[m]):
            self.fail(f"self.{m} called with {len(e.args)} arguments")
        args = []
        for a, want in zip(e.args, SIG[m]):
            t, ty = self.expr(a, env)
            args.append(self.coerce(t, ty, want))
        self.calls.add(m)
        return f"gen_sq_{m} st {' '.join(args)}"

    def skip(self, s):
        if py2v.is_skippable(s) or isinstance(s, ast.Pass):
            return True
        if isinstance(s, ast.Expr) and isinstance(s.value, ast.Call) and isinstance(s.value.func, ast.Attribute) \
                and isinstance(s.value.func.value, ast.Name) and s.value.func.value.id == "self" \
                and s.value.func.attr in ("commit", "conditional_commit"):
            return True     # the lazy-commit bookkeeping is k_commit.py's
        if isinstance(s, ast.Assign) and len(s.targets) == 1 and isinstance(s.targets[0], ast.Name) \
                and _call(s.value, lambda r: _is_self_attr(r, "conn"), "cursor") and not s.value.args:
            self.cursors.add(s.targets[0].id)
            return True
        return False

    def terminates(self, body):
        for s in body:
            if isinstance(s, (ast.Return, ast.Raise)):
                return True
            if isinstance(s, ast.If) and self.terminates(s.body) and self.terminates(s.orelse):
                return True
        return False

    def stmts(self, body, env, k):
        body = list(body)
        while body and self.skip(body[0]):
            body.pop(0)
        if not body:
            return k(env)
        s, rest = body[0], body[1:]

        def cont(env2):
            return self.stmts(rest, env2, k)
        if isinstance(s, ast.Return):
            return self.ret(s.value, env)
        if isinstance(s, ast.Raise):
            exc = s.exc.func if isinstance(s.exc, ast.Call) else s.exc
            if not (isinstance(exc, ast.Name) and exc.id in ERRS):
                self.fail("unsupported raise")
            return f"(st, Err {exc.id})"
        if isinstance(s, ast.Try):
            if s.handlers or s.orelse or not s.finalbody:
                self.fail("only try/finally is supported")
            if [x for x in s.finalbody if not self.skip(x)]:
                self.fail("finally block does more than the commit bookkeeping")
            return self.stmts(list(s.body) + rest, env, k)
        # statements on the connection / a cursor
        call, target = None, None
        if isinstance(s, ast.Expr) and isinstance(s.value, ast.Call):
            call = s.value
        elif isinstance(s, ast.Assign) and len(s.targets) == 1 and isinstance(s.targets[0], ast.Name) \
                and isinstance(s.value, ast.Call):
            call, target = s.value, s.targets[0].id
        if call is not None and _call(call, self.is_conn, "execute"):
            recv = call.func.value
            key, kind, text = self.execute(call, env)
            tgt = target or (recv.id if isinstance(recv, ast.Name) else None)
            return self.bind_result(key, kind, text, tgt, env, cont)
        if call is not None and _call(call, self.is_conn, "executemany") and target is None:
            if len(call.args) != 2 or call.keywords or not isinstance(call.args[1], ast.Name):
                self.fail("unsupported executemany")
            key, (kind, tpl, ptys) = self.lookup_sql(call.args[0])
            rows = env.get(call.args[1].id)
            if kind != "res_state_id" or rows is None or rows[1] != "ptuples" or rows[2] != ptys:
                self.fail("executemany: parameter rows do not fit the statement")
            ps = [f"p{i}_" for i in range(len(ptys))]
            pat = "'(" + ", ".join(ps) + ")"
            stmt = tpl.format(*ps, c="st")
            return (f"match py_executemany (fun st {pat} => {stmt}) {rows[0]} st with\n"
                    f"  | (st, Ok _) => {cont(env)}\n  | (st, Err k_) => (st, Err k_)\n"
                    f"  | (st, OutOfFuel) => (st, OutOfFuel)\n  end")
        if call is not None and target and isinstance(call.func, ast.Attribute) and call.func.attr == "fetchone" \
                and not call.args and isinstance(call.func.value, ast.Name) and call.func.value.id in env:
            src = env[call.func.value.id]
            env2 = dict(env)
            if src[1] == "first_b":
                env2[target] = (src[0], "optrow_b", src[2])
            elif src[1] == "first_count":
                env2[target] = (src[0], "countrow", [("{r}", "Z")])
            else:
                self.fail("fetchone() on something that is not a one-row SELECT")
            return cont(env2)
        if isinstance(s, ast.Expr) and isinstance(s.value, ast.Call) and isinstance(s.value.func, ast.Attribute) \
                and isinstance(s.value.func.value, ast.Name) and s.value.func.value.id == "self" \
                and s.value.func.attr in SIG:
            t = self.self_call(s.value, env)
            return (f"match {t} with\n  | (st, Ok _) => {cont(env)}\n  | (st, Err k_) => (st, Err k_)\n"
                    f"  | (st, OutOfFuel) => (st, OutOfFuel)\n  end")
        if isinstance(s, ast.Assign) and len(s.targets) == 1:
            t = s.targets[0]
            if isinstance(t, ast.Name) and isinstance(s.value, (ast.Constant, ast.BinOp)) \
                    and self._is_str(s.value):
                self.strings[t.id] = self.sql_text(s.value)
                return cont(env)
            if isinstance(t, ast.Tuple) and len(t.elts) == 2 and all(isinstance(x, ast.Name) for x in t.elts) \
                    and isinstance(s.value, ast.Call) and isinstance(s.value.func, ast.Name) \
                    and s.value.func.id == "_event_to_us" and len(s.value.args) == 1 and not s.value.keywords:
                a, aty = self.expr(s.value.args[0], env)
                if aty != "event":
                    self.fail("_event_to_us of a non-event")
                n1, n2 = t.elts[0].id, t.elts[1].id
                env2 = dict(env)
                env2[n1] = (n1, "Z")
                env2[n2] = (n2, "Z")
                return f"let '({n1}, {n2}) := gen_event_to_us {a} in\n  {self.stmts(rest, env2, k)}"
            if isinstance(t, ast.Attribute) and t.attr == "id" and isinstance(t.value, ast.Name) and t.value.id in env \
                    and env[t.value.id][1] == "event" and env[t.value.id][0] == t.value.id:
                v, ty = self.expr(s.value, env)
                return f"let {t.value.id} := set_eid {t.value.id} {self.coerce(v, ty, 'optZ')} in\n  {cont(env)}"
            if isinstance(t, ast.Name):
                if t.id in ("st", "self"):
                    self.fail(f"local named {t.id}")
                v, ty = self.expr(s.value, env)
                empty = ty == "emptydict"
                if empty:
                    v, ty = "([] : list (Z * StoreBase.meta))", "bmap"
                if ty == "emptylist":
                    # event_rows = [] followed by the loop that fills it
                    return self.row_builder(t.id, rest, env, k)
                if ty not in ("Z", "optZ", "events", "bool", "bmap"):
                    self.fail(f"local {t.id} of type {ty}")
                env2 = dict(env)
                env2[t.id] = (t.id, ty, "empty") if empty else (t.id, ty)
                return f"let {t.id} := {v} in\n  {self.stmts(rest, env2, k)}"
            self.fail("unsupported assignment " + ast.unparse(s)[:60])
        if isinstance(s, ast.If):
            return self.if_stmt(s, rest, env, k)
        if isinstance(s, ast.For):
            return self.for_stmt(s, rest, env, k)
        self.fail(f"unsupported statement {type(s).__name__}: {ast.unparse(s)[:50]}")

    @staticmethod
    def _is_str(e):
        if isinstance(e, ast.Constant):
            return isinstance(e.value, str)
        if isinstance(e, ast.BinOp) and isinstance(e.op, ast.Add):
            return SqTr._is_str(e.left) and SqTr._is_str(e.right)
        return False

    def if_stmt(self, s, rest, env, k):
        def cont(env2):
            return self.stmts(rest, env2, k)

        def nofall(env2):
            self.fail("internal: fall-through of a terminating block")
        t = s.test
        tt, et = self.terminates(s.body), self.terminates(s.orelse)
        # `x is not None` on a fetched row: narrowing
        if isinstance(t, ast.Compare) and len(t.ops) == 1 and isinstance(t.ops[0], (ast.Is, ast.IsNot)) \
                and isinstance(t.left, ast.Name) and t.left.id in env and env[t.left.id][1] == "optrow_b" \
                and isinstance(t.comparators[0], ast.Constant) and t.comparators[0].value is None:
            g, _, cols = env[t.left.id]
            r = self.fresh("row")
            env2 = dict(env)
            env2[t.left.id] = (r, "row_b", cols)
            some_body, none_body = (s.body, s.orelse) if isinstance(t.ops[0], ast.IsNot) else (s.orelse, s.body)
            st_, nt_ = self.terminates(some_body), self.terminates(none_body)
            if not (st_ and nt_):
                self.fail("`row is not None` test whose branches do not both return / raise")
            return (f"match {g} with\n  | Some {r} => {self.stmts(some_body, env2, nofall)}\n"
                    f"  | None => {self.stmts(none_body, env, nofall)}\n  end")
        # truthiness of a list of events
        if isinstance(t, ast.Name) and t.id in env and env[t.id][1] == "events":
            c = f"match {env[t.id][0]} with [] => false | _ :: _ => true end"
        else:
            c = self.bexpr(t, env)
        if tt and et:
            return f"if {c}\n  then {self.stmts(s.body, env, nofall)}\n  else {self.stmts(s.orelse, env, nofall)}"
        if tt:
            return f"if {c}\n  then {self.stmts(s.body, env, nofall)}\n  else {self.stmts(list(s.orelse) + rest, env, k)}"
        if et:
            return f"if {c}\n  then {self.stmts(list(s.body) + rest, env, k)}\n  else {self.stmts(s.orelse, env, nofall)}"
        # neither branch ends the method: only `if c: x = e` (no else) on an existing integer local
        if not s.orelse and len(s.body) == 1 and isinstance(s.body[0], ast.Assign) and len(s.body[0].targets) == 1 \
                and isinstance(s.body[0].targets[0], ast.Name) and s.body[0].targets[0].id in env \
                and env[s.body[0].targets[0].id][1] == "Z":
            x = s.body[0].targets[0].id
            v, ty = self.expr(s.body[0].value, env)
            if ty != "Z":
                self.fail("conditional assignment of a non-integer")
            env2 = dict(env)
            env2[x] = (x, "Z")
            return f"let {x} := if {c} then {v} else {env[x][0]} in\n  {self.stmts(rest, env2, k)}"
        self.fail("unsupported if statement " + ast.unparse(s.test)[:40])

    def row_builder(self, name, rest, env, k):
        """NAME = []; for x in XS: <pure lets>; NAME.append((a, b, c, d))   -> let NAME := map (fun x => ...) XS"""
        rest = list(rest)
        while rest and self.skip(rest[0]):
            rest.pop(0)
        lp = rest[0] if rest else None
        if not (isinstance(lp, ast.For) and isinstance(lp.target, ast.Name) and not lp.orelse):
            self.fail(f"{name} = [] is not followed by the loop that fills it")
        it, ity = self.expr(lp.iter, env)
        if ity != "events":
            self.fail("row-building loop over a non-list")
        last = lp.body[-1]
        if not (isinstance(last, ast.Expr) and _call(last.value, lambda r: isinstance(r, ast.Name) and r.id == name, "append")
                and len(last.value.args) == 1 and isinstance(last.value.args[0], ast.Tuple)):
            self.fail(f"the loop does not end with {name}.append((...))")
        for n in ast.walk(ast.Module(body=lp.body[:-1], type_ignores=[])):
            if isinstance(n, ast.Call) and isinstance(n.func, ast.Attribute) and n.func.attr in ("execute", "executemany", "append"):
                self.fail("row-building loop is not pure")
        env_b = dict(env)
        env_b[lp.target.id] = (lp.target.id, "event")
        tys = []

        def tail(env2):
            parts = []
            for a in last.value.args[0].elts:
                t, ty = self.expr(a, env2)
                if ty not in ("Z",):
                    self.fail("row cell is not an integer / label")
                parts.append(t)
                tys.append("Z")
            return "(" + ", ".join(parts) + ")"
        save = self.in_loop
        self.in_loop = True
        body = self.stmts(lp.body[:-1], env_b, tail)
        self.in_loop = save
        env2 = dict(env)
        env2[name] = (name, "ptuples", tys)
        return f"let {name} := map (fun {lp.target.id} => {body}) {it} in\n  {self.stmts(rest[1:], env2, k)}"

    def for_stmt(self, s, rest, env, k):
        if s.orelse or not isinstance(s.target, ast.Name):
            self.fail("unsupported for loop")
        var = s.target.id
        # for row in CUR.execute("SELECT ... FROM buckets"): buckets[row[0]] = {...}
        if _call(s.iter, self.is_conn, "execute"):
            key, kind, text = self.execute(s.iter, env)
            if kind != "rows_b":
                self.fail("loop over a statement that is not the buckets listing")
            cols, _ = self.select_cols(key)
            body = [x for x in s.body if not self.skip(x)]
            ok = (len(body) == 1 and isinstance(body[0], ast.Assign) and len(body[0].targets) == 1
                  and isinstance(body[0].targets[0], ast.Subscript) and isinstance(body[0].targets[0].value, ast.Name)
                  and body[0].targets[0].value.id in env and env[body[0].targets[0].value.id][1] == "bmap"
                  and env[body[0].targets[0].value.id][2:] == ("empty",) and isinstance(body[0].value, ast.Dict))
            if not ok:
                self.fail("the listing loop does not fill an empty result dict with one metadata dict per row")
            d = body[0].targets[0].value.id
            env_b = dict(env)
            env_b[var] = (var, "row_b", [(BUCKET_COLS[c], BUCKET_COL_TY[c]) for c in cols])
            keyt, kty = self.expr(body[0].targets[0].slice, env_b)
            i, m = self.meta_dict(body[0].value, env_b)
            if keyt != i:
                self.fail("the result dict is keyed by something else than the row's id")
            env2 = dict(env)
            env2[d] = (d, "bmap")
            return f"let {d} := map (fun {var} => ({i}, {m})) {text} in\n  {self.stmts(rest, env2, k)}"
        # for e in XS: self.m(...)
        it, ity = self.expr(s.iter, env)
        if ity != "events":
            self.fail("loop over a non-list")
        body = [x for x in s.body if not self.skip(x)]
        if not (len(body) == 1 and isinstance(body[0], ast.Expr) and isinstance(body[0].value, ast.Call)
                and isinstance(body[0].value.func, ast.Attribute) and isinstance(body[0].value.func.value, ast.Name)
                and body[0].value.func.value.id == "self" and body[0].value.func.attr in SIG):
            self.fail("loop body is not a single call of a storage method")
        env_b = dict(env)
        env_b[var] = (var, "event")
        t = self.self_call(body[0].value, env_b)
        inner = (f"match {t} with\n    | (st, Ok _) => (st, Ok tt)\n    | (st, Err k_) => (st, Err k_)\n"
                 f"    | (st, OutOfFuel) => (st, OutOfFuel)\n    end")
        return (f"match sq_for (fun st {var} => {inner}) {it} st with\n"
                f"  | (st, Ok _) => {self.stmts(rest, env, k)}\n  | (st, Err k_) => (st, Err k_)\n"
                f"  | (st, OutOfFuel) => (st, OutOfFuel)\n  end")

    # ---- update_bucket: the dynamically built UPDATE
    def update_bucket(self, env):
        body = [s for s in self.fn.body if not self.skip(s)]
        if len(body) != 6:
            self.fail("update_bucket no longer has the shape values / zip / guard / sql / execute / return")
        uv, zp, guard, sql, ex, ret = body
        if not (isinstance(uv, ast.Assign) and ast.unparse(uv.targets[0]) == "update_values" and isinstance(uv.value, ast.List)):
            self.fail("update_values list not found")
        pairs = {}
        order = []
        for el in uv.value.elts:
            if not (isinstance(el, ast.Tuple) and len(el.elts) == 2 and isinstance(el.elts[0], ast.Constant)
                    and isinstance(el.elts[0].value, str)) or el.elts[0].value in pairs:
                self.fail("update_values entry is not (column, value)")
            t, ty = self.expr(el.elts[1], env)
            pairs[el.elts[0].value] = self.coerce(t, ty, "optZ")
            order.append(el.elts[0].value)
        if sorted(pairs) != sorted(UPDATE_COLS):
            self.fail(f"update_values names the columns {order}")
        def same(node, src):
            return ast.dump(node) == ast.dump(ast.parse(src).body[0])
        if not same(zp, "updates, values = zip(*[(k, v) for k, v in update_values if v is not None])"):
            self.fail("the non-None filter of update_values changed: " + ast.unparse(zp))
        if not same(guard, "if not updates:\n    raise ValueError('At least one field must be updated.')"):
            self.fail("guard after zip changed")
        if not same(sql, "sql = 'UPDATE buckets SET ' + ', '.join(f'{u} = ?' for u in updates) + ' WHERE id = ?'"):
            self.fail("dynamic UPDATE text changed: " + ast.unparse(sql))
        if not same(ex, "self.conn.execute(sql, (*values, bucket_id))"):
            self.fail("dynamic UPDATE parameters changed: " + ast.unparse(ex))
        b = env["bucket_id"][0] if "bucket_id" in env else self.fail("no bucket_id parameter")
        some = " || ".join(f"not_none {pairs[c]}" for c in order)
        args = " ".join(pairs[c] for c in UPDATE_COLS)
        # zip(*[]) has nothing to unpack: ValueError before any statement runs
        return (f"if negb ({some}) then (st, Err ValueError)\n  else let st := sql_update_bucket st {b} {args} in\n  "
                + self.stmts([ret], env, None))

    def definition(self):
        fn = self.fn
        a = fn.args
        if a.vararg or a.kwarg or a.kwonlyargs or a.posonlyargs:
            self.fail("unsupported parameter kinds")
        names = [x.arg for x in a.args]
        ptys = SIG[self.name]
        if names[:1] != ["self"] or len(names) - 1 != len(ptys):
            self.fail(f"takes {names}, expected self + {len(ptys)} parameters")
        for d in a.defaults:
            if not (isinstance(d, ast.Constant) and d.value is None):
                self.fail("parameter default is not None")
        env = {}
        for n, t in zip(names[1:], ptys):
            if n in ("st", "k_", "x_", "t_"):
                self.fail(f"parameter named {n}")
            env[n] = (n, t)

        def kend(e2):
            return "(st, Ok ONone)"
        body = self.update_bucket(env) if self.name == "update_bucket" else self.stmts(fn.body, env, kend)
        params = "".join(f" ({n} : {GT[t]})" for n, t in zip(names[1:], ptys))
        return (f"Definition gen_sq_{self.name} (st : sqstate){params} : sqstate * res out :=\n  {body}.\n"), names[1:]


def _guard(f):
    def g(repo):
        try:
            return f(repo)
        except Fail:
            raise
        except RecursionError:
            raise Fail("recursion limit")
        except Exception as ex:  # noqa: BLE001 -- fail closed, never crash the shared translator run
            raise Fail(f"{type(ex).__name__}: {ex}")
    return g


def _module(repo):
    return ast.parse(open(os.path.join(repo, SQLITE)).read())


def _consts(tree):
    """module constants the methods may name: MAX_TIMESTAMP; checks _EPOCH / _MICROSECOND"""
    vals = {}
    for n in tree.body:
        if isinstance(n, ast.Assign) and len(n.targets) == 1 and isinstance(n.targets[0], ast.Name):
            vals[n.targets[0].id] = n.value
    if "MAX_TIMESTAMP" not in vals:
        raise Fail("MAX_TIMESTAMP not found")

    def cexpr(e):
        if isinstance(e, ast.Constant) and type(e.value) is int:
            return str(e.value)
        if isinstance(e, ast.BinOp) and isinstance(e.op, (ast.Add, ast.Sub, ast.Mult, ast.Pow)):
            op = {ast.Add: "+", ast.Sub: "-", ast.Mult: "*", ast.Pow: "^"}[type(e.op)]
            return f"({cexpr(e.left)} {op} {cexpr(e.right)})"
        raise Fail("MAX_TIMESTAMP is not an integer constant expression")
    if ast.unparse(vals.get("_EPOCH", ast.Constant(value=0))) != "datetime(1970, 1, 1, tzinfo=timezone.utc)":
        raise Fail("_EPOCH is not 1970-01-01 UTC")
    if ast.unparse(vals.get("_MICROSECOND", ast.Constant(value=0))) != "timedelta(microseconds=1)":
        raise Fail("_MICROSECOND is not one microsecond")
    return {"MAX_TIMESTAMP": cexpr(vals["MAX_TIMESTAMP"])}


def _const_names(consts):
    return {k: "gen_" + k for k in consts}


def _fn(tree, name):
    for n in tree.body:
        if isinstance(n, ast.FunctionDef) and n.name == name:
            return n
    raise Fail(f"function {name} not found")


def tr_event_to_us(tree):
    """starttime = (event.timestamp - _EPOCH) // _MICROSECOND; endtime = starttime + event.duration // _MICROSECOND"""
    fn = _fn(tree, "_event_to_us")
    if [a.arg for a in fn.args.args] != ["event"]:
        raise Fail("_event_to_us: signature changed")
    ev = "event"

    def ex(e, env):
        if isinstance(e, ast.Name) and e.id in env:
            return env[e.id]
        if isinstance(e, ast.BinOp) and isinstance(e.op, ast.FloorDiv) and ast.unparse(e.right) == "_MICROSECOND":
            # a timedelta counted in microseconds
            l = e.left
            if ast.unparse(l) == f"{ev}.timestamp - _EPOCH":
                return f"(ts {ev})"
            if ast.unparse(l) == f"{ev}.duration":
                return f"(dur {ev})"
            raise Fail("_event_to_us: unsupported timedelta " + ast.unparse(l))
        if isinstance(e, ast.BinOp) and isinstance(e.op, (ast.Add, ast.Sub)):
            return f"({ex(e.left, env)} {'+' if isinstance(e.op, ast.Add) else '-'} {ex(e.right, env)})"
        raise Fail("_event_to_us: unsupported expression " + ast.unparse(e))
    env = {}
    out = ""
    body = [s for s in fn.body if not py2v.is_skippable(s)]
    for s in body[:-1]:
        if not (isinstance(s, ast.Assign) and len(s.targets) == 1 and isinstance(s.targets[0], ast.Name)):
            raise Fail("_event_to_us: unsupported statement")
        out += f"let {s.targets[0].id} := {ex(s.value, env)} in "
        env[s.targets[0].id] = s.targets[0].id
    r = body[-1]
    if not (isinstance(r, ast.Return) and isinstance(r.value, ast.Tuple) and len(r.value.elts) == 2):
        raise Fail("_event_to_us does not return a pair")
    return (f"Definition gen_event_to_us ({ev} : Prelude.event) : Z * Z :=\n  {out}"
            f"({ex(r.value.elts[0], env)}, {ex(r.value.elts[1], env)}).\n")


def tr_rows_to_events(tree):
    """row[0] -> id, fromtimestamp(row[1] / 1000000, utc) -> start, row[2] -> end, json.loads(row[3]) -> data"""
    fn = _fn(tree, "_rows_to_events")
    if [a.arg for a in fn.args.args] != ["rows"]:
        raise Fail("_rows_to_events: signature changed")
    body = [s for s in fn.body if not py2v.is_skippable(s)]
    if len(body) != 3 or ast.unparse(body[0]) != "events = []" or ast.unparse(body[2]) != "return events" \
            or not (isinstance(body[1], ast.For) and ast.unparse(body[1].target) == "row"
                    and ast.unparse(body[1].iter) == "rows" and not body[1].orelse):
        raise Fail("_rows_to_events is no longer `events = []; for row in rows: ...; return events`")
    cols = ["(er_id row)", "(er_start row)", "(er_end row)", "(er_data row)"]

    def ex(e, env):
        if isinstance(e, ast.Name) and e.id in env:
            return env[e.id]
        if isinstance(e, ast.Subscript) and ast.unparse(e.value) == "row" and isinstance(e.slice, ast.Constant) \
                and type(e.slice.value) is int and 0 <= e.slice.value < 4:
            return cols[e.slice.value], ("Z" if e.slice.value else "id")
        if isinstance(e, ast.Call) and ast.unparse(e.func) == "datetime.fromtimestamp" and len(e.args) == 2 \
                and ast.unparse(e.args[1]) == "timezone.utc" and isinstance(e.args[0], ast.BinOp) \
                and isinstance(e.args[0].op, ast.Div) and ast.unparse(e.args[0].right) == "1000000":
            t, ty = ex(e.args[0].left, env)
            return t, "instant"
        if _json(e, "loads"):
            t, ty = ex(e.args[0], env)
            return t, "label"
        if isinstance(e, ast.BinOp) and isinstance(e.op, ast.Sub):
            (l, lt), (r, rt) = ex(e.left, env), ex(e.right, env)
            if lt != "instant" or rt != "instant":
                raise Fail("_rows_to_events: subtraction of non-instants")
            return f"({l} - {r})", "delta"
        raise Fail("_rows_to_events: unsupported expression " + ast.unparse(e))
    env = {}
    out = ""
    stm = [s for s in body[1].body if not py2v.is_skippable(s)]
    for s in stm[:-1]:
        if not (isinstance(s, ast.Assign) and len(s.targets) == 1 and isinstance(s.targets[0], ast.Name)):
            raise Fail("_rows_to_events: unsupported statement")
        t, ty = ex(s.value, env)
        out += f"let {s.targets[0].id} := {t} in "
        env[s.targets[0].id] = (s.targets[0].id, ty)
    last = stm[-1]
    ok = (isinstance(last, ast.Expr) and isinstance(last.value, ast.Call) and ast.unparse(last.value.func) == "events.append"
          and len(last.value.args) == 1 and isinstance(last.value.args[0], ast.Call)
          and ast.unparse(last.value.args[0].func) == "Event" and not last.value.args[0].args)
    if not ok:
        raise Fail("_rows_to_events: the loop does not end with events.append(Event(...))")
    kw = {k.arg: ex(k.value, env) for k in last.value.args[0].keywords}
    want = {"id": "id", "timestamp": "instant", "duration": "delta", "data": "label"}
    if set(kw) != set(want) or any(kw[k][1] != want[k] for k in want):
        raise Fail(f"_rows_to_events: Event(...) keywords / kinds changed: { {k: v[1] for k, v in kw.items()} }")
    return ("Definition gen_rows_to_events (rows : list erow) : list Prelude.event :=\n"
            f"  map (fun row => {out}mkEvent (Some {kw['id'][0]}) {kw['timestamp'][0]} {kw['duration'][0]} {kw['data'][0]}) rows.\n")


STEP = [
    ("CreateBucket b m", "create_bucket", {"bucket_id": "b", "type_id": "(m_type m)", "client": "(m_client m)",
                                          "hostname": "(m_hostname m)", "created": "(m_created m)",
                                          "name": "(m_name m)", "data": "(m_data m)"}),
    ("UpdateBucket b ty cl ho na da", "update_bucket", {"bucket_id": "b", "type_id": "ty", "client": "cl",
                                                        "hostname": "ho", "name": "na", "data": "da"}),
    ("DeleteBucket b", "delete_bucket", {"bucket_id": "b"}),
    ("Buckets", "buckets", {}),
    ("GetMetadata b", "get_metadata", {"bucket_id": "b"}),
    ("InsertOne b e", "insert_one", {"bucket_id": "b", "event": "e"}),
    ("InsertMany b es", "insert_many", {"bucket_id": "b", "events": "es"}),
    ("Replace b i e", "replace", {"bucket_id": "b", "event_id": "(Some i)", "event": "e"}),
    ("ReplaceLast b e", "replace_last", {"bucket_id": "b", "event": "e"}),
    ("Delete b i", "delete", {"bucket_id": "b", "event_id": "i"}),
    ("GetEvent b i", "get_event", {"bucket_id": "b", "event_id": "i"}),
    ("GetEvents b limit st en", "get_events", {"bucket_id": "b", "limit": "limit", "starttime": "st", "endtime": "en"}),
    ("GetEventCount b st en", "get_eventcount", {"bucket_id": "b", "starttime": "st", "endtime": "en"}),
]


@_guard
def tr_sqlstore(repo):
    tree = _module(repo)
    consts = _consts(tree)
    cls = None
    for n in tree.body:
        if isinstance(n, ast.ClassDef) and n.name == "SqliteStorage":
            cls = n
    if cls is None:
        raise Fail("class SqliteStorage not found")
    ms = {m.name: m for m in cls.body if isinstance(m, ast.FunctionDef)}
    extra = [m for m in ms if m not in SIG and m not in NOT_MODELLED]
    if extra:
        raise Fail("SqliteStorage has methods the model does not know: " + ", ".join(extra))
    out = ["From AwVerif Require Import Model.StoreBase Model.SqliteStore Model.PySql.\n",
           f"Definition gen_MAX_TIMESTAMP : Z := {consts['MAX_TIMESTAMP']}.\n",
           tr_event_to_us(tree), tr_rows_to_events(tree)]
    pnames = {}
    for m in ORDER:
        if m not in ms:
            raise Fail(f"method {m} not found")
        if ms[m].decorator_list:
            raise Fail(f"{m}: decorated method")
        t = SqTr(m, ms[m], _const_names(consts))
        text, names = t.definition()
        for c in t.calls:
            if ORDER.index(c) >= ORDER.index(m):
                raise Fail(f"{m} calls {c}: call order not supported")
        pnames[m] = names
        out.append(text)
    arms = []
    for pat, m, binding in STEP:
        try:
            args = " ".join(binding[n] for n in pnames[m])
        except KeyError as ex:
            raise Fail(f"{m}: parameter {ex} has no counterpart in the model's op")
        arms.append(f"  | {pat} => gen_sq_{m} c0 {args}".rstrip())
    out.append("Definition gen_sq_step (c0 : sqstate) (o : op) : sqstate * res out :=\n  match o with\n"
               + "\n".join(arms) + "\n  end.\n")
    return "\n".join(out)


KERNELS = {"GenSqliteStore": [("SqliteStorage", tr_sqlstore)]}
