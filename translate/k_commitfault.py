"""Tie B for the commit bookkeeping under ENGINE FAULTS (C18, Model/CommitFault.v): what
SqliteStorage.commit() and conditional_commit() leave behind when `self.conn.commit()` raises
is a matter of STATEMENT ORDER, which the fault-free kernels of k_commit.py cannot see
(`flush`, `set_last` and `set_n` commute, so commit() with its bookkeeping before the engine
call is extensionally the same `gen_commit`).  Emitted into coq/Gen/GenCommitFault.v, proved
equal to Model/CommitFault.v in coq/Bridge/BridgeCommitFault.v.

  commit_fault              -> gen_commit_f ok now fs : fstate * bool
                               the assignments of commit() BEFORE `self.conn.commit()` run on both
                               paths, the engine call succeeds (flush, ghost last_ok := now) or
                               raises (the function is left: (state so far, raised)), the
                               assignments AFTER it run on the successful path only
  conditional_commit_fault  -> gen_cond_commit_f lazy k c e fs : fstate * bool
                               conditional_commit with every self.commit() inlined as
                               gen_commit_f and the exception propagated (`fbind`): a statement
                               after a commit() that raised does not run.  The engine's answer to
                               a commit() is positional like its clock reading (slot r1/r2/r3 ->
                               ok1/ok2/ok3 of `eng`).

Fail-closed: any statement of commit() / conditional_commit() outside the recognised shapes
(try/except, loops, with, return, calls other than self.conn.commit() / self.commit(), a second
engine call) raises Fail, the definition is omitted and the bridge lemma stops compiling."""
import ast

from py2v import Fail
from k_commit import SQLITE, SLOTS, StateTr, _cls, _method, _is_self_attr, _is_docstring

OKS = ["(ok1 e)", "(ok2 e)", "(ok3 e)"]


def tr_header(repo):
    return "From AwVerif Require Import Model.Commit Model.CommitFault.\n"


def _is_call_of(st, owner, attr):
    """`self.conn.commit()` (owner 'conn') / `self.commit()` (owner None) as an expression statement"""
    if not (isinstance(st, ast.Expr) and isinstance(st.value, ast.Call) and isinstance(st.value.func, ast.Attribute)
            and st.value.func.attr == attr):
        return False
    tgt = st.value.func.value
    ok = _is_self_attr(tgt, owner) if owner else (isinstance(tgt, ast.Name) and tgt.id == "self")
    if ok and (st.value.args or st.value.keywords):
        raise Fail(f"{attr}() with arguments")
    return ok


def _assignment(tr, st, slot):
    """-> (cstate -> cstate update with `s` free, next slot) or None"""
    if isinstance(st, ast.AugAssign) and isinstance(st.op, ast.Add) \
            and _is_self_attr(st.target, "num_uncommitted_statements"):
        v, slot = tr.expr(st.value, slot)
        return f"set_n s ((n_unc s) + {v})", slot
    if isinstance(st, ast.Assign) and len(st.targets) == 1 and _is_self_attr(st.targets[0], "num_uncommitted_statements"):
        v, slot = tr.expr(st.value, slot)
        return f"set_n s {v}", slot
    if isinstance(st, ast.Assign) and len(st.targets) == 1 and _is_self_attr(st.targets[0], "last_commit"):
        v, slot = tr.expr(st.value, slot)
        return f"set_last s {v}", slot
    return None


def tr_commit_fault(repo):
    _, cls = _cls(repo, SQLITE, "SqliteStorage")
    fn = _method(cls, "commit")
    if [a.arg for a in fn.args.args] != ["self"]:
        raise Fail("commit: signature changed")
    tr = StateTr([], False)
    pre, post, engine_seen, slot = [], [], False, 0
    for st in fn.body:
        if _is_docstring(st):
            continue
        if _is_call_of(st, "conn", "commit"):
            if engine_seen:
                raise Fail("commit: self.conn.commit() is called twice")
            engine_seen = True
            continue
        a = _assignment(tr, st, slot)
        if a is None:
            raise Fail("commit: unsupported statement " + ast.dump(st)[:80])
        text, slot = a
        (post if engine_seen else pre).append(text)
    if not engine_seen:
        raise Fail("commit: no self.conn.commit()")
    if slot != 1:
        raise Fail(f"commit reads the clock {slot} times (expected once)")
    lets = lambda xs: "".join(f"let s := {x} in\n      " for x in xs).replace(SLOTS[0], "now")
    return ("Definition gen_commit_f (ok : bool) (now : Z) (fs : fstate) : fstate * bool :=\n"
            "    let s := cs fs in\n"
            "    (* before self.conn.commit() *)\n      " + lets(pre) +
            "if ok\n"
            "    then (let s := flush s in\n      (* after it *)\n      " + lets(post) + "(mkFS s now, false))\n"
            "    else (mkFS s (last_ok fs), true).\n")


class FaultTr:
    """conditional_commit in exception-passing style over fstate"""

    def __init__(self, params):
        self.tr = StateTr(params, True)

    def cond(self, e, slot):
        c, slot = self.tr.cond(e, slot)
        return c.replace("(n_unc s)", "(n_unc (cs fs))").replace("(last_commit s)", "(last_commit (cs fs))"), slot

    def block(self, body, slot):
        """-> (Gallina expression of type fstate * bool with `fs` free, next slot)"""
        body = [s for s in body if not _is_docstring(s)]
        if not body:
            return "(fs, false)", slot
        st, rest = body[0], body[1:]
        a = _assignment(self.tr, st, slot)
        if a is not None:
            text, slot = a
            r, slot = self.block(rest, slot)
            return f"let fs := upd (fun s => {text}) fs in\n    {r}", slot
        if _is_call_of(st, None, "commit"):
            if slot >= len(SLOTS):
                raise Fail("more than three clock readings on one path")
            here = f"gen_commit_f {OKS[slot]} {SLOTS[slot]} fs"
            r, slot = self.block(rest, slot + 1)
            return f"fbind ({here}) (fun fs =>\n    {r})", slot
        if _is_call_of(st, "conn", "commit"):
            raise Fail("self.conn.commit() outside commit()")
        if isinstance(st, ast.If):
            c, slot = self.cond(st.test, slot)
            a, sa = self.block(st.body, slot)
            b, sb = self.block(st.orelse, slot)
            r, slot = self.block(rest, max(sa, sb))
            return f"fbind (if {c}\n      then ({a})\n      else ({b})) (fun fs =>\n    {r})", slot
        raise Fail("conditional_commit: unsupported statement " + ast.dump(st)[:80])


def tr_cond_commit_fault(repo):
    _, cls = _cls(repo, SQLITE, "SqliteStorage")
    tr_commit_fault(repo)  # inlined
    fn = _method(cls, "conditional_commit")
    if [a.arg for a in fn.args.args] != ["self", "num_statements"] or fn.args.defaults:
        raise Fail("conditional_commit: signature changed")
    body, _ = FaultTr(["num_statements"]).block(fn.body, 0)
    return ("Definition gen_cond_commit_f (lazy : bool) (num_statements : Z) (c : clk) (e : eng) (fs : fstate) "
            ": fstate * bool :=\n    " + body + ".\n")


KERNELS = {
    "GenCommitFault": [("commit_fault_header", tr_header), ("commit_fault", tr_commit_fault),
                       ("conditional_commit_fault", tr_cond_commit_fault)],
}
