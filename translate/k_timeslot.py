"""Tie B for C09: kernels of the third-party timeslot/timeslot.py (class Timeslot) and of
aw_transform/filter_period_intersect.py, re-translated on every run.

Self-contained (py2v.py's expression translator only knows Event attributes): a small
fail-closed translator for

  Z expressions     <slot>.start / <slot>.end / <slot>.duration, <event>.timestamp / .duration,
                    + and -, min/max of two
  slot expressions  a slot name, Timeslot(a, b), _get_event_period(<event>)
  conditions        chained < <= > >= == over Z expressions, and/or/not,
                    <slot>.contains(<slot>), `<slot> in <slot>` (-> __contains__ -> contains,
                    checked), `not <slot>.gap(<slot>)` (a Timeslot is always truthy: the class
                    is checked to define neither __bool__ nor __len__ and to have no bases)
  statements        if/elif/else, return, raise Exception/TypeError, docstrings

Anything else raises Fail, the definition is omitted and its bridge lemma stops compiling.
The generated definitions only use the *record type* of Model/Timeslot.v (timeslot, mkSlot,
tstart, tend) and floor_ms, never the model's functions.
"""
import ast
import importlib.util
import os

from py2v import Fail, find_function

REQ = "From AwVerif Require Import Model.Timeslot Model.Intersect.\n"
CMP = {ast.LtE: "<=?", ast.Lt: "<?", ast.GtE: ">=?", ast.Gt: ">?", ast.Eq: "=?"}


# ------------------------------------------------------------------ locating the sources

def timeslot_path(repo):
    p = os.path.join(repo, "timeslot", "timeslot.py")      # a scratch tree may shadow the installed module
    if os.path.exists(p):
        return p
    spec = importlib.util.find_spec("timeslot")
    if spec is None or not spec.submodule_search_locations:
        raise Fail("timeslot package not found")
    return os.path.join(list(spec.submodule_search_locations)[0], "timeslot.py")


def timeslot_class(repo):
    tree = ast.parse(open(timeslot_path(repo)).read())
    for n in tree.body:
        if isinstance(n, ast.ClassDef) and n.name == "Timeslot":
            if n.bases or n.keywords or n.decorator_list:
                raise Fail("Timeslot has bases/decorators")
            meths = {m.name: m for m in n.body if isinstance(m, ast.FunctionDef)}
            for bad in ("__bool__", "__len__", "__getattr__", "__getattribute__", "__setattr__"):
                if bad in meths:
                    raise Fail(f"Timeslot defines {bad}")
            check_init(meths)
            return meths
    raise Fail("class Timeslot not found")


def body_of(fn):
    return [s for s in fn.body if not (isinstance(s, ast.Expr) and isinstance(s.value, ast.Constant))]


def check_init(meths):
    fn = meths.get("__init__")
    if fn is None or [a.arg for a in fn.args.args] != ["self", "start", "end"]:
        raise Fail("Timeslot.__init__ signature changed")
    if [ast.unparse(s) for s in body_of(fn)] != ["self.start = start", "self.end = end"]:
        raise Fail("Timeslot.__init__ no longer just stores start and end")


def check_contains_dunder(meths):
    fn = meths.get("__contains__")
    if fn is None or [ast.unparse(s) for s in body_of(fn)] != ["return self.contains(other)"]:
        raise Fail("Timeslot.__contains__ is no longer `return self.contains(other)`")


# ------------------------------------------------------------------ expressions

def zexpr(e, env):
    """env: name -> (kind, gallina) with kind in slot / event / z"""
    if isinstance(e, ast.Name) and e.id in env and env[e.id][0] == "z":
        return env[e.id][1]
    if isinstance(e, ast.Attribute) and isinstance(e.value, ast.Name) and e.value.id in env:
        kind, g = env[e.value.id]
        if kind == "slot" and e.attr in ("start", "end"):
            return f"({'tstart' if e.attr == 'start' else 'tend'} {g})"
        if kind == "slot" and e.attr == "duration":
            return f"(gen_slot_duration {g})"
        if kind == "event" and e.attr in ("timestamp", "duration"):
            return f"({'ts' if e.attr == 'timestamp' else 'dur'} {g})"
    if isinstance(e, ast.BinOp) and isinstance(e.op, (ast.Add, ast.Sub)):
        return f"({zexpr(e.left, env)} {'+' if isinstance(e.op, ast.Add) else '-'} {zexpr(e.right, env)})"
    if isinstance(e, ast.Call) and isinstance(e.func, ast.Name) and e.func.id in ("min", "max") \
            and len(e.args) == 2 and not e.keywords:
        return f"(Z.{e.func.id} {zexpr(e.args[0], env)} {zexpr(e.args[1], env)})"
    raise Fail("unsupported Z expression " + ast.unparse(e)[:60])


def slotexpr(e, env):
    if isinstance(e, ast.Name) and e.id in env and env[e.id][0] == "slot":
        return env[e.id][1]
    if isinstance(e, ast.Call) and isinstance(e.func, ast.Name) and not e.keywords:
        if e.func.id == "Timeslot" and len(e.args) == 2:
            return f"(mkSlot {zexpr(e.args[0], env)} {zexpr(e.args[1], env)})"
        if e.func.id == "_get_event_period" and len(e.args) == 1 and isinstance(e.args[0], ast.Name) \
                and env.get(e.args[0].id, ("",))[0] == "event":
            return f"(gen_get_event_period {env[e.args[0].id][1]})"
    raise Fail("unsupported slot expression " + ast.unparse(e)[:60])


def method_call(e, env, name):
    """<slot>.<name>(<slot>) -> (receiver, argument) or None"""
    if isinstance(e, ast.Call) and isinstance(e.func, ast.Attribute) and e.func.attr == name \
            and len(e.args) == 1 and not e.keywords:
        return slotexpr(e.func.value, env), slotexpr(e.args[0], env)
    return None


def bexpr(e, env):
    if isinstance(e, ast.BoolOp):
        op = " && " if isinstance(e.op, ast.And) else " || "
        return "(" + op.join(bexpr(v, env) for v in e.values) + ")"
    if isinstance(e, ast.UnaryOp) and isinstance(e.op, ast.Not):
        g = method_call(e.operand, env, "gap")
        if g:       # truthiness of Optional[Timeslot]
            return f"(match gen_slot_gap {g[0]} {g[1]} with None => true | Some _ => false end)"
        return f"(negb {bexpr(e.operand, env)})"
    c = method_call(e, env, "contains")
    if c:
        return f"(gen_slot_contains {c[0]} {c[1]})"
    if isinstance(e, ast.Compare):
        if len(e.ops) == 1 and isinstance(e.ops[0], ast.In):
            return f"(gen_slot_contains {slotexpr(e.comparators[0], env)} {slotexpr(e.left, env)})"
        parts, left = [], e.left
        for op, right in zip(e.ops, e.comparators):
            if type(op) not in CMP:
                raise Fail("unsupported comparison operator")
            parts.append(f"({zexpr(left, env)} {CMP[type(op)]} {zexpr(right, env)})")
            left = right
        return "(" + " && ".join(parts) + ")"
    raise Fail("unsupported condition " + ast.unparse(e)[:60])


# ------------------------------------------------------------------ statements of the Timeslot methods

def stmts(body, env, k, ret):
    """k: text for falling off the end; ret: dict kind -> wrapper"""
    body = [s for s in body if not (isinstance(s, ast.Expr) and isinstance(s.value, ast.Constant))]
    if not body:
        if k is None:
            raise Fail("control falls off the end")
        return k
    s, rest = body[0], body[1:]
    if isinstance(s, ast.If):
        after = stmts(rest, env, k, ret) if (rest or k is not None) else None
        return (f"if {bexpr(s.test, env)}\n  then {stmts(s.body, env, after, ret)}\n"
                f"  else {stmts(s.orelse, env, after, ret)}")
    if isinstance(s, ast.Return):
        return ret["return"](s.value, env)
    if isinstance(s, ast.Raise) and "raise" in ret:
        return ret["raise"](s.exc)
    raise Fail("unsupported statement " + type(s).__name__)


def raise_class(exc):
    if isinstance(exc, ast.Call) and isinstance(exc.func, ast.Name):
        if exc.func.id == "Exception":
            return "Err OtherError"
        if exc.func.id == "TypeError":
            return "Err TypeError"
    raise Fail("unsupported raise")


def is_none(v):
    return v is None or (isinstance(v, ast.Constant) and v.value is None)


RET_BOOL = {"return": lambda v, env: bexpr(v, env)}
RET_OPT = {"return": lambda v, env: "None" if is_none(v) else f"Some {slotexpr(v, env)}"}
RET_RES = {"return": lambda v, env: f"Ok {slotexpr(v, env)}", "raise": raise_class}
SLOTS = {"self": ("slot", "self"), "other": ("slot", "other")}


def binary_method(repo, name):
    meths = timeslot_class(repo)
    fn = meths.get(name)
    if fn is None:
        raise Fail(f"Timeslot.{name} not found")
    if [a.arg for a in fn.args.args] != ["self", "other"] or fn.args.vararg or fn.args.kwarg or fn.args.defaults:
        raise Fail(f"Timeslot.{name} signature changed")
    return meths, fn


def tr_duration(repo):
    fn = timeslot_class(repo).get("duration")
    if fn is None or [ast.unparse(d) for d in fn.decorator_list] != ["property"]:
        raise Fail("Timeslot.duration is not a property")
    b = body_of(fn)
    if len(b) != 1 or not isinstance(b[0], ast.Return):
        raise Fail("Timeslot.duration body changed")
    return REQ + "Definition gen_slot_duration (self : timeslot) : Z :=\n  " + \
        zexpr(b[0].value, {"self": ("slot", "self")}) + ".\n"


def tr_contains(repo):
    meths, fn = binary_method(repo, "contains")
    check_contains_dunder(meths)
    b = body_of(fn)
    # the argument is statically a Timeslot: take the isinstance(other, Timeslot) branch
    if not (b and isinstance(b[0], ast.If) and ast.unparse(b[0].test) == "isinstance(other, Timeslot)"):
        raise Fail("Timeslot.contains no longer starts with the isinstance(other, Timeslot) branch")
    return REQ + "Definition gen_slot_contains (self other : timeslot) : bool :=\n  " + \
        stmts(b[0].body, SLOTS, None, RET_BOOL) + ".\n"


def tr_bool_method(name):
    def tr(repo):
        meths, fn = binary_method(repo, name)
        check_contains_dunder(meths)
        return REQ + f"Definition gen_slot_{name} (self other : timeslot) : bool :=\n  " + \
            stmts(fn.body, SLOTS, None, RET_BOOL) + ".\n"
    return tr


def tr_opt_method(name):
    def tr(repo):
        meths, fn = binary_method(repo, name)
        check_contains_dunder(meths)
        return REQ + f"Definition gen_slot_{name} (self other : timeslot) : option timeslot :=\n  " + \
            stmts(fn.body, SLOTS, None, RET_OPT) + ".\n"
    return tr


def tr_union(repo):
    meths, fn = binary_method(repo, "union")
    return REQ + "Definition gen_slot_union (self other : timeslot) : res timeslot :=\n  " + \
        stmts(fn.body, SLOTS, None, RET_RES) + ".\n"


# ------------------------------------------------------------------ aw_transform/filter_period_intersect.py

def fpi_tree(repo):
    return ast.parse(open(os.path.join(repo, "aw_transform/filter_period_intersect.py")).read())


def tr_get_event_period(repo):
    fn = find_function(fpi_tree(repo), "_get_event_period")
    if [a.arg for a in fn.args.args] != ["event"]:
        raise Fail("signature changed")
    env = {"event": ("event", "ev")}
    out = ""
    for s in body_of(fn):
        if isinstance(s, ast.Assign) and len(s.targets) == 1 and isinstance(s.targets[0], ast.Name):
            g = "v_" + s.targets[0].id             # `end` is a Coq keyword
            out += f"let {g} := {zexpr(s.value, env)} in\n  "
            env = dict(env)
            env[s.targets[0].id] = ("z", g)
        elif isinstance(s, ast.Return):
            return REQ + "Definition gen_get_event_period (ev : event) : timeslot :=\n  " + out + \
                slotexpr(s.value, env) + ".\n"
        else:
            raise Fail("unsupported statement in _get_event_period")
    raise Fail("_get_event_period does not return")


def tr_replace_event_period(repo):
    fn = find_function(fpi_tree(repo), "_replace_event_period")
    if [a.arg for a in fn.args.args] != ["event", "period"]:
        raise Fail("signature changed")
    b = body_of(fn)
    if not (b and ast.unparse(b[0]) == "e = deepcopy(event)"):
        raise Fail("_replace_event_period no longer starts with e = deepcopy(event)")
    env = {"period": ("slot", "period")}
    cur = "ev"                                     # deepcopy: identity on values
    for s in b[1:]:
        if isinstance(s, ast.Assign) and len(s.targets) == 1 and isinstance(s.targets[0], ast.Attribute) \
                and isinstance(s.targets[0].value, ast.Name) and s.targets[0].value.id == "e":
            if s.targets[0].attr == "timestamp":   # Event's setter floors to the millisecond
                cur = f"(set_ts {cur} (floor_ms {zexpr(s.value, env)}))"
            elif s.targets[0].attr == "duration":
                cur = f"(set_dur {cur} {zexpr(s.value, env)})"
            else:
                raise Fail("assignment to an unexpected attribute")
        elif isinstance(s, ast.Return) and ast.unparse(s.value) == "e":
            return REQ + "Definition gen_replace_event_period (ev : event) (period : timeslot) : event :=\n  " + cur + ".\n"
        else:
            raise Fail("unsupported statement in _replace_event_period")
    raise Fail("_replace_event_period does not return")


def sweep_state(body, env, st):
    """Abstractly execute a block of the while body.  st = (yield text, adv1, adv2)."""
    y, a1, a2 = st
    for i, s in enumerate(body):
        if isinstance(s, ast.Expr) and isinstance(s.value, ast.Constant):
            continue
        if isinstance(s, ast.Expr) and isinstance(s.value, ast.Call) and ast.unparse(s.value.func).startswith("logger."):
            continue
        if isinstance(s, ast.Expr) and isinstance(s.value, ast.Yield):
            if ast.unparse(s.value.value) != "(e1, e2, ip)" or y != "None" or env.get("ip", ("",))[0] != "slot":
                raise Fail("unexpected yield")
            y = "Some ip"
            continue
        if isinstance(s, ast.AugAssign) and isinstance(s.op, ast.Add) and ast.unparse(s.value) == "1" \
                and isinstance(s.target, ast.Name) and s.target.id in ("e1_i", "e2_i"):
            if s.target.id == "e1_i":
                if a1 != "false":
                    raise Fail("e1_i advanced twice")
                a1 = "true"
            else:
                if a2 != "false":
                    raise Fail("e2_i advanced twice")
                a2 = "true"
            continue
        if isinstance(s, ast.If):
            if body[i + 1:]:
                raise Fail("statements after an if in the loop body")
            if ast.unparse(s.test) == "ip" and env.get("ip") == ("optslot", "ip"):
                env2 = dict(env)
                env2["ip"] = ("slot", "ip")
                return (f"match ip with\n  | Some ip => {sweep_state(s.body, env2, (y, a1, a2))}\n"
                        f"  | None => {sweep_state(s.orelse, env, (y, a1, a2))}\n  end")
            return (f"if {bexpr(s.test, env)}\n  then {sweep_state(s.body, env, (y, a1, a2))}\n"
                    f"  else {sweep_state(s.orelse, env, (y, a1, a2))}")
        raise Fail("unsupported statement in the sweep body: " + ast.unparse(s)[:50])
    return f"({y}, ({a1}, {a2}))"


def tr_sweep_step(repo):
    fn = find_function(fpi_tree(repo), "_intersecting_eventpairs")
    if [a.arg for a in fn.args.args] != ["events1", "events2"]:
        raise Fail("signature changed")
    b = body_of(fn)
    head = [ast.unparse(s) for s in b[:4]]
    if head != ["events1.sort(key=lambda e: e.timestamp)", "events2.sort(key=lambda e: e.timestamp)",
                "e1_i = 0", "e2_i = 0"] or len(b) != 5 or not isinstance(b[4], ast.While):
        raise Fail("_intersecting_eventpairs prologue changed: " + "; ".join(head))
    w = b[4]
    if ast.unparse(w.test) != "e1_i < len(events1) and e2_i < len(events2)" or w.orelse:
        raise Fail("while header changed")
    wb = w.body
    if [ast.unparse(s) for s in wb[:5]] != ["e1 = events1[e1_i]", "e2 = events2[e2_i]",
                                             "e1_p = _get_event_period(e1)", "e2_p = _get_event_period(e2)",
                                             "ip = e1_p.intersection(e2_p)"]:
        raise Fail("loop body prologue changed")
    env = {"e1": ("event", "e1"), "e2": ("event", "e2"), "e1_p": ("slot", "e1_p"), "e2_p": ("slot", "e2_p"),
           "ip": ("optslot", "ip")}
    body = sweep_state(wb[5:], env, ("None", "false", "false"))
    return (REQ + "Definition gen_sweep_step (e1 e2 : event) : option timeslot * (bool * bool) :=\n"
            "  let e1_p := gen_get_event_period e1 in\n  let e2_p := gen_get_event_period e2 in\n"
            "  let ip := gen_slot_intersection e1_p e2_p in\n  " + body + ".\n")


def tr_union_step(repo):
    fn = find_function(fpi_tree(repo), "period_union")
    if [a.arg for a in fn.args.args] != ["events1", "events2"]:
        raise Fail("signature changed")
    b = body_of(fn)
    if len(b) != 6:
        raise Fail("period_union has a different number of statements")
    want = {0: "events = sorted(events1 + events2)", 1: "merged_events = []",
            2: "if events:\n    merged_events.append(events.pop(0))",
            4: "for event in merged_events:\n    event.data = {}", 5: "return merged_events"}
    for i, t in want.items():
        if ast.unparse(b[i]) != t:
            raise Fail(f"period_union statement {i} changed: {ast.unparse(b[i])[:60]}")
    loop = b[3]
    if not isinstance(loop, ast.For) or ast.unparse(loop.target) != "e" or ast.unparse(loop.iter) != "events" or loop.orelse:
        raise Fail("period_union loop header changed")
    lb = [s for s in loop.body if not (isinstance(s, ast.Expr) and isinstance(s.value, ast.Constant))]
    if [ast.unparse(s) for s in lb[:3]] != ["last_event = merged_events[-1]", "e_p = _get_event_period(e)",
                                             "le_p = _get_event_period(last_event)"] or len(lb) != 4 \
            or not isinstance(lb[3], ast.If):
        raise Fail("period_union loop body prologue changed")
    env = {"e": ("event", "e"), "last_event": ("event", "last_event"), "e_p": ("slot", "e_p"), "le_p": ("slot", "le_p")}
    iff = lb[3]
    cond = bexpr(iff.test, env)
    tb = [ast.unparse(s) for s in iff.body]
    if len(iff.body) != 2 or tb[1] != "merged_events[-1] = _replace_event_period(last_event, new_period)":
        raise Fail("period_union merge branch changed: " + "; ".join(tb))
    s0 = iff.body[0]
    u = method_call(s0.value, env, "union") if isinstance(s0, ast.Assign) and ast.unparse(s0.targets[0]) == "new_period" else None
    if not u:
        raise Fail("period_union merge branch: new_period is not <slot>.union(<slot>)")
    if [ast.unparse(s) for s in iff.orelse] != ["merged_events.append(e)"]:
        raise Fail("period_union append branch changed")
    # result: the new top of merged_events, newest first, replacing [last_event]
    return (REQ + "Definition gen_union_step (last_event e : event) : res (list event) :=\n"
            "  let e_p := gen_get_event_period e in\n  let le_p := gen_get_event_period last_event in\n"
            f"  if {cond}\n"
            f"  then bind (gen_slot_union {u[0]} {u[1]}) (fun new_period => Ok [gen_replace_event_period last_event new_period])\n"
            "  else Ok [e; last_event].\n")


KERNELS = {
    "GenTimeslot": [
        ("Timeslot.duration", tr_duration),
        ("Timeslot.contains", tr_contains),
        ("Timeslot.overlaps", tr_bool_method("overlaps")),
        ("Timeslot.intersection", tr_opt_method("intersection")),
        ("Timeslot.adjacent", tr_bool_method("adjacent")),
        ("Timeslot.gap", tr_opt_method("gap")),
        ("Timeslot.union", tr_union),
        ("_get_event_period", tr_get_event_period),
        ("_replace_event_period", tr_replace_event_period),
        ("_intersecting_eventpairs.body", tr_sweep_step),
        ("period_union.body", tr_union_step),
    ],
}
