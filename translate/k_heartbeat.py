"""Kernels of aw_transform/heartbeats.py.

heartbeat_merge is translated compositionally by py2v.stmts.  heartbeat_reduce is a loop over a
list that is built by mutation (`reduced.append`, `reduced[-1] = ...`, `events.pop(0)`); it is
matched statement by statement against the shapes it has today and every shape is rendered by
the list primitive it means (`py_last`, `py_set_last`, `++ [x]`); the callee, the order of its
arguments, the sense of the `is not None` test and which branch does what are read from the
source.  Anything else raises Fail (fail closed): the definition is then missing from
coq/Gen/GenHeartbeat.v and the bridge lemma stops compiling."""
import ast
import os

from py2v import Fail, find_function, is_skippable, stmts


def _tree(repo):
    return ast.parse(open(os.path.join(repo, "aw_transform/heartbeats.py")).read())


def tr_heartbeat_merge(repo):
    fn = find_function(_tree(repo), "heartbeat_merge")
    args = [a.arg for a in fn.args.args]
    if args != ["last_event", "heartbeat", "pulsetime"] or fn.args.vararg or fn.args.kwarg or fn.args.defaults:
        raise Fail("signature changed")
    body = stmts(fn.body, {a: a for a in args}, "None", ("Some %s", "None"))
    return ("Definition gen_heartbeat_merge (last_event heartbeat : event) (pulsetime : Z) : option event :=\n  "
            + body + ".\n")


def _is_name(e, n):
    return isinstance(e, ast.Name) and e.id == n


def _is_last_of(e, lst):
    """<lst>[-1]"""
    if not (isinstance(e, ast.Subscript) and _is_name(e.value, lst)):
        return False
    s = e.slice
    return isinstance(s, ast.UnaryOp) and isinstance(s.op, ast.USub) and isinstance(s.operand, ast.Constant) \
        and s.operand.value == 1 and type(s.operand.value) is int


def _append_call(s, lst):
    """`<lst>.append(X)` as a statement -> X"""
    if isinstance(s, ast.Expr) and isinstance(s.value, ast.Call) and isinstance(s.value.func, ast.Attribute) \
            and s.value.func.attr == "append" and _is_name(s.value.func.value, lst) \
            and len(s.value.args) == 1 and not s.value.keywords:
        return s.value.args[0]
    return None


def tr_heartbeat_reduce(repo):
    fn = find_function(_tree(repo), "heartbeat_reduce")
    a = fn.args
    if [x.arg for x in a.args] != ["events", "pulsetime"] or a.vararg or a.kwarg or a.defaults or a.kwonlyargs \
            or fn.decorator_list:
        raise Fail("signature of heartbeat_reduce changed")
    body = [s for s in fn.body if not is_skippable(s)]
    if len(body) != 4:
        raise Fail("heartbeat_reduce no longer has the four statements init / first / loop / return")
    init, first, loop, ret = body
    # reduced = []
    if not (isinstance(init, ast.Assign) and len(init.targets) == 1 and isinstance(init.targets[0], ast.Name)
            and isinstance(init.value, ast.List) and not init.value.elts):
        raise Fail("expected `<acc> = []`")
    acc = init.targets[0].id
    # if events: reduced.append(events.pop(0))
    if not (isinstance(first, ast.If) and _is_name(first.test, "events") and not first.orelse and len(first.body) == 1):
        raise Fail("expected `if events: <acc>.append(events.pop(0))`")
    x = _append_call(first.body[0], acc)
    if not (isinstance(x, ast.Call) and isinstance(x.func, ast.Attribute) and x.func.attr == "pop"
            and _is_name(x.func.value, "events") and len(x.args) == 1 and not x.keywords
            and isinstance(x.args[0], ast.Constant) and x.args[0].value == 0 and type(x.args[0].value) is int):
        raise Fail("expected events.pop(0) as the first element")
    # for heartbeat in events:
    if not (isinstance(loop, ast.For) and isinstance(loop.target, ast.Name) and _is_name(loop.iter, "events")
            and not loop.orelse):
        raise Fail("expected `for <hb> in events:`")
    hb = loop.target.id
    lb = [s for s in loop.body if not is_skippable(s)]
    if len(lb) != 2 or not isinstance(lb[0], ast.Assign) or not isinstance(lb[1], ast.If):
        raise Fail("loop body is no longer `m = heartbeat_merge(...); if ...: ... else: ...`")
    asg, iff = lb
    if not (len(asg.targets) == 1 and isinstance(asg.targets[0], ast.Name) and isinstance(asg.value, ast.Call)
            and _is_name(asg.value.func, "heartbeat_merge") and not asg.value.keywords and len(asg.value.args) == 3):
        raise Fail("expected `<m> = heartbeat_merge(a, b, c)`")
    m = asg.targets[0].id
    rendered = []
    for arg in asg.value.args:
        if _is_last_of(arg, acc):
            rendered.append("last")
        elif _is_name(arg, hb):
            rendered.append("heartbeat")
        elif _is_name(arg, "pulsetime"):
            rendered.append("pulsetime")
        else:
            raise Fail("unsupported argument of heartbeat_merge: " + ast.dump(arg)[:60])
    if "last" not in rendered:
        raise Fail("heartbeat_merge is no longer called on <acc>[-1]")
    # if merged is not None: / if merged is None:
    t = iff.test
    if not (isinstance(t, ast.Compare) and _is_name(t.left, m) and len(t.ops) == 1
            and isinstance(t.ops[0], (ast.IsNot, ast.Is)) and isinstance(t.comparators[0], ast.Constant)
            and t.comparators[0].value is None):
        raise Fail("expected `<m> is not None` / `<m> is None`")
    some_branch, none_branch = (iff.body, iff.orelse) if isinstance(t.ops[0], ast.IsNot) else (iff.orelse, iff.body)

    def branch(stmts_, bound):
        ss = [s for s in stmts_ if not is_skippable(s)]
        if len(ss) != 1:
            raise Fail("a branch of the loop is no longer one statement")
        s = ss[0]
        val = {hb: "heartbeat"}
        if bound:
            val[m] = "merged"
        x = _append_call(s, acc)
        if x is not None:
            if isinstance(x, ast.Name) and x.id in val:
                return f"(reduced ++ [{val[x.id]}])"
            raise Fail("unsupported appended value")
        if isinstance(s, ast.Assign) and len(s.targets) == 1 and _is_last_of(s.targets[0], acc) \
                and isinstance(s.value, ast.Name) and s.value.id in val:
            return f"(py_set_last reduced {val[s.value.id]})"
        raise Fail("unsupported statement in a branch of the loop: " + ast.dump(s)[:60])

    some_txt, none_txt = branch(some_branch, True), branch(none_branch, False)
    if not (isinstance(ret, ast.Return) and _is_name(ret.value, acc)):
        raise Fail("expected `return <acc>`")
    return (
        "Definition py_last {A} (l : list A) : option A := match rev l with [] => None | x :: _ => Some x end.\n"
        "Definition py_set_last {A} (l : list A) (x : A) : list A := removelast l ++ [x].\n"
        "Fixpoint gen_reduce_loop (pulsetime : Z) (reduced events : list event) : res (list event) :=\n"
        "  match events with\n"
        "  | [] => Ok reduced\n"
        "  | heartbeat :: events' =>\n"
        "      match py_last reduced with\n"
        "      | None => Err IndexError\n"
        "      | Some last =>\n"
        f"          match gen_heartbeat_merge {' '.join(rendered)} with\n"
        f"          | Some merged => gen_reduce_loop pulsetime {some_txt} events'\n"
        f"          | None => gen_reduce_loop pulsetime {none_txt} events'\n"
        "          end\n"
        "      end\n"
        "  end.\n"
        "Definition gen_heartbeat_reduce (events : list event) (pulsetime : Z) : res (list event) :=\n"
        "  match events with\n"
        "  | [] => gen_reduce_loop pulsetime [] []\n"
        "  | first :: events' => gen_reduce_loop pulsetime ([] ++ [first]) events'\n"
        "  end.\n")


KERNELS = {
    "GenHeartbeat": [("heartbeat_merge", tr_heartbeat_merge), ("heartbeat_reduce", tr_heartbeat_reduce)],
}
