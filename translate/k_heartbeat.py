"""Kernels of aw_transform/heartbeats.py."""
import ast
import os

from py2v import Fail, find_function, stmts


def tr_heartbeat_merge(repo):
    tree = ast.parse(open(os.path.join(repo, "aw_transform/heartbeats.py")).read())
    fn = find_function(tree, "heartbeat_merge")
    args = [a.arg for a in fn.args.args]
    if args != ["last_event", "heartbeat", "pulsetime"] or fn.args.vararg or fn.args.kwarg or fn.args.defaults:
        raise Fail("signature changed")
    body = stmts(fn.body, {a: a for a in args}, "None", ("Some %s", "None"))
    return ("Definition gen_heartbeat_merge (last_event heartbeat : event) (pulsetime : Z) : option event :=\n  "
            + body + ".\n")


KERNELS = {
    "GenHeartbeat": [("heartbeat_merge", tr_heartbeat_merge)],
}
