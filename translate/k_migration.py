"""Tie B for the migration (C14): kernels read off aw_datastore/migration.py,
aw_datastore/storages/sqlite.py and peewee.py with `ast`, emitted into coq/Gen/GenMigration.v and
proved equal to Model/Migration.v / Model/MigrationCommit.v in coq/Bridge/BridgeMigration.v.

  migration_loop   -> gen_loop_script : list mstep        the statements of the copy loop of
                      peewee_v2_to_sqlite_v1 in source order: which bucket["field"] is bound to which
                      parameter of SqliteStorage.create_bucket (positions resolved against that
                      method's own signature), the limit literal of get_events, the id-stripping
                      loop, the bulk insert of the same list into the same bucket; plus the checks
                      that the legacy store is PeeweeStorage(datastore.testing), that buckets come
                      from pw_db.buckets() and that only buckets()/get_events() are called on pw_db
  migration_names  -> gen_detect_db_files, gen_check_for_migration : the split separator, the two
                      component indices, the "v" prefix, the sid / legacy-name / "-testing" literals,
                      the version literal and the `len(..) > 0` test
  migration_init   -> gen_sq_filename, gen_pw_filename (default file names of the two stores),
                      gen_sq_init_migrates (the guard of SqliteStorage.__init__) and
                      gen_init_commits_after_migration

Fail-closed: anything outside the recognised shapes raises Fail, the definition is omitted and the
bridge lemma stops compiling."""
import ast
import os

from py2v import Fail, find_function, is_skippable

MIGRATION = "aw_datastore/migration.py"
SQLITE = "aw_datastore/storages/sqlite.py"
PEEWEE = "aw_datastore/storages/peewee.py"
FIELDS = {"id": "BId", "type": "BType", "client": "BClient", "hostname": "BHostname", "created": "BCreated",
          "name": "BName", "data": "BData"}
CREATE_PARAMS = ["bucket_id", "type_id", "client", "hostname", "created", "name", "data"]


def _parse(repo, path):
    return ast.parse(open(os.path.join(repo, path)).read())


def _cls(tree, name):
    for n in tree.body:
        if isinstance(n, ast.ClassDef) and n.name == name:
            return n
    raise Fail(f"class {name} not found")


def _method(cls, name):
    for n in cls.body:
        if isinstance(n, ast.FunctionDef) and n.name == name:
            return n
    raise Fail(f"method {name} not found")


def lit(s):
    return "[" + "; ".join(str(ord(c)) for c in s) + "]"


def tr_header(repo):
    return "From AwVerif Require Import Model.StoreBase Model.SqliteStore Model.PeeweeStore Model.Migration.\n"


# ---------------------------------------------------------------------------
# the copy loop


def _is_name(e, name):
    return isinstance(e, ast.Name) and e.id == name


def _call(e, recv, meth):
    return (isinstance(e, ast.Call) and isinstance(e.func, ast.Attribute) and e.func.attr == meth
            and _is_name(e.func.value, recv))


def _bucket_field(e, var):
    if (isinstance(e, ast.Subscript) and _is_name(e.value, var) and isinstance(e.slice, ast.Constant)
            and isinstance(e.slice.value, str)):
        f = e.slice.value
        if f not in FIELDS:
            raise Fail(f"unknown bucket field {f!r}")
        return FIELDS[f]
    raise Fail("create_bucket argument is not bucket[\"<field>\"]: " + ast.unparse(e))


def tr_loop(repo):
    fn = find_function(_parse(repo, MIGRATION), "peewee_v2_to_sqlite_v1")
    if [a.arg for a in fn.args.args] != ["datastore"]:
        raise Fail("signature changed")
    # parameters of the callee, from its own source
    cb = _method(_cls(_parse(repo, SQLITE), "SqliteStorage"), "create_bucket")
    params = [a.arg for a in cb.args.args][1:]
    if params != CREATE_PARAMS:
        raise Fail(f"SqliteStorage.create_bucket parameters changed: {params}")
    body = [s for s in fn.body if not is_skippable(s) and not isinstance(s, ast.ImportFrom)]
    if len(body) != 3:
        raise Fail("peewee_v2_to_sqlite_v1: expected open / buckets / loop")
    s0, s1, loop = body
    if ast.unparse(s0) != "pw_db = PeeweeStorage(datastore.testing)":
        raise Fail("legacy store is not opened as PeeweeStorage(datastore.testing): " + ast.unparse(s0))
    if ast.unparse(s1) != "buckets = pw_db.buckets()":
        raise Fail("buckets are not read with pw_db.buckets(): " + ast.unparse(s1))
    if not (isinstance(loop, ast.For) and _is_name(loop.target, "bucket_id") and _is_name(loop.iter, "buckets")
            and not loop.orelse):
        raise Fail("loop header is not `for bucket_id in buckets`")
    # only read methods on the legacy store, anywhere in the function
    for n in ast.walk(fn):
        if isinstance(n, ast.Attribute) and _is_name(n.value, "pw_db") and n.attr not in ("buckets", "get_events"):
            raise Fail(f"pw_db.{n.attr} used: the legacy store must only be read")
    steps = []
    bucket_var = None
    events_var = None
    for s in loop.body:
        if is_skippable(s):
            continue
        if isinstance(s, ast.Assign) and len(s.targets) == 1 and isinstance(s.targets[0], ast.Name):
            tgt = s.targets[0].id
            if ast.unparse(s.value) == "buckets[bucket_id]":
                bucket_var = tgt
                continue
            if _call(s.value, "pw_db", "get_events"):
                a = s.value.args
                if s.value.keywords or len(a) != 2 or not _is_name(a[0], "bucket_id"):
                    raise Fail("get_events is not called as (bucket_id, <limit>): " + ast.unparse(s.value))
                try:
                    limit = ast.literal_eval(a[1])
                except ValueError:
                    raise Fail("get_events limit is not a literal")
                if type(limit) is not int:
                    raise Fail("get_events limit is not an int literal")
                events_var = tgt
                steps.append(f"MGetEvents ({limit})")
                continue
            raise Fail("unsupported assignment in the loop: " + ast.unparse(s))
        if isinstance(s, ast.Expr) and _call(s.value, "datastore", "create_bucket"):
            if bucket_var is None:
                raise Fail("create_bucket before `bucket = buckets[bucket_id]`")
            bound = {}
            if len(s.value.args) > len(params):
                raise Fail("too many arguments to create_bucket")
            for p, a in zip(params, s.value.args):
                bound[p] = _bucket_field(a, bucket_var)
            for kw in s.value.keywords:
                if kw.arg not in params or kw.arg in bound:
                    raise Fail(f"bad keyword {kw.arg} in create_bucket call")
                bound[kw.arg] = _bucket_field(kw.value, bucket_var)
            missing = [p for p in params if p not in bound]
            if missing:
                raise Fail(f"create_bucket is not passed {missing} (the callee's default would be used)")
            steps.append("MCreateBucket (mkCreateCall " + " ".join(bound[p] for p in params) + ")")
            continue
        if isinstance(s, ast.For):
            if (events_var and _is_name(s.iter, events_var) and isinstance(s.target, ast.Name) and not s.orelse
                    and [ast.unparse(x) for x in s.body if not is_skippable(x)] == [f"{s.target.id}.id = None"]):
                steps.append("MStripIds")
                continue
            raise Fail("unsupported inner loop: " + ast.unparse(s)[:80])
        if isinstance(s, ast.Expr) and _call(s.value, "datastore", "insert_many"):
            a = s.value.args
            if s.value.keywords or len(a) != 2 or not _is_name(a[0], "bucket_id") or not (events_var and _is_name(a[1], events_var)):
                raise Fail("insert_many is not called as (bucket_id, <the list read from the legacy store>)")
            steps.append("MInsertMany")
            continue
        raise Fail("unsupported statement in the loop: " + ast.unparse(s)[:80])
    return "Definition gen_loop_script : list mstep :=\n  [" + ";\n   ".join(steps) + "].\n"


# ---------------------------------------------------------------------------
# strings


class StrTr:
    """str-valued expressions -> Gallina `name` terms.  env: local name -> Gallina text;
    consts: module-level int constants usable inside f-strings; testing: Python spellings of the
    profile flag."""

    def __init__(self, env, consts, testing):
        self.env, self.consts, self.testing = env, consts, testing

    def tr(self, e):
        if isinstance(e, ast.Constant) and isinstance(e.value, str):
            return lit(e.value)
        if isinstance(e, ast.Name) and e.id in self.env:
            return self.env[e.id]
        if isinstance(e, ast.Attribute) and ast.unparse(e) in self.env:
            return self.env[ast.unparse(e)]
        if isinstance(e, ast.BinOp) and isinstance(e.op, ast.Add):
            return f"({self.tr(e.left)} ++ {self.tr(e.right)})"
        if isinstance(e, ast.IfExp):
            if ast.unparse(e.test) not in self.testing:
                raise Fail("conditional string on something else than the profile flag: " + ast.unparse(e.test))
            return f"(if testing then {self.tr(e.body)} else {self.tr(e.orelse)})"
        if isinstance(e, ast.JoinedStr):
            parts = []
            for v in e.values:
                if isinstance(v, ast.Constant) and isinstance(v.value, str):
                    parts.append(lit(v.value))
                elif isinstance(v, ast.FormattedValue) and v.conversion == -1 and v.format_spec is None:
                    parts.append(self.num(v.value))
                else:
                    raise Fail("unsupported f-string part")
            return "(" + " ++ ".join(parts) + ")" if parts else "[]"
        raise Fail("unsupported string expression " + ast.unparse(e)[:60])

    def num(self, e):
        if isinstance(e, ast.Name) and e.id in self.consts:
            return f"int_str ({self.consts[e.id]})"
        if isinstance(e, ast.Name) and e.id in self.env:
            return f"int_str {self.env[e.id]}"
        raise Fail("unsupported value inside an f-string: " + ast.unparse(e))


def _module_int(tree, name):
    for n in tree.body:
        if isinstance(n, ast.Assign) and len(n.targets) == 1 and _is_name(n.targets[0], name):
            if isinstance(n.value, ast.Constant) and type(n.value.value) is int:
                return n.value.value
    raise Fail(f"module constant {name} is not an int literal")


def _class_str(cls, name):
    for n in cls.body:
        if isinstance(n, ast.Assign) and len(n.targets) == 1 and _is_name(n.targets[0], name):
            if isinstance(n.value, ast.Constant) and isinstance(n.value.value, str):
                return n.value.value
    raise Fail(f"class attribute {name} is not a str literal")


# ---------------------------------------------------------------------------
# detect_db_files / check_for_migration


def _split_filter(comp, var):
    """[filename for filename in db_files if filename.split(SEP)[i] == RHS] -> (sep, i, rhs)"""
    if not (isinstance(comp, ast.ListComp) and len(comp.generators) == 1 and _is_name(comp.elt, var)):
        raise Fail("not a filtering comprehension")
    g = comp.generators[0]
    if not (_is_name(g.target, var) and _is_name(g.iter, "db_files") and len(g.ifs) == 1 and not g.is_async):
        raise Fail("comprehension does not filter db_files")
    t = g.ifs[0]
    if not (isinstance(t, ast.Compare) and len(t.ops) == 1 and isinstance(t.ops[0], ast.Eq)):
        raise Fail("filter is not an == test")
    l = t.left
    if not (isinstance(l, ast.Subscript) and isinstance(l.slice, ast.Constant) and type(l.slice.value) is int
            and isinstance(l.value, ast.Call) and isinstance(l.value.func, ast.Attribute) and l.value.func.attr == "split"
            and _is_name(l.value.func.value, var) and len(l.value.args) == 1 and not l.value.keywords
            and isinstance(l.value.args[0], ast.Constant) and isinstance(l.value.args[0].value, str)):
        raise Fail("left side is not filename.split(<sep>)[<i>]")
    return l.value.args[0].value, l.slice.value, t.comparators[0]


def tr_names(repo):
    tree = _parse(repo, MIGRATION)
    fn = find_function(tree, "detect_db_files")
    if [a.arg for a in fn.args.args] != ["data_dir", "datastore_name", "version"] or \
            [ast.unparse(d) for d in fn.args.defaults] != ["None", "None"]:
        raise Fail("detect_db_files signature changed")
    body = [s for s in fn.body if not is_skippable(s)]
    if len(body) != 4:
        raise Fail("detect_db_files: expected listing / name filter / version filter / return")
    if ast.unparse(body[0]) != "db_files = [filename for filename in os.listdir(data_dir)]":
        raise Fail("listing is not os.listdir(data_dir)")
    i1, i2 = body[1], body[2]
    if not (isinstance(i1, ast.If) and _is_name(i1.test, "datastore_name") and not i1.orelse and len(i1.body) == 1
            and isinstance(i1.body[0], ast.Assign) and _is_name(i1.body[0].targets[0], "db_files")):
        raise Fail("name filter is not `if datastore_name: db_files = [...]`")
    if not (isinstance(i2, ast.If) and _is_name(i2.test, "version") and not i2.orelse and len(i2.body) == 1
            and isinstance(i2.body[0], ast.Assign) and _is_name(i2.body[0].targets[0], "db_files")):
        raise Fail("version filter is not `if version: db_files = [...]`")
    if ast.unparse(body[3]) != "return db_files":
        raise Fail("does not return db_files")
    sep1, idx1, rhs1 = _split_filter(i1.body[0].value, "filename")
    sep2, idx2, rhs2 = _split_filter(i2.body[0].value, "filename")
    if sep1 != "." or sep2 != ".":
        raise Fail("split separator is not \".\"")
    if not _is_name(rhs1, "datastore_name"):
        raise Fail("name filter does not compare with datastore_name")
    if idx1 != 0:
        raise Fail(f"name filter reads component {idx1} (only component 0 is total)")
    comp2 = {0: "Ok (component0 filename)", 1: "component1 filename"}.get(idx2)
    if comp2 is None:
        raise Fail(f"version filter reads component {idx2}")
    vt = StrTr({"version": "v"}, {}, ()).tr(rhs2)
    detect = (
        "Definition gen_detect_db_files (listing : list name) (datastore_name : option name) (version : option Z)\n"
        "  : res (list name) :=\n"
        "  let db_files := listing in\n"
        "  let db_files :=\n"
        "    match datastore_name with\n"
        "    | Some n => if str_truthy n then filter (fun filename => name_eqb (component0 filename) n) db_files else db_files\n"
        "    | None => db_files\n"
        "    end in\n"
        "  match version with\n"
        "  | Some v =>\n"
        "      if v =? 0 then Ok db_files\n"
        f"      else filter_res (fun filename => match {comp2} with\n"
        f"                                       | Ok c => Ok (name_eqb c {vt})\n"
        "                                       | Err k => Err k\n"
        "                                       | OutOfFuel => OutOfFuel\n"
        "                                       end) db_files\n"
        "  | None => Ok db_files\n"
        "  end.\n")
    # check_for_migration
    fn = find_function(tree, "check_for_migration")
    if [a.arg for a in fn.args.args] != ["datastore"]:
        raise Fail("check_for_migration signature changed")
    body = [s for s in fn.body if not is_skippable(s)]
    if len(body) != 2 or ast.unparse(body[0]) != "data_dir = get_data_dir('aw-server')":
        raise Fail("check_for_migration: data dir is not get_data_dir('aw-server')")
    top = body[1]
    if not (isinstance(top, ast.If) and not top.orelse and isinstance(top.test, ast.Compare) and len(top.test.ops) == 1
            and isinstance(top.test.ops[0], ast.Eq) and ast.unparse(top.test.left) == "datastore.sid"
            and isinstance(top.test.comparators[0], ast.Constant) and isinstance(top.test.comparators[0].value, str)):
        raise Fail("check_for_migration: guard is not `datastore.sid == <literal>`")
    sid = top.test.comparators[0].value
    st = StrTr({}, {}, ("datastore.testing",))
    detect_call = None
    decision = None
    for s in top.body:
        if is_skippable(s):
            continue
        if isinstance(s, ast.Assign) and len(s.targets) == 1 and isinstance(s.targets[0], ast.Name):
            tgt = s.targets[0].id
            v = s.value
            if isinstance(v, ast.Call) and _is_name(v.func, "detect_db_files"):
                if v.keywords or len(v.args) != 3 or not _is_name(v.args[0], "data_dir"):
                    raise Fail("detect_db_files is not called as (data_dir, <name>, <version>)")
                if not (isinstance(v.args[2], ast.Constant) and type(v.args[2].value) is int):
                    raise Fail("version argument is not an int literal")
                detect_call = (tgt, st.tr(v.args[1]), v.args[2].value)
            else:
                st.env[tgt] = st.tr(v)
            continue
        if isinstance(s, ast.If) and detect_call and not s.orelse:
            t = s.test
            if not (isinstance(t, ast.Compare) and len(t.ops) == 1 and isinstance(t.ops[0], ast.Gt)
                    and ast.unparse(t.left) == f"len({detect_call[0]})" and isinstance(t.comparators[0], ast.Constant)
                    and type(t.comparators[0].value) is int):
                raise Fail("decision is not `len(<detected>) > <int>`")
            if [ast.unparse(x) for x in s.body if not is_skippable(x)] != ["peewee_v2_to_sqlite_v1(datastore)"]:
                raise Fail("decision body is not peewee_v2_to_sqlite_v1(datastore)")
            decision = t.comparators[0].value
            continue
        raise Fail("unsupported statement in check_for_migration: " + ast.unparse(s)[:80])
    if detect_call is None or decision is None:
        raise Fail("check_for_migration: detect call / decision not found")
    check = (
        "Definition gen_check_for_migration (sid : name) (testing : bool) (listing : list name) : res bool :=\n"
        f"  if name_eqb sid {lit(sid)} then\n"
        f"    match gen_detect_db_files listing (Some {detect_call[1]}) (Some ({detect_call[2]})) with\n"
        f"    | Ok l => Ok ({decision} <? Z.of_nat (length l))\n"
        "    | Err k => Err k\n"
        "    | OutOfFuel => OutOfFuel\n"
        "    end\n"
        "  else Ok false.\n")
    return detect + "\n" + check


# ---------------------------------------------------------------------------
# SqliteStorage.__init__ / PeeweeStorage.__init__: default file names, guard, final commit


def _default_filename(init, consts, env):
    """the `filename = ...` assignment inside `if not filepath:` (with its local string assignments)"""
    st = StrTr(dict(env), consts, ("testing",))
    found = None

    def visit(stmts_):
        nonlocal found
        for s in stmts_:
            if isinstance(s, ast.Assign) and len(s.targets) == 1 and isinstance(s.targets[0], ast.Name):
                tgt = s.targets[0].id
                if tgt == "filename":
                    found = st.tr(s.value)
                elif tgt in ("ds_name",):
                    st.env[tgt] = st.tr(s.value)
            elif isinstance(s, ast.If) and ast.unparse(s.test) == "not filepath":
                visit(s.body)
    visit(init.body)
    if found is None:
        raise Fail("default filename assignment not found")
    return found


def tr_init(repo):
    stree = _parse(repo, SQLITE)
    scls = _cls(stree, "SqliteStorage")
    sinit = _method(scls, "__init__")
    sq_name = _default_filename(sinit, {"LATEST_VERSION": _module_int(stree, "LATEST_VERSION")},
                                {"self.sid": lit(_class_str(scls, "sid"))})
    ptree = _parse(repo, PEEWEE)
    pinit = _method(_cls(ptree, "PeeweeStorage"), "__init__")
    pw_name = _default_filename(pinit, {"LATEST_VERSION": _module_int(ptree, "LATEST_VERSION")}, {})
    # the guard and what follows the check
    want = {"ignore_migration_check": "filepath is not None", "new_db_file": "not os.path.exists(filepath)"}
    seen = {}
    guard = None
    for s in sinit.body:
        if isinstance(s, ast.Assign) and len(s.targets) == 1 and isinstance(s.targets[0], ast.Name) \
                and s.targets[0].id in want:
            seen[s.targets[0].id] = ast.unparse(s.value)
        if isinstance(s, ast.If) and any(isinstance(n, ast.Name) and n.id == "check_for_migration" for n in ast.walk(s)):
            guard = s
    if seen != want:
        raise Fail(f"guard variables changed: {seen}")
    if guard is None or ast.unparse(guard.test) != "new_db_file and (not ignore_migration_check)" or guard.orelse:
        raise Fail("guard is not `if new_db_file and not ignore_migration_check`")
    # new_db_file must be evaluated before the connection creates the file
    order = [ast.unparse(s)[:40] for s in sinit.body]
    i_new = next(i for i, t in enumerate(order) if t.startswith("new_db_file ="))
    i_conn = next((i for i, t in enumerate(order) if t.startswith("self.conn = sqlite3.connect(")), None)
    if i_conn is None or i_new > i_conn:
        raise Fail("new_db_file is not computed before sqlite3.connect")
    body = [s for s in guard.body if not is_skippable(s) and not isinstance(s, ast.ImportFrom)]
    texts = [ast.unparse(s) for s in body]
    if not texts or texts[0] != "check_for_migration(self)":
        raise Fail("guard body does not start with check_for_migration(self): " + str(texts))
    commits = len(texts) >= 2 and texts[1] == "self.commit()"
    if len(texts) > (2 if commits else 1):
        raise Fail("unexpected statements after check_for_migration(self): " + str(texts))
    sid = lit(_class_str(scls, "sid"))
    return (
        f"Definition gen_sq_filename (testing : bool) : name := {sq_name}.\n"
        f"Definition gen_pw_filename (testing : bool) : name := {pw_name}.\n"
        "Definition gen_sq_init_migrates (testing : bool) (p : sqpath) (listing : list name) : res bool :=\n"
        "  let ignore_migration_check := match p with CustomPath _ => true | DefaultPath => false end in\n"
        "  if new_db_file testing p listing && negb ignore_migration_check\n"
        f"  then gen_check_for_migration {sid} testing (listing ++ sq_created_files testing)\n"
        "  else Ok false.\n"
        f"Definition gen_init_commits_after_migration : bool := {'true' if commits else 'false'}.\n")


KERNELS = {
    "GenMigration": [("migration_header", tr_header), ("migration_loop", tr_loop), ("migration_names", tr_names),
                     ("migration_init", tr_init)],
}
