"""Tie B for the migration (C14): kernels read off aw_datastore/migration.py,
aw_datastore/storages/sqlite.py and peewee.py with `ast`, emitted into coq/Gen/GenMigration.v and
proved equal to Model/Migration.v / Model/MigrationCommit.v in coq/Bridge/BridgeMigration.v.

  migration_loop   -> gen_loop_script : list mstep        the statements of the copy loop of
                      peewee_v2_to_sqlite_v1 in source order: which bucket["field"] is bound to which
                      parameter of SqliteStorage.create_bucket (positions resolved against that
                      method's own signature), the limit literal of get_events, the id-stripping
                      loop, the bulk insert of the same list into the same bucket; plus the checks
                      that the legacy store is PeeweeStorage(datastore.testing), that buckets come
                      from pw_db.buckets() and that only buckets()/get_events() are called on pw_db
  migration_names  -> gen_detect_db_files, gen_check_for_migration : the split separator, the two
                      component indices, the "v" prefix, the sid / legacy-name / "-testing" literals,
                      the version literal and the `len(..) > 0` test
  migration_init   -> gen_sq_filename, gen_pw_filename (default file names of the two stores),
                      gen_sq_init_migrates (the guard of SqliteStorage.__init__) and
                      gen_init_commits_after_migration

  peewee_open_*    -> coq/Gen/GenPeeweeOpen.v (bridged to Model/PeeweeOpen.v in Bridge/BridgePeeweeOpen.v):
                      what PeeweeStorage.__init__ does to the file it opens ("the legacy file is left
                      untouched"): gen_db_pragmas (the arguments the module-level handle `_db` is created
                      with; the two models bound to it through BaseModel.Meta), gen_init_script (the
                      statement sequence of __init__ after the file-name head: init(filepath) / connect /
                      create_table(safe=..) / close / auto_migrate(filepath) / update_bucket_keys, and
                      `if <handle>.is_closed():` blocks as OIfClosed), gen_am_script (auto_migrate: open,
                      column test, `if not has: add_column`, close), gen_table_name/_columns/_indexes
                      (field declarations of BucketModel / EventModel)

Fail-closed: anything outside the recognised shapes raises Fail, the definition is omitted and the
bridge lemma stops compiling."""
import ast
import os

from py2v import Fail, find_function, is_skippable

MIGRATION = "aw_datastore/migration.py"
SQLITE = "aw_datastore/storages/sqlite.py"
PEEWEE = "aw_datastore/storages/peewee.py"
FIELDS = {"id": "BId", "type": "BType", "client": "BClient", "hostname": "BHostname", "created": "BCreated",
          "name": "BName", "data": "BData"}
CREATE_PARAMS = ["bucket_id", "type_id", "client", "hostname", "created", "name", "data"]


def _parse(repo, path):
    return ast.parse(open(os.path.join(repo, path)).read())


def _cls(tree, name):
    for n in tree.body:
        if isinstance(n, ast.ClassDef) and n.name == name:
            return n
    raise Fail(f"class {name} not found")


def _method(cls, name):
    for n in cls.body:
        if isinstance(n, ast.FunctionDef) and n.name == name:
            return n
    raise Fail(f"method {name} not found")


def lit(s):
    return "[" + "; ".join(str(ord(c)) for c in s) + "]"


def tr_header(repo):
    return "From AwVerif Require Import Model.StoreBase Model.SqliteStore Model.PeeweeStore Model.Migration.\n"


# ---------------------------------------------------------------------------
# the copy loop


def _is_name(e, name):
    return isinstance(e, ast.Name) and e.id == name


def _call(e, recv, meth):
    return (isinstance(e, ast.Call) and isinstance(e.func, ast.Attribute) and e.func.attr == meth
            and _is_name(e.func.value, recv))


def _bucket_field(e, var):
    if (isinstance(e, ast.Subscript) and _is_name(e.value, var) and isinstance(e.slice, ast.Constant)
            and isinstance(e.slice.value, str)):
        f = e.slice.value
        if f not in FIELDS:
            raise Fail(f"unknown bucket field {f!r}")
        return FIELDS[f]
    raise Fail("create_bucket argument is not bucket[\"<field>\"]: " + ast.unparse(e))


def tr_loop(repo):
    fn = find_function(_parse(repo, MIGRATION), "peewee_v2_to_sqlite_v1")
    if [a.arg for a in fn.args.args] != ["datastore"]:
        raise Fail("signature changed")
    # parameters of the callee, from its own source
    cb = _method(_cls(_parse(repo, SQLITE), "SqliteStorage"), "create_bucket")
    params = [a.arg for a in cb.args.args][1:]
    if params != CREATE_PARAMS:
        raise Fail(f"SqliteStorage.create_bucket parameters changed: {params}")
    body = [s for s in fn.body if not is_skippable(s) and not isinstance(s, ast.ImportFrom)]
    if len(body) != 3:
        raise Fail("peewee_v2_to_sqlite_v1: expected open / buckets / loop")
    s0, s1, loop = body
    if ast.unparse(s0) != "pw_db = PeeweeStorage(datastore.testing)":
        raise Fail("legacy store is not opened as PeeweeStorage(datastore.testing): " + ast.unparse(s0))
    if ast.unparse(s1) != "buckets = pw_db.buckets()":
        raise Fail("buckets are not read with pw_db.buckets(): " + ast.unparse(s1))
    if not (isinstance(loop, ast.For) and _is_name(loop.target, "bucket_id") and _is_name(loop.iter, "buckets")
            and not loop.orelse):
        raise Fail("loop header is not `for bucket_id in buckets`")
    # only read methods on the legacy store, anywhere in the function
    for n in ast.walk(fn):
        if isinstance(n, ast.Attribute) and _is_name(n.value, "pw_db") and n.attr not in ("buckets", "get_events"):
            raise Fail(f"pw_db.{n.attr} used: the legacy store must only be read")
    steps = []
    bucket_var = None
    events_var = None
    for s in loop.body:
        if is_skippable(s):
            continue
        if isinstance(s, ast.Assign) and len(s.targets) == 1 and isinstance(s.targets[0], ast.Name):
            tgt = s.targets[0].id
            if ast.unparse(s.value) == "buckets[bucket_id]":
                bucket_var = tgt
                continue
            if _call(s.value, "pw_db", "get_events"):
                a = s.value.args
                if s.value.keywords or len(a) != 2 or not _is_name(a[0], "bucket_id"):
                    raise Fail("get_events is not called as (bucket_id, <limit>): " + ast.unparse(s.value))
                try:
                    limit = ast.literal_eval(a[1])
                except ValueError:
                    raise Fail("get_events limit is not a literal")
                if type(limit) is not int:
                    raise Fail("get_events limit is not an int literal")
                events_var = tgt
                steps.append(f"MGetEvents ({limit})")
                continue
            raise Fail("unsupported assignment in the loop: " + ast.unparse(s))
        if isinstance(s, ast.Expr) and _call(s.value, "datastore", "create_bucket"):
            if bucket_var is None:
                raise Fail("create_bucket before `bucket = buckets[bucket_id]`")
            bound = {}
            if len(s.value.args) > len(params):
                raise Fail("too many arguments to create_bucket")
            for p, a in zip(params, s.value.args):
                bound[p] = _bucket_field(a, bucket_var)
            for kw in s.value.keywords:
                if kw.arg not in params or kw.arg in bound:
                    raise Fail(f"bad keyword {kw.arg} in create_bucket call")
                bound[kw.arg] = _bucket_field(kw.value, bucket_var)
            missing = [p for p in params if p not in bound]
            if missing:
                raise Fail(f"create_bucket is not passed {missing} (the callee's default would be used)")
            steps.append("MCreateBucket (mkCreateCall " + " ".join(bound[p] for p in params) + ")")
            continue
        if isinstance(s, ast.For):
            if (events_var and _is_name(s.iter, events_var) and isinstance(s.target, ast.Name) and not s.orelse
                    and [ast.unparse(x) for x in s.body if not is_skippable(x)] == [f"{s.target.id}.id = None"]):
                steps.append("MStripIds")
                continue
            raise Fail("unsupported inner loop: " + ast.unparse(s)[:80])
        if isinstance(s, ast.Expr) and _call(s.value, "datastore", "insert_many"):
            a = s.value.args
            if s.value.keywords or len(a) != 2 or not _is_name(a[0], "bucket_id") or not (events_var and _is_name(a[1], events_var)):
                raise Fail("insert_many is not called as (bucket_id, <the list read from the legacy store>)")
            steps.append("MInsertMany")
            continue
        raise Fail("unsupported statement in the loop: " + ast.unparse(s)[:80])
    return "Definition gen_loop_script : list mstep :=\n  [" + ";\n   ".join(steps) + "].\n"


# ---------------------------------------------------------------------------
# strings


class StrTr:
    """str-valued expressions -> Gallina `name` terms.  env: local name -> Gallina text;
    consts: module-level int constants usable inside f-strings; testing: Python spellings of the
    profile flag."""

    def __init__(self, env, consts, testing):
        self.env, self.consts, self.testing = env, consts, testing

    def tr(self, e):
        if isinstance(e, ast.Constant) and isinstance(e.value, str):
            return lit(e.value)
        if isinstance(e, ast.Name) and e.id in self.env:
            return self.env[e.id]
        if isinstance(e, ast.Attribute) and ast.unparse(e) in self.env:
            return self.env[ast.unparse(e)]
        if isinstance(e, ast.BinOp) and isinstance(e.op, ast.Add):
            return f"({self.tr(e.left)} ++ {self.tr(e.right)})"
        if isinstance(e, ast.IfExp):
            if ast.unparse(e.test) not in self.testing:
                raise Fail("conditional string on something else than the profile flag: " + ast.unparse(e.test))
            return f"(if testing then {self.tr(e.body)} else {self.tr(e.orelse)})"
        if isinstance(e, ast.JoinedStr):
            parts = []
            for v in e.values:
                if isinstance(v, ast.Constant) and isinstance(v.value, str):
                    parts.append(lit(v.value))
                elif isinstance(v, ast.FormattedValue) and v.conversion == -1 and v.format_spec is None:
                    parts.append(self.num(v.value))
                else:
                    raise Fail("unsupported f-string part")
            return "(" + " ++ ".join(parts) + ")" if parts else "[]"
        raise Fail("unsupported string expression " + ast.unparse(e)[:60])

    def num(self, e):
        if isinstance(e, ast.Name) and e.id in self.consts:
            return f"int_str ({self.consts[e.id]})"
        if isinstance(e, ast.Name) and e.id in self.env:
            return f"int_str {self.env[e.id]}"
        raise Fail("unsupported value inside an f-string: " + ast.unparse(e))


def _module_int(tree, name):
    for n in tree.body:
        if isinstance(n, ast.Assign) and len(n.targets) == 1 and _is_name(n.targets[0], name):
            if isinstance(n.value, ast.Constant) and type(n.value.value) is int:
                return n.value.value
    raise Fail(f"module constant {name} is not an int literal")


def _class_str(cls, name):
    for n in cls.body:
        if isinstance(n, ast.Assign) and len(n.targets) == 1 and _is_name(n.targets[0], name):
            if isinstance(n.value, ast.Constant) and isinstance(n.value.value, str):
                return n.value.value
    raise Fail(f"class attribute {name} is not a str literal")


# ---------------------------------------------------------------------------
# detect_db_files / check_for_migration


def _split_filter(comp, var):
    """[filename for filename in db_files if filename.split(SEP)[i] == RHS] -> (sep, i, rhs)"""
    if not (isinstance(comp, ast.ListComp) and len(comp.generators) == 1 and _is_name(comp.elt, var)):
        raise Fail("not a filtering comprehension")
    g = comp.generators[0]
    if not (_is_name(g.target, var) and _is_name(g.iter, "db_files") and len(g.ifs) == 1 and not g.is_async):
        raise Fail("comprehension does not filter db_files")
    t = g.ifs[0]
    if not (isinstance(t, ast.Compare) and len(t.ops) == 1 and isinstance(t.ops[0], ast.Eq)):
        raise Fail("filter is not an == test")
    l = t.left
    if not (isinstance(l, ast.Subscript) and isinstance(l.slice, ast.Constant) and type(l.slice.value) is int
            and isinstance(l.value, ast.Call) and isinstance(l.value.func, ast.Attribute) and l.value.func.attr == "split"
            and _is_name(l.value.func.value, var) and len(l.value.args) == 1 and not l.value.keywords
            and isinstance(l.value.args[0], ast.Constant) and isinstance(l.value.args[0].value, str)):
        raise Fail("left side is not filename.split(<sep>)[<i>]")
    return l.value.args[0].value, l.slice.value, t.comparators[0]


def tr_names(repo):
    tree = _parse(repo, MIGRATION)
    fn = find_function(tree, "detect_db_files")
    if [a.arg for a in fn.args.args] != ["data_dir", "datastore_name", "version"] or \
            [ast.unparse(d) for d in fn.args.defaults] != ["None", "None"]:
        raise Fail("detect_db_files signature changed")
    body = [s for s in fn.body if not is_skippable(s)]
    if len(body) != 4:
        raise Fail("detect_db_files: expected listing / name filter / version filter / return")
    if ast.unparse(body[0]) != "db_files = [filename for filename in os.listdir(data_dir)]":
        raise Fail("listing is not os.listdir(data_dir)")
    i1, i2 = body[1], body[2]
    if not (isinstance(i1, ast.If) and _is_name(i1.test, "datastore_name") and not i1.orelse and len(i1.body) == 1
            and isinstance(i1.body[0], ast.Assign) and _is_name(i1.body[0].targets[0], "db_files")):
        raise Fail("name filter is not `if datastore_name: db_files = [...]`")
    if not (isinstance(i2, ast.If) and _is_name(i2.test, "version") and not i2.orelse and len(i2.body) == 1
            and isinstance(i2.body[0], ast.Assign) and _is_name(i2.body[0].targets[0], "db_files")):
        raise Fail("version filter is not `if version: db_files = [...]`")
    if ast.unparse(body[3]) != "return db_files":
        raise Fail("does not return db_files")
    sep1, idx1, rhs1 = _split_filter(i1.body[0].value, "filename")
    sep2, idx2, rhs2 = _split_filter(i2.body[0].value, "filename")
    if sep1 != "." or sep2 != ".":
        raise Fail("split separator is not \".\"")
    if not _is_name(rhs1, "datastore_name"):
        raise Fail("name filter does not compare with datastore_name")
    if idx1 != 0:
        raise Fail(f"name filter reads component {idx1} (only component 0 is total)")
    comp2 = {0: "Ok (component0 filename)", 1: "component1 filename"}.get(idx2)
    if comp2 is None:
        raise Fail(f"version filter reads component {idx2}")
    vt = StrTr({"version": "v"}, {}, ()).tr(rhs2)
    detect = (
        "Definition gen_detect_db_files (listing : list name) (datastore_name : option name) (version : option Z)\n"
        "  : res (list name) :=\n"
        "  let db_files := listing in\n"
        "  let db_files :=\n"
        "    match datastore_name with\n"
        "    | Some n => if str_truthy n then filter (fun filename => name_eqb (component0 filename) n) db_files else db_files\n"
        "    | None => db_files\n"
        "    end in\n"
        "  match version with\n"
        "  | Some v =>\n"
        "      if v =? 0 then Ok db_files\n"
        f"      else filter_res (fun filename => match {comp2} with\n"
        f"                                       | Ok c => Ok (name_eqb c {vt})\n"
        "                                       | Err k => Err k\n"
        "                                       | OutOfFuel => OutOfFuel\n"
        "                                       end) db_files\n"
        "  | None => Ok db_files\n"
        "  end.\n")
    # check_for_migration
    fn = find_function(tree, "check_for_migration")
    if [a.arg for a in fn.args.args] != ["datastore"]:
        raise Fail("check_for_migration signature changed")
    body = [s for s in fn.body if not is_skippable(s)]
    if len(body) != 2 or ast.unparse(body[0]) != "data_dir = get_data_dir('aw-server')":
        raise Fail("check_for_migration: data dir is not get_data_dir('aw-server')")
    top = body[1]
    if not (isinstance(top, ast.If) and not top.orelse and isinstance(top.test, ast.Compare) and len(top.test.ops) == 1
            and isinstance(top.test.ops[0], ast.Eq) and ast.unparse(top.test.left) == "datastore.sid"
            and isinstance(top.test.comparators[0], ast.Constant) and isinstance(top.test.comparators[0].value, str)):
        raise Fail("check_for_migration: guard is not `datastore.sid == <literal>`")
    sid = top.test.comparators[0].value
    st = StrTr({}, {}, ("datastore.testing",))
    detect_call = None
    decision = None
    for s in top.body:
        if is_skippable(s):
            continue
        if isinstance(s, ast.Assign) and len(s.targets) == 1 and isinstance(s.targets[0], ast.Name):
            tgt = s.targets[0].id
            v = s.value
            if isinstance(v, ast.Call) and _is_name(v.func, "detect_db_files"):
                if v.keywords or len(v.args) != 3 or not _is_name(v.args[0], "data_dir"):
                    raise Fail("detect_db_files is not called as (data_dir, <name>, <version>)")
                if not (isinstance(v.args[2], ast.Constant) and type(v.args[2].value) is int):
                    raise Fail("version argument is not an int literal")
                detect_call = (tgt, st.tr(v.args[1]), v.args[2].value)
            else:
                st.env[tgt] = st.tr(v)
            continue
        if isinstance(s, ast.If) and detect_call and not s.orelse:
            t = s.test
            if not (isinstance(t, ast.Compare) and len(t.ops) == 1 and isinstance(t.ops[0], ast.Gt)
                    and ast.unparse(t.left) == f"len({detect_call[0]})" and isinstance(t.comparators[0], ast.Constant)
                    and type(t.comparators[0].value) is int):
                raise Fail("decision is not `len(<detected>) > <int>`")
            if [ast.unparse(x) for x in s.body if not is_skippable(x)] != ["peewee_v2_to_sqlite_v1(datastore)"]:
                raise Fail("decision body is not peewee_v2_to_sqlite_v1(datastore)")
            decision = t.comparators[0].value
            continue
        raise Fail("unsupported statement in check_for_migration: " + ast.unparse(s)[:80])
    if detect_call is None or decision is None:
        raise Fail("check_for_migration: detect call / decision not found")
    check = (
        "Definition gen_check_for_migration (sid : name) (testing : bool) (listing : list name) : res bool :=\n"
        f"  if name_eqb sid {lit(sid)} then\n"
        f"    match gen_detect_db_files listing (Some {detect_call[1]}) (Some ({detect_call[2]})) with\n"
        f"    | Ok l => Ok ({decision} <? Z.of_nat (length l))\n"
        "    | Err k => Err k\n"
        "    | OutOfFuel => OutOfFuel\n"
        "    end\n"
        "  else Ok false.\n")
    return detect + "\n" + check


# ---------------------------------------------------------------------------
# SqliteStorage.__init__ / PeeweeStorage.__init__: default file names, guard, final commit


def _default_filename(init, consts, env):
    """the `filename = ...` assignment inside `if not filepath:` (with its local string assignments)"""
    st = StrTr(dict(env), consts, ("testing",))
    found = None

    def visit(stmts_):
        nonlocal found
        for s in stmts_:
            if isinstance(s, ast.Assign) and len(s.targets) == 1 and isinstance(s.targets[0], ast.Name):
                tgt = s.targets[0].id
                if tgt == "filename":
                    found = st.tr(s.value)
                elif tgt in ("ds_name",):
                    st.env[tgt] = st.tr(s.value)
            elif isinstance(s, ast.If) and ast.unparse(s.test) == "not filepath":
                visit(s.body)
    visit(init.body)
    if found is None:
        raise Fail("default filename assignment not found")
    return found


def tr_init(repo):
    stree = _parse(repo, SQLITE)
    scls = _cls(stree, "SqliteStorage")
    sinit = _method(scls, "__init__")
    sq_name = _default_filename(sinit, {"LATEST_VERSION": _module_int(stree, "LATEST_VERSION")},
                                {"self.sid": lit(_class_str(scls, "sid"))})
    ptree = _parse(repo, PEEWEE)
    pinit = _method(_cls(ptree, "PeeweeStorage"), "__init__")
    pw_name = _default_filename(pinit, {"LATEST_VERSION": _module_int(ptree, "LATEST_VERSION")}, {})
    # the guard and what follows the check
    want = {"ignore_migration_check": "filepath is not None", "new_db_file": "not os.path.exists(filepath)"}
    seen = {}
    guard = None
    for s in sinit.body:
        if isinstance(s, ast.Assign) and len(s.targets) == 1 and isinstance(s.targets[0], ast.Name) \
                and s.targets[0].id in want:
            seen[s.targets[0].id] = ast.unparse(s.value)
        if isinstance(s, ast.If) and any(isinstance(n, ast.Name) and n.id == "check_for_migration" for n in ast.walk(s)):
            guard = s
    if seen != want:
        raise Fail(f"guard variables changed: {seen}")
    if guard is None or ast.unparse(guard.test) != "new_db_file and (not ignore_migration_check)" or guard.orelse:
        raise Fail("guard is not `if new_db_file and not ignore_migration_check`")
    # new_db_file must be evaluated before the connection creates the file
    order = [ast.unparse(s)[:40] for s in sinit.body]
    i_new = next(i for i, t in enumerate(order) if t.startswith("new_db_file ="))
    i_conn = next((i for i, t in enumerate(order) if t.startswith("self.conn = sqlite3.connect(")), None)
    if i_conn is None or i_new > i_conn:
        raise Fail("new_db_file is not computed before sqlite3.connect")
    body = [s for s in guard.body if not is_skippable(s) and not isinstance(s, ast.ImportFrom)]
    texts = [ast.unparse(s) for s in body]
    if not texts or texts[0] != "check_for_migration(self)":
        raise Fail("guard body does not start with check_for_migration(self): " + str(texts))
    commits = len(texts) >= 2 and texts[1] == "self.commit()"
    if len(texts) > (2 if commits else 1):
        raise Fail("unexpected statements after check_for_migration(self): " + str(texts))
    sid = lit(_class_str(scls, "sid"))
    return (
        f"Definition gen_sq_filename (testing : bool) : name := {sq_name}.\n"
        f"Definition gen_pw_filename (testing : bool) : name := {pw_name}.\n"
        "Definition gen_sq_init_migrates (testing : bool) (p : sqpath) (listing : list name) : res bool :=\n"
        "  let ignore_migration_check := match p with CustomPath _ => true | DefaultPath => false end in\n"
        "  if new_db_file testing p listing && negb ignore_migration_check\n"
        f"  then gen_check_for_migration {sid} testing (listing ++ sq_created_files testing)\n"
        "  else Ok false.\n"
        f"Definition gen_init_commits_after_migration : bool := {'true' if commits else 'false'}.\n")


# ---------------------------------------------------------------------------
# PeeweeStorage.__init__ as an I/O script (Model/PeeweeOpen.v)

import re

HANDLE = "_db"
DB_CLASS = "SqliteExtDatabase"
MODEL_CLASSES = {"BucketModel": "TBucket", "EventModel": "TEvent"}


def _fail(msg):
    """the message ends up inside a Coq comment of the generated file: no string / comment delimiters"""
    raise Fail(msg.replace('"', "'").replace("(*", "( *").replace("*)", "* )"))


FIELD_CLASSES = {"IntegerField", "CharField", "DateTimeField", "DecimalField", "AutoField", "ForeignKeyField",
                 "TextField", "FloatField", "BooleanField", "BigIntegerField"}


def tr_open_header(repo):
    return ("From AwVerif Require Import Model.StoreBase Model.SqliteStore Model.PeeweeStore Model.Migration "
            "Model.PeeweeOpen.\n")


def _pragmas(call, what):
    """keyword arguments of a SqliteExtDatabase(..) call -> Gallina `list pragma`; only `pragmas=` is read,
    any other keyword (autoconnect, timeout, c_extensions, ..) is outside the model"""
    out = []
    for kw in call.keywords:
        if kw.arg != "pragmas":
            _fail(f"{what}: keyword {kw.arg!r} of {DB_CLASS}(..) is not modelled")
        v = kw.value
        if isinstance(v, ast.Dict):
            pairs = list(zip(v.keys, v.values))
        elif isinstance(v, (ast.List, ast.Tuple)) and all(isinstance(e, ast.Tuple) and len(e.elts) == 2 for e in v.elts):
            pairs = [tuple(e.elts) for e in v.elts]
        else:
            _fail(f"{what}: pragmas is not a literal dict / list of pairs")
        for k, val in pairs:
            if not (isinstance(k, ast.Constant) and isinstance(k.value, str)):
                _fail(f"{what}: pragma name is not a str literal")
            if not (isinstance(val, ast.Constant) and type(val.value) in (str, int, bool)):
                _fail(f"{what}: pragma value is not a str/int literal")
            out.append(f"({lit(k.value)}, {lit(str(val.value))})")
    return "[" + "; ".join(out) + "]"


def _imported_from(tree, module, name):
    for n in tree.body:
        if isinstance(n, ast.ImportFrom) and n.module == module and any(a.name == name and a.asname is None for a in n.names):
            return True
    return False


def _names_in(node, name):
    return [n for n in ast.walk(node) if isinstance(n, ast.Name) and n.id == name]


def tr_open_decl(repo):
    tree = _parse(repo, PEEWEE)
    if not _imported_from(tree, "playhouse.sqlite_ext", DB_CLASS):
        _fail(f"{DB_CLASS} is not imported from playhouse.sqlite_ext")
    decl = None
    for n in tree.body:
        if isinstance(n, (ast.FunctionDef, ast.ClassDef, ast.Import, ast.ImportFrom)):
            continue
        if isinstance(n, ast.Assign) and len(n.targets) == 1 and _is_name(n.targets[0], HANDLE):
            if decl is not None:
                _fail(f"{HANDLE} is assigned twice at module level")
            decl = n.value
            continue
        if _names_in(n, HANDLE):
            _fail(f"module-level statement uses {HANDLE}: " + ast.unparse(n)[:70])
    if decl is None:
        _fail(f"module-level {HANDLE} not found")
    if not (isinstance(decl, ast.Call) and _is_name(decl.func, DB_CLASS) and len(decl.args) == 1
            and isinstance(decl.args[0], ast.Constant) and decl.args[0].value is None):
        _fail(f"{HANDLE} is not created as {DB_CLASS}(None, ..): " + ast.unparse(decl)[:70])
    pragmas = _pragmas(decl, HANDLE)
    # both models are bound to the handle through BaseModel.Meta and declare nothing of their own
    base = _cls(tree, "BaseModel")
    if [ast.unparse(b) for b in base.bases] != ["Model"] or not _imported_from(tree, "peewee", "Model"):
        _fail("BaseModel is not a peewee.Model")
    body = [x for x in base.body if not is_skippable(x)]
    if not (len(body) == 1 and isinstance(body[0], ast.ClassDef) and body[0].name == "Meta"
            and [ast.unparse(x) for x in body[0].body if not is_skippable(x)] == [f"database = {HANDLE}"]):
        _fail(f"BaseModel.Meta is not exactly `database = {HANDLE}`")
    for cname in MODEL_CLASSES:
        c = _cls(tree, cname)
        if [ast.unparse(b) for b in c.bases] != ["BaseModel"]:
            _fail(f"{cname} does not derive from BaseModel only")
        if any(isinstance(x, ast.ClassDef) for x in c.body):
            _fail(f"{cname} has a Meta (or other inner class) of its own")
    return f"Definition gen_db_pragmas : list pragma := {pragmas}.\n"


def tr_open_tables(repo):
    tree = _parse(repo, PEEWEE)
    names, cols, idxs = {}, {}, {}
    for cname, tag in MODEL_CLASSES.items():
        c = _cls(tree, cname)
        table = re.sub(r"[^\w]+", "_", cname.lower())
        names[tag] = table
        cols[tag], idxs[tag] = [], []
        for x in c.body:
            if not (isinstance(x, ast.Assign) and len(x.targets) == 1 and isinstance(x.targets[0], ast.Name)
                    and isinstance(x.value, ast.Call) and isinstance(x.value.func, ast.Name)):
                if isinstance(x, (ast.Assign, ast.AnnAssign)):
                    _fail(f"{cname}: unsupported class attribute " + ast.unparse(x)[:60])
                continue
            fcls = x.value.func.id
            if fcls not in FIELD_CLASSES:
                _fail(f"{cname}.{x.targets[0].id}: unknown field class {fcls}")
            kws = {}
            for kw in x.value.keywords:
                if kw.arg in ("column_name", "db_column", "constraints", "index_type"):
                    _fail(f"{cname}.{x.targets[0].id}: keyword {kw.arg} is not modelled")
                if kw.arg in ("unique", "index", "primary_key"):
                    if not (isinstance(kw.value, ast.Constant) and type(kw.value.value) is bool):
                        _fail(f"{cname}.{x.targets[0].id}: {kw.arg} is not a bool literal")
                    kws[kw.arg] = kw.value.value
            col = x.targets[0].id + ("_id" if fcls == "ForeignKeyField" else "")
            cols[tag].append(col)
            pk = kws.get("primary_key", False) or fcls == "AutoField"
            indexed = kws.get("unique", False) or kws.get("index", fcls == "ForeignKeyField")
            if indexed and not pk:
                iname = f"{table}_{col}"
                if len(iname) > 64:
                    _fail("index name longer than 64 characters (peewee hashes it)")
                idxs[tag].append(iname)

    def fn(name, ty, d, f):
        return (f"Definition {name} (t : mtable) : {ty} :=\n  match t with\n"
                + "".join(f"  | {tag} => {f(d[tag])}\n" for tag in ("TBucket", "TEvent")) + "  end.\n")
    lst = lambda l: "[" + "; ".join(lit(x) for x in l) + "]"
    return (fn("gen_table_name", "name", names, lit) + fn("gen_table_columns", "list name", cols, lst)
            + fn("gen_table_indexes", "list name", idxs, lst))


def _is_handle(e, handles):
    return ast.unparse(e) in handles


def _refresh_ok(cls):
    """update_bucket_keys reads the bucket table through the bound model and nothing else"""
    m = _method(cls, "update_bucket_keys")
    body = [x for x in m.body if not is_skippable(x)]
    src = None
    if len(body) == 2 and isinstance(body[0], ast.Assign) and len(body[0].targets) == 1 \
            and isinstance(body[0].targets[0], ast.Name) and ast.unparse(body[0].value) == "BucketModel.select()":
        src = body[0].targets[0].id
        body = body[1:]
    if len(body) != 1:
        return False
    a = body[0]
    if isinstance(a, ast.AnnAssign):
        tgt, val = a.target, a.value
    elif isinstance(a, ast.Assign) and len(a.targets) == 1:
        tgt, val = a.targets[0], a.value
    else:
        return False
    if ast.unparse(tgt) != "self.bucket_keys" or not isinstance(val, ast.DictComp) or len(val.generators) != 1:
        return False
    g = val.generators[0]
    if g.ifs or g.is_async or not isinstance(g.target, ast.Name):
        return False
    v = g.target.id
    if ast.unparse(val.key) != f"{v}.id" or ast.unparse(val.value) != f"{v}.key":
        return False
    return (src is not None and _is_name(g.iter, src)) or (src is None and ast.unparse(g.iter) == "BucketModel.select()")


def tr_open_init(repo):
    tree = _parse(repo, PEEWEE)
    cls = _cls(tree, "PeeweeStorage")
    init = _method(cls, "__init__")
    if [a.arg for a in init.args.args] != ["self", "testing", "filepath"] or \
            [ast.unparse(d) for d in init.args.defaults] != ["True", "None"] or init.args.vararg or init.args.kwarg \
            or init.args.kwonlyargs:
        _fail("PeeweeStorage.__init__ signature changed")
    body = [x for x in init.body if not is_skippable(x)]
    # head: the requested file
    if len(body) < 2 or ast.unparse(body[0]) != "data_dir = get_data_dir('aw-server')":
        _fail("__init__ does not start with data_dir = get_data_dir('aw-server')")
    head = body[1]
    if not (isinstance(head, ast.If) and ast.unparse(head.test) == "not filepath" and not head.orelse):
        _fail("second statement is not `if not filepath:`")
    hb = [x for x in head.body if not is_skippable(x)]
    if not (len(hb) == 2 and isinstance(hb[0], ast.Assign) and _is_name(hb[0].targets[0], "filename")
            and ast.unparse(hb[1]) == "filepath = os.path.join(data_dir, filename)"):
        _fail("default path is not filepath = os.path.join(data_dir, filename)")
    handles = {HANDLE}

    def steps(stmts_, depth):
        out = []
        for x in stmts_:
            if is_skippable(x):
                continue
            text = ast.unparse(x)
            # bindings that are not statements of the script
            if isinstance(x, ast.Assign) and len(x.targets) == 1 and ast.unparse(x.targets[0]) == "self.db":
                if not _is_name(x.value, HANDLE):
                    _fail("self.db is not the module-level handle: " + text[:70])
                handles.add("self.db")
                continue
            if isinstance(x, (ast.Assign, ast.AnnAssign)):
                tgt = x.target if isinstance(x, ast.AnnAssign) else (x.targets[0] if len(x.targets) == 1 else None)
                if tgt is not None and ast.unparse(tgt) == "self.bucket_keys" and x.value is not None \
                        and ast.unparse(x.value) == "{}":
                    continue
                _fail("unsupported assignment in __init__: " + text[:70])
            if isinstance(x, ast.If):
                t = x.test
                if (depth == 0 and not x.orelse and isinstance(t, ast.Call) and isinstance(t.func, ast.Attribute)
                        and t.func.attr == "is_closed" and _is_handle(t.func.value, handles)
                        and not t.args and not t.keywords):
                    out.append("OIfClosed [" + "; ".join(steps(x.body, depth + 1)) + "]")
                    continue
                _fail("unsupported conditional in __init__: " + ast.unparse(t)[:70])
            if not (isinstance(x, ast.Expr) and isinstance(x.value, ast.Call)):
                _fail("unsupported statement in __init__: " + text[:70])
            c = x.value
            fn = c.func
            if _is_name(fn, "auto_migrate"):
                if c.keywords or len(c.args) != 1 or not _is_name(c.args[0], "filepath"):
                    _fail("auto_migrate is not called as (filepath): " + text[:70])
                out.append("OAutoMigrate")
                continue
            if not isinstance(fn, ast.Attribute):
                _fail("unsupported call in __init__: " + text[:70])
            recv, meth = fn.value, fn.attr
            if _is_handle(recv, handles):
                if meth == "init":
                    if c.keywords or len(c.args) != 1 or not _is_name(c.args[0], "filepath"):
                        _fail("the handle is not initialised as init(filepath): " + text[:70])
                    out.append("OInit")
                elif meth in ("connect", "close"):
                    if c.args or c.keywords:
                        _fail(f"{meth} is called with arguments: " + text[:70])
                    out.append("OConnect" if meth == "connect" else "OClose")
                elif meth == "create_tables":
                    safe = _safe_kw(c, 1, text)
                    if not (isinstance(c.args[0], (ast.List, ast.Tuple))
                            and [ast.unparse(e) for e in c.args[0].elts] == list(MODEL_CLASSES)):
                        _fail("create_tables is not given [BucketModel, EventModel]: " + text[:70])
                    out.extend(f"OCreateTable {MODEL_CLASSES[m]} {safe}" for m in MODEL_CLASSES)
                else:
                    _fail(f"handle method {meth} is not modelled: " + text[:70])
                continue
            if isinstance(recv, ast.Name) and recv.id in MODEL_CLASSES and meth == "create_table":
                out.append(f"OCreateTable {MODEL_CLASSES[recv.id]} {_safe_kw(c, 0, text)}")
                continue
            if text == "self.update_bucket_keys()":
                if not _refresh_ok(cls):
                    _fail("update_bucket_keys is not {b.id: b.key for b in BucketModel.select()}")
                out.append("ORefreshKeys")
                continue
            _fail("unsupported call in __init__: " + text[:70])
        return out

    script = steps(body[2:], 0)
    return "Definition gen_init_script : list ostep :=\n  [" + ";\n   ".join(script) + "].\n"


def _safe_kw(c, nargs, text):
    if len(c.args) != nargs:
        _fail("unexpected positional arguments: " + text[:70])
    safe = "true"                       # peewee: create_table(safe=True, ..)
    for kw in c.keywords:
        if kw.arg != "safe" or not (isinstance(kw.value, ast.Constant) and type(kw.value.value) is bool):
            _fail("create_table keyword other than safe=<bool>: " + text[:70])
        safe = "true" if kw.value.value else "false"
    return safe


def tr_open_auto_migrate(repo):
    tree = _parse(repo, PEEWEE)
    fn = find_function(tree, "auto_migrate")
    if [a.arg for a in fn.args.args] != ["path"] or fn.args.defaults or fn.args.vararg or fn.args.kwarg:
        _fail("auto_migrate signature changed")
    if not (_imported_from(tree, "playhouse.migrate", "SqliteMigrator") and _imported_from(tree, "playhouse.migrate", "migrate")):
        _fail("SqliteMigrator / migrate are not imported from playhouse.migrate")
    body = [x for x in fn.body if not is_skippable(x)]
    out = []
    db = migrator = info = None
    flags = {}
    i = 0
    while i < len(body):
        x = body[i]
        text = ast.unparse(x)
        if isinstance(x, ast.Assign) and len(x.targets) == 1 and isinstance(x.targets[0], ast.Name):
            tgt, v = x.targets[0].id, x.value
            if isinstance(v, ast.Call) and _is_name(v.func, DB_CLASS):
                if db is not None or len(v.args) != 1 or not _is_name(v.args[0], "path"):
                    _fail("auto_migrate does not open exactly one database on `path`: " + text[:70])
                db = tgt
                out.append(f"AOpen {_pragmas(v, 'auto_migrate')}")
            elif isinstance(v, ast.Call) and _is_name(v.func, "SqliteMigrator"):
                if db is None or v.keywords or len(v.args) != 1 or not _is_name(v.args[0], db):
                    _fail("migrator is not SqliteMigrator(<the database opened on path>)")
                migrator = tgt
            elif db and _call(v, db, "execute_sql"):
                if v.keywords or len(v.args) != 1 or not (isinstance(v.args[0], ast.Constant) and isinstance(v.args[0].value, str)):
                    _fail("execute_sql is not given one str literal: " + text[:70])
                m = re.fullmatch(r"PRAGMA table_info\((\w+)\)", v.args[0].value.strip())
                if not m:
                    _fail("auto_migrate executes SQL other than PRAGMA table_info(<table>): " + v.args[0].value[:60])
                info = (tgt, m.group(1))
            elif isinstance(v, ast.Call) and _is_name(v.func, "any") and info and len(v.args) == 1 and not v.keywords \
                    and isinstance(v.args[0], ast.GeneratorExp) and len(v.args[0].generators) == 1:
                g = v.args[0].generators[0]
                e = v.args[0].elt
                if not (isinstance(g.target, ast.Name) and _is_name(g.iter, info[0]) and not g.ifs and not g.is_async
                        and isinstance(e, ast.Compare) and len(e.ops) == 1 and isinstance(e.ops[0], ast.Eq)
                        and ast.unparse(e.left) == f"{g.target.id}[1]" and isinstance(e.comparators[0], ast.Constant)
                        and isinstance(e.comparators[0].value, str)):
                    _fail("column test is not any(row[1] == \"<column>\" for row in <table_info rows>): " + text[:80])
                flags[tgt] = (info[1], e.comparators[0].value)
                out.append(f"AHasColumn {lit(info[1])} {lit(e.comparators[0].value)}")
            else:
                _fail("unsupported assignment in auto_migrate: " + text[:70])
        elif isinstance(x, ast.If):
            t = x.test
            if not (isinstance(t, ast.UnaryOp) and isinstance(t.op, ast.Not) and isinstance(t.operand, ast.Name)
                    and t.operand.id in flags):
                _fail("conditional in auto_migrate is not `if not <column flag>`: " + ast.unparse(t)[:60])
            if x.orelse:
                _fail("`if not <column flag>` has an else branch: " + ast.unparse(x.orelse[0])[:70])
            if list(flags)[-1] != t.operand.id:
                _fail("the conditional does not test the flag computed last")
            inner = [y for y in x.body if not is_skippable(y)]
            field = None
            if inner and isinstance(inner[0], ast.Assign) and len(inner[0].targets) == 1 and isinstance(inner[0].targets[0], ast.Name) \
                    and isinstance(inner[0].value, ast.Call) and isinstance(inner[0].value.func, ast.Name) \
                    and inner[0].value.func.id in FIELD_CLASSES:
                field = inner[0].targets[0].id
                inner = inner[1:]
            if len(inner) == 1 and isinstance(inner[0], ast.With) and len(inner[0].items) == 1 \
                    and inner[0].items[0].optional_vars is None and db \
                    and ast.unparse(inner[0].items[0].context_expr) == f"{db}.atomic()":
                inner = [y for y in inner[0].body if not is_skippable(y)]
            if not (len(inner) == 1 and isinstance(inner[0], ast.Expr) and isinstance(inner[0].value, ast.Call)
                    and _is_name(inner[0].value.func, "migrate") and len(inner[0].value.args) == 1
                    and not inner[0].value.keywords and migrator and _call(inner[0].value.args[0], migrator, "add_column")):
                _fail("body of the conditional is not migrate(<migrator>.add_column(..)): " + ast.unparse(x.body[-1])[:70])
            a = inner[0].value.args[0]
            if a.keywords or len(a.args) != 3 or not all(isinstance(z, ast.Constant) and isinstance(z.value, str) for z in a.args[:2]) \
                    or not (field and _is_name(a.args[2], field)):
                _fail("add_column is not called as (\"<table>\", \"<column>\", <field>): " + ast.unparse(a)[:70])
            out.append(f"AIfNotHasAddColumn {lit(a.args[0].value)} {lit(a.args[1].value)}")
        elif db and isinstance(x, ast.Expr) and _call(x.value, db, "close") and not x.value.args and not x.value.keywords:
            out.append("AClose")
        else:
            _fail("unsupported statement in auto_migrate: " + text[:70])
        i += 1
    return "Definition gen_am_script : list amstep :=\n  [" + ";\n   ".join(out) + "].\n"


KERNELS = {
    "GenMigration": [("migration_header", tr_header), ("migration_loop", tr_loop), ("migration_names", tr_names),
                     ("migration_init", tr_init)],
    "GenPeeweeOpen": [("peewee_open_header", tr_open_header), ("peewee_open_decl", tr_open_decl),
                      ("peewee_open_tables", tr_open_tables), ("peewee_open_init", tr_open_init),
                      ("peewee_open_auto_migrate", tr_open_auto_migrate)],
}
