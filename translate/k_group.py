"""Kernels of aw_transform/sort_by.py and aw_transform/filter_keyvals.py (tie B for C16).

Fail-closed: every function is matched against the exact statement shapes it has today and
its expressions are translated compositionally into the Python primitives of
coq/Model/GroupPy.v (py_in_dict, py_getitem, py_in_list, py_and/py_or/py_not, filter_res,
py_sorted, py_sorted_reverse, py_slice_to).  Anything else raises Fail, the definition is
omitted from coq/Gen/GenGroup.v and its bridge lemma (coq/Bridge/BridgeGroup.v) stops
compiling.  merge_events_by_keys and chunk_events_by_key (dict-mutating loops) stay on the
correspondence check (tie A) only."""
import ast
import os

from py2v import Fail, find_function, is_skippable

ATTR = {"timestamp": "gts", "duration": "gdur", "data": "gdata"}


def _src(repo, rel):
    return ast.parse(open(os.path.join(repo, rel)).read())


def _args(fn, names, defaults=()):
    a = fn.args
    if [x.arg for x in a.args] != list(names) or a.vararg or a.kwarg or a.kwonlyargs or getattr(a, "posonlyargs", []):
        raise Fail(f"signature of {fn.name} changed")
    got = [d.value if isinstance(d, ast.Constant) else "?" for d in a.defaults]
    if got != list(defaults):
        raise Fail(f"defaults of {fn.name} changed")


def _body(fn):
    return [s for s in fn.body if not is_skippable(s)]


class Tr:
    """Expression translator into `res` terms.  env: python name -> (gallina name, type) with
    type in {Z, listZ, gev, events, bool}."""

    def __init__(self, env):
        self.env = env
        self.n = 0

    def fresh(self):
        self.n += 1
        return f"x{self.n}"

    def name(self, e, ty):
        if isinstance(e, ast.Name) and e.id in self.env and self.env[e.id][1] == ty:
            return self.env[e.id][0]
        raise Fail(f"expected a {ty} name, got {ast.dump(e)[:60]}")

    def data_of(self, e):
        """<event>.data -> pure dict term"""
        if isinstance(e, ast.Attribute) and e.attr == "data":
            return f"(gdata {self.name(e.value, 'gev')})"
        raise Fail("expected <event>.data")

    def val(self, e):
        """res Z"""
        if isinstance(e, ast.Name):
            return f"(Ok {self.name(e, 'Z')})"
        if isinstance(e, ast.Subscript):
            idx = e.slice.value if isinstance(e.slice, ast.Index) else e.slice  # py3.8 compat
            return f"(py_getitem {self.data_of(e.value)} {self.name(idx, 'Z')})"
        raise Fail("unsupported value expression " + ast.dump(e)[:60])

    def cond(self, e):
        """res bool"""
        if isinstance(e, ast.BoolOp):
            op = "py_and" if isinstance(e.op, ast.And) else "py_or"
            parts = [self.cond(v) for v in e.values]
            out = parts[-1]
            for p in reversed(parts[:-1]):
                out = f"({op} {p} {out})"
            return out
        if isinstance(e, ast.UnaryOp) and isinstance(e.op, ast.Not):
            return f"(py_not {self.cond(e.operand)})"
        if isinstance(e, ast.Compare) and len(e.ops) == 1 and isinstance(e.ops[0], (ast.In, ast.NotIn)):
            left, right = e.left, e.comparators[0]
            if isinstance(right, ast.Attribute):
                t = f"(py_in_dict {self.name(left, 'Z')} {self.data_of(right)})"
            else:
                x = self.fresh()
                t = f"(bind {self.val(left)} (fun {x} => py_in_list {x} {self.name(right, 'listZ')}))"
            return t if isinstance(e.ops[0], ast.In) else f"(py_not {t})"
        if isinstance(e, ast.Call) and isinstance(e.func, ast.Name) and e.func.id in self.env \
                and self.env[e.func.id][1] == "pred" and len(e.args) == 1 and not e.keywords:
            return f"({self.env[e.func.id][0]} {self.name(e.args[0], 'gev')})"
        raise Fail("unsupported condition " + ast.dump(e)[:80])


def _guard(f):
    def g(repo):
        try:
            return f(repo)
        except Fail:
            raise
        except (SyntaxError, OSError):
            raise
        except Exception as ex:  # a translator bug must fail closed, never break py2v for other kernels
            raise Fail(f"translator error {type(ex).__name__}: {ex}")
    return g


def tr_prelude(repo):
    return "From AwVerif Require Import Model.Group Model.GroupPy.\n"


@_guard
def tr_kv_predicate(repo):
    fn = find_function(_src(repo, "aw_transform/filter_keyvals.py"), "filter_keyvals")
    _args(fn, ["events", "key", "vals", "exclude"], [False])
    body = _body(fn)
    if not body or not isinstance(body[0], ast.FunctionDef) or body[0].name != "predicate":
        raise Fail("nested predicate not found")
    p = body[0]
    _args(p, ["event"])
    pb = _body(p)
    if len(pb) != 1 or not isinstance(pb[0], ast.Return) or pb[0].value is None or p.decorator_list:
        raise Fail("predicate is no longer a single return")
    tr = Tr({"key": ("key", "Z"), "vals": ("vals", "listZ"), "event": ("event", "gev")})
    return ("Definition gen_kv_predicate (key : Z) (vals : list Z) (event : gev) : res bool :=\n  "
            + tr.cond(pb[0].value) + ".\n")


def _listcomp(e, tr):
    """[e for e in events if COND] -> filter_res (fun e => COND) events"""
    if not isinstance(e, ast.ListComp) or len(e.generators) != 1:
        raise Fail("expected one list comprehension")
    g = e.generators[0]
    if g.is_async or not isinstance(g.target, ast.Name) or not isinstance(e.elt, ast.Name) or e.elt.id != g.target.id \
            or len(g.ifs) != 1:
        raise Fail("unsupported comprehension shape")
    v = g.target.id
    inner = Tr(dict(tr.env, **{v: (v, "gev")}))
    return f"filter_res (fun {v} => {inner.cond(g.ifs[0])}) {tr.name(g.iter, 'events')}"


@_guard
def tr_filter_keyvals(repo):
    fn = find_function(_src(repo, "aw_transform/filter_keyvals.py"), "filter_keyvals")
    _args(fn, ["events", "key", "vals", "exclude"], [False])
    body = _body(fn)
    if len(body) != 2 or not isinstance(body[1], ast.If) or fn.decorator_list:
        raise Fail("body is no longer `def predicate; if exclude: return ... else: return ...`")
    iff = body[1]
    tr = Tr({"events": ("events", "events"), "key": ("key", "Z"), "vals": ("vals", "listZ"),
             "exclude": ("exclude", "bool"), "predicate": ("gen_kv_predicate key vals", "pred")})
    test = tr.name(iff.test, "bool")
    if len(iff.body) != 1 or len(iff.orelse) != 1 or not all(isinstance(s, ast.Return) for s in iff.body + iff.orelse):
        raise Fail("branches are no longer single returns")
    return ("Definition gen_filter_keyvals (events : list gev) (key : Z) (vals : list Z) (exclude : bool) "
            ": res (list gev) :=\n"
            f"  if {test}\n  then {_listcomp(iff.body[0].value, tr)}\n  else {_listcomp(iff.orelse[0].value, tr)}.\n")


def _single_return(repo, name, args):
    fn = find_function(_src(repo, "aw_transform/sort_by.py"), name)
    _args(fn, args)
    if fn.decorator_list:
        raise Fail("decorated")
    return fn, _body(fn)


def _sorted_call(e, attr_expected=None):
    if not (isinstance(e, ast.Call) and isinstance(e.func, ast.Name) and e.func.id == "sorted" and len(e.args) == 1
            and isinstance(e.args[0], ast.Name) and e.args[0].id == "events"):
        raise Fail("expected sorted(events, ...)")
    kw = {k.arg: k.value for k in e.keywords}
    if set(kw) - {"key", "reverse"} or "key" not in kw or len(kw) != len(e.keywords):
        raise Fail("unsupported sorted() keywords")
    lam = kw["key"]
    if not (isinstance(lam, ast.Lambda) and len(lam.args.args) == 1 and not lam.args.defaults
            and isinstance(lam.body, ast.Attribute) and isinstance(lam.body.value, ast.Name)
            and lam.body.value.id == lam.args.args[0].arg and lam.body.attr in ("timestamp", "duration")):
        raise Fail("unsupported sort key")
    v = lam.args.args[0].arg
    rev = False
    if "reverse" in kw:
        if not (isinstance(kw["reverse"], ast.Constant) and type(kw["reverse"].value) is bool):
            raise Fail("unsupported reverse=")
        rev = kw["reverse"].value
    return f"{'py_sorted_reverse' if rev else 'py_sorted'} (fun {v} => {ATTR[lam.body.attr]} {v}) events"


@_guard
def tr_sort_by_timestamp(repo):
    fn, body = _single_return(repo, "sort_by_timestamp", ["events"])
    if len(body) != 1 or not isinstance(body[0], ast.Return):
        raise Fail("not a single return")
    return f"Definition gen_sort_by_timestamp (events : list gev) : list gev :=\n  {_sorted_call(body[0].value)}.\n"


@_guard
def tr_sort_by_duration(repo):
    fn, body = _single_return(repo, "sort_by_duration", ["events"])
    if len(body) != 1 or not isinstance(body[0], ast.Return):
        raise Fail("not a single return")
    return f"Definition gen_sort_by_duration (events : list gev) : list gev :=\n  {_sorted_call(body[0].value)}.\n"


@_guard
def tr_limit_events(repo):
    fn, body = _single_return(repo, "limit_events", ["events", "count"])
    if len(body) != 1 or not isinstance(body[0], ast.Return):
        raise Fail("not a single return")
    e = body[0].value
    if not (isinstance(e, ast.Subscript) and isinstance(e.value, ast.Name) and e.value.id == "events"):
        raise Fail("expected events[...]")
    sl = e.slice
    if not (isinstance(sl, ast.Slice) and sl.lower is None and sl.step is None and isinstance(sl.upper, ast.Name)
            and sl.upper.id == "count"):
        raise Fail("expected events[:count]")
    return "Definition gen_limit_events (events : list gev) (count : Z) : list gev :=\n  py_slice_to events count.\n"


@_guard
def tr_concat(repo):
    fn, body = _single_return(repo, "concat", ["events1", "events2"])
    if len(body) != 2 or not isinstance(body[0], ast.Assign) or not isinstance(body[1], ast.Return):
        raise Fail("expected `events = events1 + events2; return events`")
    a, r = body
    if not (len(a.targets) == 1 and isinstance(a.targets[0], ast.Name) and isinstance(a.value, ast.BinOp)
            and isinstance(a.value.op, ast.Add) and isinstance(a.value.left, ast.Name) and isinstance(a.value.right, ast.Name)
            and {a.value.left.id, a.value.right.id} <= {"events1", "events2"}
            and isinstance(r.value, ast.Name) and r.value.id == a.targets[0].id):
        raise Fail("unsupported concat body")
    return ("Definition gen_concat (events1 events2 : list gev) : list gev :=\n"
            f"  let {a.targets[0].id} := {a.value.left.id} ++ {a.value.right.id} in {r.value.id}.\n")


KERNELS = {
    "GenGroup": [("group_prelude", tr_prelude),
                 ("kv_predicate", tr_kv_predicate), ("filter_keyvals", tr_filter_keyvals),
                 ("sort_by_timestamp", tr_sort_by_timestamp), ("sort_by_duration", tr_sort_by_duration),
                 ("limit_events", tr_limit_events), ("concat", tr_concat)],
}
