#!/usr/bin/env python3
"""Tie B: fail-closed translation of small Python kernels of aw-core to Gallina.

usage: py2v.py <repo> <gen_dir>

Every kernel listed in KERNELS is re-translated from <repo>'s working tree on every run
and written to <gen_dir>/<File>.v (only when the text changed, so make stays
incremental).  Anything outside the supported subset raises Fail: the kernel's
definition is then *omitted* from the generated file, so its bridge lemma stops
compiling, and a line `TRANSLATE-FAIL <kernel>: <reason>` is printed.

Supported subset: parameter and local names; attribute reads .timestamp/.duration/.data
of a name; + and -; timedelta(0), timedelta(seconds=<name>) (the name is already integer
microseconds in the model); max/min of two values (also of a 2-tuple); comparisons
incl. chained ones (== only between .data attributes); and/or/not; if/elif/else;
assignment to a local; assignment to <name>.duration / <name>.timestamp (functional
record update); return <expr> / return None; logger.* calls and docstrings are skipped.
"""
import ast
import os
import sys


class Fail(Exception):
    pass


ATTR = {"timestamp": "ts", "duration": "dur", "data": "data"}
SETTER = {"duration": "set_dur", "timestamp": "set_ts"}
CMP = {ast.LtE: "<=?", ast.Lt: "<?", ast.GtE: ">=?", ast.Gt: ">?"}


def expr(e, env):
    if isinstance(e, ast.Name):
        if e.id in env:
            return env[e.id]
        raise Fail(f"unknown name {e.id}")
    if isinstance(e, ast.Attribute) and isinstance(e.value, ast.Name) and e.attr in ATTR:
        return f"({ATTR[e.attr]} {expr(e.value, env)})"
    if isinstance(e, ast.BinOp) and isinstance(e.op, (ast.Add, ast.Sub)):
        op = "+" if isinstance(e.op, ast.Add) else "-"
        return f"({expr(e.left, env)} {op} {expr(e.right, env)})"
    if isinstance(e, ast.UnaryOp) and isinstance(e.op, ast.USub):
        return f"(- {expr(e.operand, env)})"
    if isinstance(e, ast.Call) and isinstance(e.func, ast.Name) and e.func.id == "timedelta":
        if len(e.args) == 1 and not e.keywords and isinstance(e.args[0], ast.Constant) and e.args[0].value == 0 \
                and type(e.args[0].value) is int:
            return "0"
        if not e.args and len(e.keywords) == 1 and e.keywords[0].arg == "seconds" \
                and isinstance(e.keywords[0].value, ast.Name):
            return expr(e.keywords[0].value, env)
        raise Fail("unsupported timedelta(...) form")
    if isinstance(e, ast.Call) and isinstance(e.func, ast.Name) and e.func.id in ("max", "min") and not e.keywords:
        args = e.args[0].elts if len(e.args) == 1 and isinstance(e.args[0], ast.Tuple) else e.args
        if len(args) != 2:
            raise Fail("max/min arity")
        return f"(Z.{e.func.id} {expr(args[0], env)} {expr(args[1], env)})"
    raise Fail("unsupported expression " + ast.dump(e)[:80])


def bexpr(e, env):
    if isinstance(e, ast.Name) and e.id in env:
        return env[e.id]
    if isinstance(e, ast.BoolOp):
        op = " && " if isinstance(e.op, ast.And) else " || "
        return "(" + op.join(bexpr(v, env) for v in e.values) + ")"
    if isinstance(e, ast.UnaryOp) and isinstance(e.op, ast.Not):
        return f"(negb {bexpr(e.operand, env)})"
    if isinstance(e, ast.Compare):
        parts = []
        left = e.left
        for op, right in zip(e.ops, e.comparators):
            if isinstance(op, (ast.Eq, ast.NotEq)):
                if not (isinstance(left, ast.Attribute) and left.attr == "data"
                        and isinstance(right, ast.Attribute) and right.attr == "data"):
                    raise Fail("== / != only between .data attributes")
                t = f"({expr(left, env)} =? {expr(right, env)})"
                parts.append(t if isinstance(op, ast.Eq) else f"(negb {t})")
            elif type(op) in CMP:
                parts.append(f"({expr(left, env)} {CMP[type(op)]} {expr(right, env)})")
            else:
                raise Fail("unsupported comparison operator")
            left = right
        return "(" + " && ".join(parts) + ")"
    raise Fail("unsupported condition " + ast.dump(e)[:80])


def is_skippable(s):
    if isinstance(s, ast.Expr) and isinstance(s.value, ast.Constant):
        return True
    if isinstance(s, ast.Expr) and isinstance(s.value, ast.Call) and isinstance(s.value.func, ast.Attribute) \
            and isinstance(s.value.func.value, ast.Name) and s.value.func.value.id == "logger":
        return True
    return False


def stmts(body, env, k, ret):
    """k: Gallina text for falling off the end of the block; ret: (some, none) wrappers"""
    if not body:
        return k
    s, rest = body[0], body[1:]
    if is_skippable(s):
        return stmts(rest, env, k, ret)
    if isinstance(s, ast.Assign) and len(s.targets) == 1:
        t = s.targets[0]
        if isinstance(t, ast.Name):
            try:
                v = expr(s.value, env)
            except Fail:
                v = bexpr(s.value, env)
            env2 = dict(env)
            env2[t.id] = t.id
            return f"let {t.id} := {v} in\n  {stmts(rest, env2, k, ret)}"
        if isinstance(t, ast.Attribute) and isinstance(t.value, ast.Name) and t.attr in SETTER and t.value.id in env:
            new = f"({SETTER[t.attr]} {env[t.value.id]} {expr(s.value, env)})"
            env2 = dict(env)
            env2[t.value.id] = new
            return stmts(rest, env2, k, ret)
        raise Fail("unsupported assignment target")
    if isinstance(s, ast.If):
        after = stmts(rest, env, k, ret)
        return (f"if {bexpr(s.test, env)}\n  then {stmts(s.body, env, after, ret)}\n"
                f"  else {stmts(s.orelse, env, after, ret)}")
    if isinstance(s, ast.Return):
        if s.value is None or (isinstance(s.value, ast.Constant) and s.value.value is None):
            return ret[1]
        return ret[0] % expr(s.value, env)
    raise Fail("unsupported statement " + type(s).__name__)


def find_function(tree, name):
    for n in tree.body:
        if isinstance(n, ast.FunctionDef) and n.name == name:
            return n
    raise Fail(f"function {name} not found")


HEADER = ("(* generated from /repo by translate/py2v.py on every run — do not edit *)\n"
          "From AwVerif Require Import Base.Prelude.\n\n")

def load_kernels():
    """Every translate/k_*.py module contributes KERNELS: {GenFile: [(kernel name, translator)]}."""
    import glob
    import importlib
    here = os.path.dirname(os.path.abspath(__file__))
    if here not in sys.path:
        sys.path.insert(0, here)
    sys.modules.setdefault("py2v", sys.modules[__name__])
    kernels = {}
    for f in sorted(glob.glob(os.path.join(here, "k_*.py"))):
        mod = importlib.import_module(os.path.basename(f)[:-3])
        for fname, ks in mod.KERNELS.items():
            kernels.setdefault(fname, []).extend(ks)
    return kernels


def main():
    repo, out = sys.argv[1], sys.argv[2]
    os.makedirs(out, exist_ok=True)
    for fname, kernels in load_kernels().items():
        text = HEADER
        for kname, tr in kernels:
            try:
                text += tr(repo) + "\n"
            except Fail as ex:
                print(f"TRANSLATE-FAIL {kname}: {ex}")
                text += f"(* kernel {kname} could not be translated: {ex} *)\n"
            except (SyntaxError, OSError) as ex:
                print(f"TRANSLATE-FAIL {kname}: {type(ex).__name__} {ex}")
                text += f"(* kernel {kname} could not be read *)\n"
        path = os.path.join(out, fname + ".v")
        if not os.path.exists(path) or open(path).read() != text:
            open(path, "w").write(text)
            print(f"regenerated {fname}.v")


if __name__ == "__main__":
    main()
