"""Tie B for aw_datastore/storages/peewee.py (class PeeweeStorage) against Model/PeeweeStore.v.

Every method of PeeweeStorage (plus EventModel.from_event / EventModel.json / BucketModel.json) is re-translated on
every run into coq/Gen/GenPeeweeStore.v as a state-passing Gallina function
    gen_pw_<method> (c : pwstate) <args> : pwstate * res <natural result type>
and gen_pw_op_<method> / gen_pw_step wrap the result into `out`.  coq/Bridge/BridgePeeweeStore.v proves
gen_pw_step c o = pw_step c o.

The translation is a small typed CPS translator over the Python `ast`:
  * peewee query expressions become values of a generic Gallina query record (header of the generated file):
      Model.select() / Model.delete()          -> q_all
      q.where(P)                               -> q_where q (fun r => P')      conjuncts in call order
      q.order_by(F.desc()) / F.asc() / F       -> q_order_by q (sort_by (fun r => - F' r)) / (sort_by (fun r => F' r))
      q.limit(n)                               -> q_limit q n
      select .get()                            -> q_first q table      (None: DoesNotExist -> Err OtherError unless
                                                                        caught by `except peewee.DoesNotExist`)
      select .execute() / iteration            -> q_rows q table       (WHERE, then ORDER BY, then LIMIT)
      select .count()                          -> q_count q table
      delete .execute()                        -> q_delete q table     (new table, rowcount)
      BucketModel.get(P)                       -> q_first (q_where q_all P) (pw_buckets c)
      BucketModel.create(k=v, ...)             -> pw_insert_bucket c <id> (mkMeta ...)   keyword -> field
      EventModel.insert_many(rows).execute()   -> fold_left pw_insert_nrow rows c
      row.save()                               -> pw_save_event / pw_save_bucket (row read from the table), pw_save_new
                                                  (row built by from_event: INSERT when its id is None, else UPDATE)
  * self.bucket_keys[x] -> match pw_key c x with Some k => .. | None => (c, Err KeyError);   x in self.bucket_keys ->
    match on pw_key c x (cache, not table);  self.bucket_keys = {..} -> pw_with_keys
  * self.<method>(args) -> pbind (gen_pw_<method> c args) ..   positional arguments in source order
  * `if x is not None:` / `if x:` on an Optional -> match x with Some x => .. | None => .. (refinement of x)
  * attribute assignment on a row / event variable -> functional update (pe_set_*, pb_set_*, set_eid)
  * attribute access on an Optional row (None.timestamp = ..) -> Err AttributeError
NORMALISATIONS (identity codec, see notes): .total_seconds(), json.dumps, json.loads, float(), list(), deepcopy,
.astimezone(timezone.utc), Event(**EventModel.json(row)) are identities on Z labels / Z microseconds;
timedelta(hours=n) = n*3600*1000000; dt_plus_duration(a, b) = a + b (its SQL text is compared with the expected text);
`data or {}` is the label itself (label 0 = {}); a datetime tested for truth is an `option Z`; `[e for e in xs if e.id is
not None]` is `with_ids xs : list (Z * event)`; dict comprehensions are association lists; the trimming loop of
get_events is k_window's gen_pw_clip (re-validated here, imported from Gen.GenWindow); `chunks` is StoreBase.chunks
after k_commit.tr_peewee's check of its body.
Fail-closed: anything else raises Fail."""
import ast
import os

import py2v
from py2v import Fail

PEEWEE = "aw_datastore/storages/peewee.py"

HEADER = r"""From Coq Require Import List.
From AwVerif Require Import Model.StoreBase Model.PeeweeStore Gen.GenWindow.

Definition pbind {A B} (m : pwstate * res A) (f : pwstate -> A -> pwstate * res B) : pwstate * res B :=
  match m with
  | (c, Ok a) => f c a
  | (c, Err k) => (c, Err k)
  | (c, OutOfFuel) => (c, OutOfFuel)
  end.

(* peewee query objects *)
Record query (R : Type) := mkQ { q_pred : R -> bool; q_ord : list R -> list R; q_lim : option Z }.
Arguments mkQ {R}. Arguments q_pred {R}. Arguments q_ord {R}. Arguments q_lim {R}.
Definition q_all {R} : query R := mkQ (fun _ => true) (fun l => l) None.
Definition q_where {R} (q : query R) (p : R -> bool) : query R :=
  mkQ (fun r => q_pred q r && p r) (q_ord q) (q_lim q).
Definition q_order_by {R} (q : query R) (o : list R -> list R) : query R := mkQ (q_pred q) o (q_lim q).
Definition q_limit {R} (q : query R) (n : Z) : query R := mkQ (q_pred q) (q_ord q) (Some n).
Definition q_rows {R} (q : query R) (t : list R) : list R :=
  let rows := q_ord q (select_where (q_pred q) t) in
  match q_lim q with Some n => sql_limit n rows | None => rows end.
Definition q_first {R} (q : query R) (t : list R) : option R := hd_error (q_rows q t).
Definition q_count {R} (q : query R) (t : list R) : Z := Z.of_nat (length (q_rows q t)).
Definition q_delete {R} (q : query R) (t : list R) : list R * Z :=
  (delete_where (q_pred q) t, rowcount (q_pred q) t).

(* functional updates of row objects *)
Definition pe_set_ts (r : perow) (v : Z) := mkPerow (pe_id r) (pe_bucket r) v (pe_dur r) (pe_data r).
Definition pe_set_dur (r : perow) (v : Z) := mkPerow (pe_id r) (pe_bucket r) (pe_ts r) v (pe_data r).
Definition pe_set_data (r : perow) (v : Z) := mkPerow (pe_id r) (pe_bucket r) (pe_ts r) (pe_dur r) v.
Definition pb_set_meta (r : pbrow) (m : meta) := mkPbrow (pb_key r) (pb_id r) m.

(* a row object that has not been read from the table: its id may be None *)
Record nrow := mkNrow { n_id : option Z; n_bucket : Z; n_ts : Z; n_dur : Z; n_data : Z }.
Definition nrow_event (r : nrow) : event := mkEvent None (n_ts r) (n_dur r) (n_data r).
(* Model.save(): INSERT when the primary key is None, UPDATE ... WHERE id = ? otherwise *)
Definition pw_save_new (c : pwstate) (r : nrow) : pwstate * perow :=
  match n_id r with
  | None => let '(c', i) := pw_insert_event c (n_bucket r) (nrow_event r) in
            (c', mkPerow i (n_bucket r) (n_ts r) (n_dur r) (n_data r))
  | Some i => let row := mkPerow i (n_bucket r) (n_ts r) (n_dur r) (n_data r) in (pw_save_event c row, row)
  end.
(* one row of EventModel.insert_many(rows).execute(): the dicts carry no id *)
Definition pw_insert_nrow (c : pwstate) (r : nrow) : pwstate := fst (pw_insert_event c (n_bucket r) (nrow_event r)).

Definition pw_with_keys (c : pwstate) (ks : list (Z * Z)) : pwstate := mkPw (pw_buckets c) (pw_events c) ks.

(* [e for e in xs if e.id is not None], each element with the id that the test found *)
Definition with_ids (l : list event) : list (Z * event) :=
  flat_map (fun e => match eid e with Some i => [(i, e)] | None => [] end) l.

(* for x in l: body   (an exception leaves the loop) *)
Fixpoint pw_for {A} (body : pwstate -> A -> pwstate * res unit) (l : list A) (c : pwstate) : pwstate * res unit :=
  match l with
  | [] => (c, Ok tt)
  | x :: t => match body c x with
              | (c', Ok _) => pw_for body t c'
              | (c', r) => (c', r)
              end
  end.
"""

DT_PLUS_DURATION = ("return peewee.fn.strftime('%Y-%m-%d %H:%M:%f+00:00', "
                    "(peewee.fn.julianday(dt) - 2440587.5) * 86400.0 + duration, 'unixepoch')")

ERRCLASS = {"KeyError", "ValueError", "IndexError", "AttributeError", "TypeError"}

# method -> (parameter types by position (after self), natural result type)
METHODS = {
    "update_bucket_keys": ([], "unit"),
    "buckets": ([], "bdict"),
    "create_bucket": (["Z", "Z", "Z", "Z", "Z", "optZ", "dlabel"], "unit"),
    "update_bucket": (["Z", "optZ", "optZ", "optZ", "optZ", "optZ"], "unit"),
    "delete_bucket": (["Z"], "unit"),
    "get_metadata": (["Z"], "bjson"),
    "insert_one": (["Z", "event"], "event"),
    "insert_many": (["Z", "events"], "unit"),
    "_get_event": (["Z", "Z"], "optperow"),
    "_get_last": (["Z"], "perow"),
    "replace_last": (["Z", "event"], "event"),
    "delete": (["Z", "Z"], "Z"),
    "replace": (["Z", "Z", "event"], "event"),
    "get_event": (["Z", "Z"], "optevent"),
    "get_events": (["Z", "Z", "optT", "optT"], "elist"),
    "get_eventcount": (["Z", "optT", "optT"], "Z"),
    "_where_range": (["qsel_E", "optT", "optT"], "qsel_E"),
}
# translation order = dependency order of the generated definitions
ORDER = ["update_bucket_keys", "_where_range", "_get_event", "_get_last", "replace", "buckets", "create_bucket",
         "update_bucket", "delete_bucket", "get_metadata", "insert_one", "insert_many", "replace_last", "delete",
         "get_event", "get_events", "get_eventcount"]
NOT_TRANSLATED = {"__init__"}
PURE_METHODS = {"_where_range"}     # query in, query out: no state, no exception

GTYPE = {"Z": "Z", "optZ": "option Z", "optT": "option Z", "dlabel": "Z", "event": "event", "events": "list event", "unit": "unit",
         "bdict": "list (Z * meta)", "bjson": "Z * meta", "optperow": "option perow", "perow": "perow",
         "optevent": "option event", "elist": "list event", "qsel_E": "query perow"}

# op constructor -> (method, binder text, argument text, wrapper of the natural result into `out`)
OPS = [
    ("CreateBucket", "create_bucket", "b m",
     "b (m_type m) (m_client m) (m_hostname m) (m_created m) (m_name m) (m_data m)", "fun _ => ONone"),
    ("UpdateBucket", "update_bucket", "b ty cl ho na da", "b ty cl ho na da", "fun _ => ONone"),
    ("DeleteBucket", "delete_bucket", "b", "b", "fun _ => ONone"),
    ("Buckets", "buckets", "", "", "fun l => OBuckets l"),
    ("GetMetadata", "get_metadata", "b", "b", "fun j => OMeta (fst j) (snd j)"),
    ("InsertOne", "insert_one", "b e", "b e", "fun e => OEvent (Some e)"),
    ("InsertMany", "insert_many", "b es", "b es", "fun _ => ONone"),
    ("Replace", "replace", "b i e", "b i e", "fun e => OEvent (Some e)"),
    ("ReplaceLast", "replace_last", "b e", "b e", "fun e => OEvent (Some e)"),
    ("Delete", "delete", "b i", "b i", "fun n => OBool (0 <? n)"),
    ("GetEvent", "get_event", "b i", "b i", "fun e => OEvent e"),
    ("GetEvents", "get_events", "b limit st en", "b limit st en", "fun l => OEvents l"),
    ("GetEventCount", "get_eventcount", "b st en", "b st en", "fun n => OCount n"),
]

EV_COL = {"id": "pe_id", "bucket": "pe_bucket", "timestamp": "pe_ts", "duration": "pe_dur", "datastr": "pe_data"}
EV_SET = {"timestamp": "pe_set_ts", "duration": "pe_set_dur", "datastr": "pe_set_data"}
B_META = {"type": "m_type", "client": "m_client", "hostname": "m_hostname", "created": "m_created", "name": "m_name",
          "datastr": "m_data"}
B_SET = {"type": "set_type", "client": "set_client", "hostname": "set_hostname", "name": "set_name",
         "datastr": "set_mdata"}
META_ORDER = ["type", "client", "hostname", "created", "name", "datastr"]
CMP = {ast.LtE: "<=?", ast.Lt: "<?", ast.GtE: ">=?", ast.Gt: ">?", ast.Eq: "=?"}


class V:
    def __init__(self, ty, text):
        self.ty = ty
        self.text = text


def _is_none(e):
    return isinstance(e, ast.Constant) and e.value is None


def _self_attr(e, attr):
    return (isinstance(e, ast.Attribute) and isinstance(e.value, ast.Name) and e.value.id == "self"
            and e.attr == attr)


def _model_attr(e):
    """EventModel.<f> / BucketModel.<f> -> ('E'|'B', f)"""
    if isinstance(e, ast.Attribute) and isinstance(e.value, ast.Name) and e.value.id in ("EventModel", "BucketModel"):
        return e.value.id[0], e.attr
    return None


class Tr:
    def __init__(self, tree, cls):
        self.tree = tree
        self.cls = cls
        self.n = 0
        self.methods = {m.name: m for m in cls.body if isinstance(m, ast.FunctionDef)}
        self.hoisted = 0     # counts effectful hoists (bucket_keys lookups), used by comprehensions

    def fresh(self, base):
        self.n += 1
        return f"{base}{self.n}"

    # ------------------------------------------------------------------ helpers
    @staticmethod
    def var(name):
        return "v_" + name

    def raise_(self, env, cls):
        if env.get("$pure"):
            raise Fail(f"exception {cls} possible in a pure context")
        return f"({env['$c']}, Err {cls})"

    def need(self, v, ty, what):
        if v.ty != ty:
            raise Fail(f"{what}: expected {ty}, found {v.ty}")
        return v.text

    def table(self, env, m):
        return f"(pw_events {env['$c']})" if m == "E" else f"(pw_buckets {env['$c']})"

    # ------------------------------------------------------------------ expressions (CPS)
    def ev(self, e, env, k):
        """k(V, env) -> Gallina text of the rest of the computation"""
        if isinstance(e, ast.Name):
            if e.id in env:
                return k(env[e.id], env)
            raise Fail(f"unknown name {e.id}")
        if _is_none(e):
            return k(V("none", "None"), env)
        if isinstance(e, ast.Constant) and type(e.value) is int:
            return k(V("Z", str(e.value) if e.value >= 0 else f"({e.value})"), env)
        if isinstance(e, ast.List) and not e.elts:
            return k(V("nil", "[]"), env)
        if isinstance(e, ast.Attribute):
            return self.ev_attr(e, env, k)
        if isinstance(e, ast.Subscript):
            if not _self_attr(e.value, "bucket_keys"):
                raise Fail("subscript of something other than self.bucket_keys")
            return self.ev(e.slice, env, lambda i, env: self.keys_lookup(i, env, k))
        if isinstance(e, ast.BinOp) and isinstance(e.op, (ast.Add, ast.Sub)):
            op = "+" if isinstance(e.op, ast.Add) else "-"
            return self.ev(e.left, env, lambda a, env: self.ev(e.right, env, lambda b, env: k(
                V("Z", f"({self.need(a, 'Z', 'left operand')} {op} {self.need(b, 'Z', 'right operand')})"), env)))
        if isinstance(e, ast.BoolOp) and isinstance(e.op, ast.Or) and len(e.values) == 2 \
                and isinstance(e.values[1], ast.Dict) and not e.values[1].keys:
            # `data or {}`: the label of a dict-or-None, label 0 = {} (normalisation)
            return self.ev(e.values[0], env, lambda a, env: k(V("Z", self.need(a, "dlabel", "x or {}")), env))
        if isinstance(e, ast.Compare) and len(e.ops) == 1 and type(e.ops[0]) in CMP:
            op = CMP[type(e.ops[0])]

            def cmp_text(a, b):
                ta, tb = self.need(a, 'Z', 'comparison'), self.need(b, 'Z', 'comparison')
                if isinstance(e.ops[0], ast.Eq) and _model_attr(e.comparators[0]) and not _model_attr(e.left):
                    ta, tb = tb, ta          # `x == Model.f` is `Model.f == x` (SQL `=` is symmetric)
                return f"({ta} {op} {tb})"
            return self.ev(e.left, env, lambda a, env: self.ev(e.comparators[0], env, lambda b, env: k(
                V("bool", cmp_text(a, b)), env)))
        if isinstance(e, ast.IfExp):
            return self.cond(e.test, env,
                             lambda env1: self.ev(e.body, env1, lambda a, _: a),
                             lambda env2: self.ev(e.orelse, env2, lambda b, _: b),
                             k, value=True)
        if isinstance(e, ast.ListComp):
            return self.ev_listcomp(e, env, k)
        if isinstance(e, ast.DictComp):
            return self.ev_dictcomp(e, env, k)
        if isinstance(e, ast.Dict):
            return self.ev_rowdict(e, env, k)
        if isinstance(e, ast.Call):
            return self.ev_call(e, env, k)
        raise Fail("unsupported expression " + ast.dump(e)[:90])

    def keys_lookup(self, i, env, k):
        if env.get("$pure"):
            raise Fail("self.bucket_keys[...] in a pure context")
        self.hoisted += 1
        kv = self.fresh("k")
        return (f"match pw_key {env['$c']} {self.need(i, 'Z', 'bucket_keys index')} with\n"
                f"| Some {kv} => {k(V('Z', kv), env)}\n| None => ({env['$c']}, Err KeyError)\nend")

    def ev_attr(self, e, env, k):
        ma = _model_attr(e)
        if ma:
            # a field reference inside a query expression: the row variable of the enclosing lambda
            m, f = ma
            if env.get("$row") != m:
                raise Fail(f"field reference {ast.unparse(e)} outside a query over that model")
            col = EV_COL.get(f) if m == "E" else {"key": "pb_key", "id": "pb_id"}.get(f)
            if col is None:
                raise Fail(f"unsupported column {ast.unparse(e)}")
            return k(V("Z", f"({col} r)"), env)
        if not isinstance(e.value, ast.Name):
            raise Fail("unsupported attribute " + ast.unparse(e)[:60])
        name, f = e.value.id, e.attr
        ref = f"{name}.{f}"
        if ref in env:                       # refinement (event.id known to be not None)
            return k(env[ref], env)
        if name not in env:
            raise Fail(f"unknown name {name}")
        v = env[name]
        if v.ty == "event":
            if f == "id":
                return k(V("optZ", f"(eid {v.text})"), env)
            if f in py2v.ATTR:
                return k(V("Z", f"({py2v.ATTR[f]} {v.text})"), env)
        if v.ty == "idevent":
            if f == "id":
                return k(V("Z", f"(fst {v.text})"), env)
            if f in py2v.ATTR:
                return k(V("Z", f"({py2v.ATTR[f]} (snd {v.text}))"), env)
        if v.ty == "perow" and f in EV_COL:
            return k(V("Z", f"({EV_COL[f]} {v.text})"), env)
        if v.ty == "optperow":
            return self.deref(name, env, lambda env: self.ev_attr(e, env, k))
        if v.ty == "pbrow":
            if f == "key":
                return k(V("Z", f"(pb_key {v.text})"), env)
            if f == "id":
                return k(V("Z", f"(pb_id {v.text})"), env)
            if f in B_META:
                return k(V("optZ" if f == "name" else "Z", f"({B_META[f]} (pb_meta {v.text}))"), env)
        raise Fail(f"unsupported attribute .{f} of a {v.ty}")

    def deref(self, name, env, k):
        """attribute access on an Optional row: None -> AttributeError"""
        v = env[name]
        env2 = dict(env)
        env2[name] = V("perow", self.var(name))
        return (f"match {v.text} with\n| Some {self.var(name)} => {k(env2)}\n"
                f"| None => {self.raise_(env, 'AttributeError')}\nend")

    def identity_call(self, e):
        """calls that are the identity under the exact-Z / label codec -> the argument expression"""
        f = e.func
        if e.keywords:
            return None
        if isinstance(f, ast.Attribute) and f.attr == "total_seconds" and not e.args:
            return f.value
        if isinstance(f, ast.Attribute) and isinstance(f.value, ast.Name) and f.value.id == "json" \
                and f.attr in ("dumps", "loads") and len(e.args) == 1:
            return e.args[0]
        if isinstance(f, ast.Name) and f.id in ("float", "list", "deepcopy") and len(e.args) == 1:
            return e.args[0]
        if isinstance(f, ast.Attribute) and f.attr == "astimezone" and len(e.args) == 1 \
                and ast.unparse(e.args[0]) == "timezone.utc":
            return f.value
        return None

    def ev_call(self, e, env, k):
        inner = self.identity_call(e)
        if inner is not None:
            return self.ev(inner, env, k)
        f = e.func
        if isinstance(f, ast.Name):
            if f.id == "timedelta":
                if e.args or len(e.keywords) != 1 or e.keywords[0].arg != "hours" \
                        or not (isinstance(e.keywords[0].value, ast.Constant)
                                and type(e.keywords[0].value.value) is int):
                    raise Fail("unsupported timedelta(...) form")
                return k(V("Z", f"({e.keywords[0].value.value} * 3600 * 1000000)"), env)
            if f.id == "dt_plus_duration" and len(e.args) == 2 and not e.keywords:
                self.check_dt_plus_duration()
                return self.ev(e.args[0], env, lambda a, env: self.ev(e.args[1], env, lambda b, env: k(
                    V("Z", f"({self.need(a, 'Z', 'dt')} + {self.need(b, 'Z', 'duration')})"), env)))
            if f.id == "map" and len(e.args) == 2 and not e.keywords and ast.unparse(e.args[0]) == "EventModel.json":
                self.gen_event_json()
                return self.ev(e.args[1], env, lambda a, env: k(
                    V("elist", f"(map gen_pw_event_json {self.need(a, 'rows_E', 'map(EventModel.json, ..)')})"), env))
            if f.id == "Event":
                if e.args or len(e.keywords) != 1 or e.keywords[0].arg is not None:
                    raise Fail("Event(...) other than Event(**<row json>)")
                return self.ev(e.keywords[0].value, env,
                               lambda a, env: k(V("event", self.need(a, "event", "Event(**..)")), env))
            if f.id == "chunks":
                return self.ev_chunks(e, env, k)
            raise Fail(f"unsupported call of {f.id}")
        if not isinstance(f, ast.Attribute):
            raise Fail("unsupported call " + ast.unparse(e)[:60])
        # self.<method>(...)
        if isinstance(f.value, ast.Name) and f.value.id == "self":
            return self.ev_self_call(f.attr, e, env, k)
        # Model-level calls
        if isinstance(f.value, ast.Name) and f.value.id in ("EventModel", "BucketModel"):
            m = f.value.id[0]
            if f.attr in ("select", "delete") and not e.args and not e.keywords:
                kind = "qsel_" if f.attr == "select" else "qdel_"
                return k(V(kind + m, "q_all"), env)
            if f.attr == "get" and m == "B" and len(e.args) == 1 and not e.keywords:
                return self.pred(e.args[0], "B", env, lambda p, env: self.q_get(V("qsel_B", f"(q_where q_all {p})"), env, k))
            if f.attr == "create" and m == "B":
                return self.ev_create(e, env, k)
            if f.attr == "from_event" and m == "E" and len(e.args) == 2 and not e.keywords:
                self.gen_from_event()
                return self.ev(e.args[0], env, lambda a, env: self.ev(e.args[1], env, lambda b, env: k(
                    V("nrow", f"(gen_pw_from_event {self.need(a, 'Z', 'bucket key')} {self.need(b, 'event', 'event')})"),
                    env)))
            if f.attr == "json" and m == "E" and len(e.args) == 1 and not e.keywords:
                self.gen_event_json()
                return self.ev(e.args[0], env, lambda a, env: k(
                    V("event", f"(gen_pw_event_json {self.need(a, 'perow', 'EventModel.json(..)')})"), env))
            if f.attr == "insert_many" and m == "E" and len(e.args) == 1 and not e.keywords:
                return self.ev(e.args[0], env, lambda a, env: k(V("bulk", self.need(a, "nrows", "insert_many rows")), env))
            raise Fail(f"unsupported model call {ast.unparse(f)}")
        # method calls on a value
        return self.ev(f.value, env, lambda o, env: self.ev_method(o, f.attr, e, env, k))

    def ev_method(self, o, attr, e, env, k):
        if o.ty.startswith("qsel_") or o.ty.startswith("qdel_"):
            m = o.ty[-1]
            if attr == "where" and len(e.args) == 1 and not e.keywords:
                return self.pred(e.args[0], m, env, lambda p, env: k(V(o.ty, f"(q_where {o.text} {p})"), env))
            if attr == "order_by" and len(e.args) == 1 and not e.keywords and o.ty.startswith("qsel_"):
                a, sign = e.args[0], ""
                if isinstance(a, ast.Call) and isinstance(a.func, ast.Attribute) and a.func.attr in ("desc", "asc") \
                        and not a.args and not a.keywords:
                    sign = "- " if a.func.attr == "desc" else ""
                    a = a.func.value
                ma = _model_attr(a)
                if not ma or ma[0] != m or m != "E" or ma[1] not in EV_COL:
                    raise Fail("unsupported order_by argument")
                return k(V(o.ty, f"(q_order_by {o.text} (sort_by (fun r => {sign}{EV_COL[ma[1]]} r)))"), env)
            if attr == "limit" and len(e.args) == 1 and not e.keywords and o.ty.startswith("qsel_"):
                return self.ev(e.args[0], env, lambda n, env: k(
                    V(o.ty, f"(q_limit {o.text} {self.need(n, 'Z', 'limit')})"), env))
            if attr == "get" and not e.args and not e.keywords and o.ty.startswith("qsel_"):
                return self.q_get(o, env, k)
            if attr == "execute" and not e.args and not e.keywords:
                if o.ty.startswith("qsel_"):
                    return k(V("rows_" + m, f"(q_rows {o.text} {self.table(env, m)})"), env)
                return self.q_delete(o, env, k)
            if attr == "count" and not e.args and not e.keywords and o.ty.startswith("qsel_"):
                return k(V("Z", f"(q_count {o.text} {self.table(env, m)})"), env)
            raise Fail(f"unsupported query method .{attr}")
        if o.ty == "bulk" and attr == "execute" and not e.args and not e.keywords:
            if env.get("$pure"):
                raise Fail("bulk insert in a pure context")
            c2 = self.fresh("c")
            env2 = dict(env)
            env2["$c"] = c2
            return f"let {c2} := fold_left pw_insert_nrow {o.text} {env['$c']} in\n{k(V('unit', 'tt'), env2)}"
        if o.ty == "pbrow" and attr == "json" and not e.args and not e.keywords:
            self.gen_bucket_json()
            return k(V("bjson", f"(gen_pw_bucket_json {o.text})"), env)
        raise Fail(f"unsupported method .{attr} of a {o.ty}")

    def pred(self, p, m, env, k):
        """a peewee expression over the fields of model m -> `(fun r => ...)`; effects are hoisted out of the lambda"""
        env2 = dict(env)
        env2["$row"] = m

        def done(b, env3):
            env4 = dict(env3)
            if "$row" in env:
                env4["$row"] = env["$row"]
            else:
                env4.pop("$row", None)
            return k(f"(fun r => {self.need(b, 'bool', 'where(...) argument')})", env4)
        if not isinstance(p, ast.Compare):
            raise Fail("where(...) argument is not a comparison")
        return self.ev(p, env2, done)

    def q_get(self, q, env, k):
        m = q.ty[-1]
        r = self.fresh("row")
        none = env.get("$dne") or self.raise_(env, "OtherError")
        ty = "perow" if m == "E" else "pbrow"
        return (f"match q_first {q.text} {self.table(env, m)} with\n| Some {r} => {k(V(ty, r), env)}\n"
                f"| None => {none}\nend")

    def q_delete(self, q, env, k):
        if env.get("$pure"):
            raise Fail("DELETE in a pure context")
        m = q.ty[-1]
        t, n, c2 = self.fresh("t"), self.fresh("n"), self.fresh("c")
        env2 = dict(env)
        env2["$c"] = c2
        w = "pw_with_events" if m == "E" else "pw_with_buckets"
        return (f"let '({t}, {n}) := q_delete {q.text} {self.table(env, m)} in\n"
                f"let {c2} := {w} {env['$c']} {t} in\n{k(V('Z', n), env2)}")

    def ev_create(self, e, env, k):
        if e.args or any(kw.arg is None for kw in e.keywords):
            raise Fail("BucketModel.create with positional / ** arguments")
        kws = {kw.arg: kw.value for kw in e.keywords}
        if sorted(kws) != sorted(["id"] + META_ORDER) or len(kws) != len(e.keywords):
            raise Fail("BucketModel.create: unexpected keyword set " + ",".join(sorted(kws)))
        want = {"id": "Z", "type": "Z", "client": "Z", "hostname": "Z", "created": "Z", "name": "optZ", "datastr": "Z"}
        order = [kw.arg for kw in e.keywords]      # evaluation order = source order
        vals = {}

        def go(i, env):
            if i == len(order):
                if env.get("$pure"):
                    raise Fail("INSERT in a pure context")
                c2 = self.fresh("c")
                env2 = dict(env)
                env2["$c"] = c2
                meta = "(mkMeta " + " ".join(vals[f] for f in META_ORDER) + ")"
                return (f"match pw_insert_bucket {env['$c']} {vals['id']} {meta} with\n"
                        f"| Ok {c2} => {k(V('unit', 'tt'), env2)}\n| Err ex => ({env['$c']}, Err ex)\n"
                        f"| OutOfFuel => ({env['$c']}, OutOfFuel)\nend")
            kw = order[i]

            def got(v, env):
                vals[kw] = self.need(v, want[kw], f"BucketModel.create({kw}=..)")
                return go(i + 1, env)
            return self.ev(kws[kw], env, got)
        return go(0, env)

    def ev_chunks(self, e, env, k):
        import k_commit
        k_commit.tr_peewee(self.repo)      # chunks' body slices ls[i:i+n] for i in range(0, len(ls), n); Fail otherwise
        ch = [n for n in self.tree.body if isinstance(n, ast.FunctionDef) and n.name == "chunks"][0]
        params = [a.arg for a in ch.args.args]
        if e.keywords or len(e.args) != 2 or params != ["ls", "n"]:
            raise Fail("chunks(...) call / signature")
        size = e.args[1]
        if not (isinstance(size, ast.Constant) and type(size.value) is int and size.value >= 1):
            raise Fail("chunk size is not a positive integer literal")
        return self.ev(e.args[0], env, lambda a, env: k(
            V("chunks", f"(chunks {size.value}%nat {self.need(a, 'nrows', 'chunks(ls, n)')})"), env))

    def ev_self_call(self, name, e, env, k):
        if name not in METHODS or name not in self.done:
            raise Fail(f"call of self.{name}() (not translated before its caller)")
        ptys, rty = METHODS[name]
        if e.keywords or len(e.args) != len(ptys):
            raise Fail(f"self.{name}: positional call with {len(ptys)} arguments expected")
        texts = []

        def go(i, env):
            if i == len(ptys):
                args = " ".join(texts)
                if name in PURE_METHODS:
                    return k(V(rty, f"(gen_pw_{name} {args})"), env)
                if env.get("$pure"):
                    raise Fail(f"self.{name}() in a pure context")
                c2, r = self.fresh("c"), self.fresh("r")
                env2 = dict(env)
                env2["$c"] = c2
                return (f"pbind (gen_pw_{name} {env['$c']} {args}".rstrip() + f") (fun {c2} {r} =>\n"
                        f"{k(V(rty, r), env2)})")

            def got(v, env):
                if v.ty == "idevent" and ptys[i] == "event":
                    v = V("event", f"(snd {v.text})")
                texts.append(self.need(v, ptys[i], f"argument {i + 1} of self.{name}"))
                return go(i + 1, env)
            return self.ev(e.args[i], env, got)
        return go(0, env)

    # ------------------------------------------------------------------ comprehensions
    def one_gen(self, e):
        if len(e.generators) != 1 or e.generators[0].is_async or not isinstance(e.generators[0].target, ast.Name):
            raise Fail("unsupported comprehension")
        g = e.generators[0]
        return g.target.id, g.iter, g.ifs

    def iter_value(self, v, env):
        """what iterating over a value yields: (element type, Gallina list)"""
        if v.ty == "events":
            return "event", v.text
        if v.ty == "idevents":
            return "idevent", v.text
        if v.ty == "elist":
            return "event", v.text
        if v.ty == "qsel_B":
            return "pbrow", f"(q_rows {v.text} {self.table(env, 'B')})"
        if v.ty == "chunks":
            return "nrows", v.text
        raise Fail(f"iteration over a {v.ty}")

    def ev_listcomp(self, e, env, k):
        var, it, ifs = self.one_gen(e)

        def with_iter(src, env):
            ety, lst = self.iter_value(src, env)
            # [e for e in xs if e.id is not None]
            if isinstance(e.elt, ast.Name) and e.elt.id == var and len(ifs) == 1 and ety == "event" \
                    and ast.unparse(ifs[0]) == f"{var}.id is not None":
                return k(V("idevents", f"(with_ids {lst})"), env)
            if isinstance(e.elt, ast.Name) and e.elt.id == var and not ifs:
                return k(V(src.ty, f"(map (fun {self.var(var)} => {self.var(var)}) {lst})"), env)
            penv = dict(env)
            penv["$pure"] = True
            penv[var] = V(ety, self.var(var))
            if len(ifs) > 1:
                raise Fail("comprehension with several filters")
            if ifs:
                c = self.cond(ifs[0], penv, lambda _: "true", lambda _: "false", None, value="raw")
                lst = f"(filter (fun {self.var(var)} => {c}) {lst})"
            if not any(isinstance(n, ast.Subscript) for n in ast.walk(e.elt)):
                el = self.ev(e.elt, penv, lambda a, _: a)
                lty = {"event": "elist", "nrow": "nrows"}.get(el.ty)
                if lty is None:
                    raise Fail(f"list comprehension building a list of {el.ty}")
                return k(V(lty, f"(map (fun {self.var(var)} => {el.text}) {lst})"), env)
            # the element expression may look the bucket key up (loop-invariant, raises on the first element)
            eenv = dict(env)
            eenv[var] = V(ety, self.var(var))
            for n in ast.walk(e.elt):
                if isinstance(n, ast.Subscript):
                    if any(isinstance(x, ast.Name) and x.id == var for x in ast.walk(n)):
                        raise Fail("bucket_keys lookup depends on the comprehension variable")
            before = self.hoisted
            kont, src_v = self.fresh("kont"), self.fresh("src")
            box = {}

            def elt_done(v, env2):
                if v.ty != "nrow":
                    raise Fail(f"list comprehension building a list of {v.ty}")
                box["ty"] = v.ty
                return f"{kont} (map (fun {self.var(var)} => {v.text}) {src_v})"
            body = self.ev(e.elt, eenv, elt_done)
            rest = k(V("nrows", "rows"), env)
            if self.hoisted == before:
                guard = body
            else:
                guard = f"match {src_v} with\n| [] => {kont} []\n| _ :: _ => {body}\nend"
            return (f"let {kont} := fun (rows : list nrow) => {rest} in\nlet {src_v} := {lst} in\n{guard}")
        return self.ev(it, env, with_iter)

    def ev_dictcomp(self, e, env, k):
        var, it, ifs = self.one_gen(e)
        if ifs:
            raise Fail("dict comprehension with a filter")

        def with_iter(src, env):
            ety, lst = self.iter_value(src, env)
            penv = dict(env)
            penv["$pure"] = True
            penv[var] = V(ety, self.var(var))
            key = self.ev(e.key, penv, lambda a, _: self.need(a, "Z", "dict key"))
            val = self.ev(e.value, penv, lambda a, _: a)
            if val.ty == "Z":
                ty, vt = "alist_ZZ", val.text
            elif val.ty == "bjson":
                # the value dict {"id": .., **meta}: OBuckets keeps the metadata part
                ty, vt = "bdict", f"(snd {val.text})"
            else:
                raise Fail(f"dict comprehension with values of type {val.ty}")
            return k(V(ty, f"(map (fun {self.var(var)} => ({key}, {vt})) {lst})"), env)
        return self.ev(it, env, with_iter)

    def ev_rowdict(self, e, env, k):
        """{"bucket": .., "timestamp": .., "duration": .., "datastr": ..} : a row for EventModel.insert_many"""
        keys = [kk.value if isinstance(kk, ast.Constant) and isinstance(kk.value, str) else None for kk in e.keys]
        if sorted(x or "" for x in keys) != ["bucket", "datastr", "duration", "timestamp"]:
            raise Fail("row dict: keys are not exactly bucket/timestamp/duration/datastr")
        vals = {}

        def go(i, env):
            if i == len(keys):
                return k(V("nrow", f"(mkNrow None {vals['bucket']} {vals['timestamp']} {vals['duration']} "
                                   f"{vals['datastr']})"), env)

            def got(v, env):
                vals[keys[i]] = self.need(v, "Z", f"row dict entry {keys[i]}")
                return go(i + 1, env)
            return self.ev(e.values[i], env, got)
        return go(0, env)

    # ------------------------------------------------------------------ conditions
    def cond(self, t, env, then, other, k, value=False):
        """then/other: env -> text (statement mode) or -> V (value mode).  value='raw': both return text, result is
        the bare match text."""
        neg = False
        if isinstance(t, ast.UnaryOp) and isinstance(t.op, ast.Not):
            neg, t = True, t.operand
        opt = None           # (tested expression, positive = the Some branch is `then`)
        truth = False
        if isinstance(t, ast.Compare) and len(t.ops) == 1 and isinstance(t.ops[0], (ast.Is, ast.IsNot)) \
                and _is_none(t.comparators[0]):
            opt = (t.left, isinstance(t.ops[0], ast.IsNot))
        elif isinstance(t, ast.Name) and t.id in env and env[t.id].ty in ("optT", "optperow"):
            opt = (t, True)                 # truthiness of an Optional datetime / row object = is not None
        elif isinstance(t, ast.Name) and t.id in env and env[t.id].ty == "optZ":
            opt = (t, True)                 # truthiness of an Optional str / dict label: not None and not ""/{}
            truth = True
        if opt:
            target, positive = opt
            if neg:
                positive = not positive
            if isinstance(target, ast.Name):
                key = target.id
            elif isinstance(target, ast.Attribute) and isinstance(target.value, ast.Name) and target.attr == "id":
                key = f"{target.value.id}.id"
            else:
                raise Fail("unsupported Optional test " + ast.unparse(t))
            scrut = self.ev(target, dict(env, **{"$pure": True}), lambda a, _: a)
            if scrut.ty not in ("optZ", "optT", "optperow"):
                raise Fail(f"`is None` test of a {scrut.ty}")
            binder = self.var(key.replace(".", "_"))
            env_some = dict(env)
            env_some[key] = V("perow" if scrut.ty == "optperow" else "Z", binder)
            s, n = (then, other) if positive else (other, then)
            a, b = s(env_some), n(env)
            if truth:
                if not positive:
                    raise Fail("negated truthiness test of an Optional label")
                return self.join(f"match {scrut.text} with\n| Some {binder} => if truthy {binder} then %(a)s else %(b)s\n"
                                 f"| None => %(b)s\nend", a, b, env, k, value)
            return self.join(f"match {scrut.text} with\n| Some {binder} => %(a)s\n| None => %(b)s\nend", a, b, env, k,
                             value)
        if neg:
            then, other = other, then
        if isinstance(t, ast.Compare) and len(t.ops) == 1 and isinstance(t.ops[0], ast.In) \
                and _self_attr(t.comparators[0], "bucket_keys"):
            idx = self.ev(t.left, dict(env, **{"$pure": True}), lambda a, _: a)
            a, b = then(env), other(env)
            return self.join(f"match pw_key {env['$c']} {self.need(idx, 'Z', 'in bucket_keys')} with\n"
                             f"| Some _ => %(a)s\n| None => %(b)s\nend", a, b, env, k, value)
        if isinstance(t, ast.Compare):
            c = self.ev(t, dict(env, **{"$pure": True}), lambda a, _: a)
            a, b = then(env), other(env)
            return self.join(f"if {self.need(c, 'bool', 'condition')}\nthen %(a)s\nelse %(b)s", a, b, env, k, value)
        raise Fail("unsupported condition " + ast.unparse(t)[:60])

    def join(self, fmt, a, b, env, k, value):
        if value == "raw" or not value:
            return fmt % {"a": a, "b": b}
        # value mode: a, b are V; Some-wrapping when one side is Optional
        ta, tb = a.ty, b.ty
        if ta == tb:
            ty, xa, xb = ta, a.text, b.text
        elif tb == "none" and ta in ("event", "perow", "Z"):
            ty, xa, xb = {"event": "optevent", "perow": "optperow", "Z": "optZ"}[ta], f"(Some {a.text})", "None"
        elif ta == "none" and tb in ("event", "perow", "Z"):
            ty, xa, xb = {"event": "optevent", "perow": "optperow", "Z": "optZ"}[tb], "None", f"(Some {b.text})"
        elif ta == "Z" and tb in ("optZ", "optT"):
            ty, xa, xb = tb, f"(Some {a.text})", b.text
        elif ta in ("optZ", "optT") and tb == "Z":
            ty, xa, xb = ta, a.text, f"(Some {b.text})"
        else:
            raise Fail(f"branches of a conditional have types {ta} / {tb}")
        return k(V(ty, "(" + fmt % {"a": xa, "b": xb} + ")"), env)

    # ------------------------------------------------------------------ statements
    def ret(self, v, env):
        rty = env["$ret"]
        ok = {("optperow", "perow"): "(Some %s)", ("optperow", "none"): "None", ("optevent", "none"): "None",
              ("optevent", "event"): "(Some %s)", ("unit", "none"): "tt", ("elist", "nil"): "[]"}
        if v.ty == rty:
            text = v.text
        elif (rty, v.ty) in ok:
            text = ok[(rty, v.ty)] % v.text if "%s" in ok[(rty, v.ty)] else ok[(rty, v.ty)]
        else:
            raise Fail(f"return of a {v.ty} where the method yields {rty}")
        if env.get("$puremethod"):
            return text
        return f"({env['$c']}, Ok {text})"

    def fall_off(self, env):
        if env.get("$puremethod") or env["$ret"] != "unit":
            raise Fail("control falls off the end of a method that returns a value")
        return f"({env['$c']}, Ok tt)"

    @staticmethod
    def drop_refinements(env, name):
        return {kk: vv for kk, vv in env.items() if not kk.startswith(name + ".")}

    def bind(self, name, v, env, nxt):
        env2 = self.drop_refinements(env, name)
        env2[name] = V(v.ty, self.var(name))
        return f"let {self.var(name)} := {v.text} in\n{nxt(env2)}"

    def block(self, body, env, fall):
        body = [s for s in body if not py2v.is_skippable(s)]
        if not body:
            return fall(env)
        s, rest = body[0], body[1:]

        def nxt(env):
            return self.block(rest, env, fall)
        if isinstance(s, ast.Return):
            if s.value is None:
                return self.ret(V("none", "None"), env)
            return self.ev(s.value, env, self.ret)
        if isinstance(s, ast.Raise):
            ex = s.exc
            if isinstance(ex, ast.Call):
                ex = ex.func
            if not (isinstance(ex, ast.Name) and ex.id in ERRCLASS) or s.cause is not None:
                raise Fail("unsupported raise")
            return self.raise_(env, ex.id)
        if isinstance(s, ast.AnnAssign) and s.value is not None and s.simple:
            s = ast.Assign(targets=[s.target], value=s.value)
        if isinstance(s, ast.Assign) and len(s.targets) == 1:
            return self.assign(s.targets[0], s.value, env, nxt)
        if isinstance(s, ast.Expr) and isinstance(s.value, ast.Call):
            return self.expr_stmt(s.value, env, nxt)
        if isinstance(s, ast.If):
            return self.if_stmt(s, env, nxt)
        if isinstance(s, ast.For):
            return self.for_stmt(s, env, nxt)
        if isinstance(s, ast.Try):
            return self.try_stmt(s, env, rest)
        raise Fail("unsupported statement " + type(s).__name__)

    def assign(self, t, value, env, nxt):
        if isinstance(t, ast.Name):
            if t.id in ("self",):
                raise Fail("assignment to self")
            return self.ev(value, env, lambda v, env: self.bind(t.id, v, env, nxt))
        if _self_attr(t, "bucket_keys"):
            def setkeys(v, env):
                if env.get("$pure"):
                    raise Fail("assignment to self.bucket_keys in a pure context")
                c2 = self.fresh("c")
                env2 = dict(env)
                env2["$c"] = c2
                return (f"let {c2} := pw_with_keys {env['$c']} {self.need(v, 'alist_ZZ', 'self.bucket_keys = ..')} in\n"
                        f"{nxt(env2)}")
            return self.ev(value, env, setkeys)
        if isinstance(t, ast.Attribute) and isinstance(t.value, ast.Name) and t.value.id in env:
            name, f = t.value.id, t.attr
            if env[name].ty == "optperow":          # None.timestamp = ... -> AttributeError (target checked after
                # the value is evaluated; the value expressions here are pure, so the order is unobservable)
                return self.deref(name, env, lambda env: self.assign(t, value, env, nxt))
            cur = env[name]

            def store(v, env):
                cur = env[name]
                if cur.ty == "event" and f == "id":
                    new = f"(set_eid {cur.text} (Some {self.need(v, 'Z', 'event.id = ..')}))"
                elif cur.ty == "perow" and f in EV_SET:
                    new = f"({EV_SET[f]} {cur.text} {self.need(v, 'Z', 'row field')})"
                elif cur.ty == "pbrow" and f in B_SET:
                    if f == "name":
                        val = v.text if v.ty == "optZ" else f"(Some {self.need(v, 'Z', 'bucket.name')})"
                    else:
                        val = self.need(v, "Z", "bucket field")
                    new = f"(pb_set_meta {cur.text} ({B_SET[f]} (pb_meta {cur.text}) {val}))"
                else:
                    raise Fail(f"unsupported assignment to .{f} of a {cur.ty}")
                return self.bind(name, V(cur.ty, new), env, nxt)
            del cur
            return self.ev(value, env, store)
        raise Fail("unsupported assignment target " + ast.unparse(t)[:60])

    def expr_stmt(self, call, env, nxt):
        f = call.func
        if isinstance(f, ast.Attribute) and f.attr == "save" and isinstance(f.value, ast.Name) and f.value.id in env \
                and not call.args and not call.keywords:
            name = f.value.id
            v = env[name]
            if env.get("$pure"):
                raise Fail("save() in a pure context")
            c2 = self.fresh("c")
            env2 = dict(env)
            env2["$c"] = c2
            if v.ty == "perow":
                return f"let {c2} := pw_save_event {env['$c']} {v.text} in\n{nxt(env2)}"
            if v.ty == "pbrow":
                return f"let {c2} := pw_save_bucket {env['$c']} {v.text} in\n{nxt(env2)}"
            if v.ty == "nrow":
                env2 = self.drop_refinements(env2, name)
                env2[name] = V("perow", self.var(name))
                return f"let '({c2}, {self.var(name)}) := pw_save_new {env['$c']} {v.text} in\n{nxt(env2)}"
            if v.ty == "optperow":
                return self.deref(name, env, lambda env: self.expr_stmt(call, env, nxt))
            raise Fail(f"save() of a {v.ty}")
        return self.ev(call, env, lambda v, env: nxt(env))

    @staticmethod
    def has_control(stmts_):
        for s in stmts_:
            for n in ast.walk(s):
                if isinstance(n, (ast.Return, ast.Raise, ast.Expr, ast.For, ast.While, ast.Try, ast.With)):
                    if isinstance(n, ast.Expr) and isinstance(n.value, ast.Constant):
                        continue
                    return True
        return False

    @staticmethod
    def assigned(stmts_):
        out = []
        for s in stmts_:
            for n in ast.walk(s):
                if isinstance(n, (ast.Assign, ast.AnnAssign)):
                    for t in (n.targets if isinstance(n, ast.Assign) else [n.target]):
                        root = t
                        while isinstance(root, ast.Attribute):
                            root = root.value
                        if not isinstance(root, ast.Name):
                            raise Fail("unsupported assignment target in a conditional")
                        if root.id not in out:
                            out.append(root.id)
        return out

    def if_stmt(self, s, env, nxt):
        if self.has_control(s.body + s.orelse):
            return self.cond(s.test, env, lambda env: self.block(s.body, env, nxt),
                             lambda env: self.block(s.orelse, env, nxt), None)
        names = self.assigned(s.body + s.orelse)
        if len(names) != 1:
            raise Fail("conditional assigning to several variables: " + ",".join(names))
        x = names[0]
        if x not in env:
            raise Fail(f"conditional assignment to the new variable {x}")

        def value_of(branch):
            def go(env):
                box = {}

                def fall(env):
                    box["ty"] = env[x].ty
                    return env[x].text
                penv = dict(env)
                penv["$pure"] = True
                text = self.block(branch, penv, fall)
                return V(box["ty"], "(" + text + ")")
            return go
        return self.cond(s.test, env, value_of(s.body), value_of(s.orelse),
                         lambda v, env: self.bind(x, v, env, nxt), value=True)

    def for_stmt(self, s, env, nxt):
        if s.orelse or not isinstance(s.target, ast.Name):
            raise Fail("unsupported for loop")
        var = s.target.id

        def with_iter(src, env):
            if src.ty == "elist":
                # the trimming loop of get_events: k_window's kernel (validated again here)
                import k_window
                k_window.tr_pw_clip(self.repo)
                if not (isinstance(s.iter, ast.Name) and s.iter.id == "events" and var == "e"):
                    raise Fail("trimming loop is not `for e in events:`")
                st, en = env.get("starttime"), env.get("endtime")
                if not (st and en and st.ty == "optT" and en.ty == "optT"):
                    raise Fail("starttime / endtime are not the Optional parameters at the trimming loop")
                return self.bind("events", V("elist", f"(map (gen_pw_clip {st.text} {en.text}) {src.text})"), env, nxt)
            if env.get("$pure"):
                raise Fail("loop in a pure context")
            ety, lst = self.iter_value(src, env)
            if any(isinstance(n, ast.Return) for b in s.body for n in ast.walk(b)):
                raise Fail("return inside a loop")
            cb, c2 = self.fresh("c"), self.fresh("c")
            benv = dict(env)
            benv["$c"] = cb
            benv["$ret"] = "unit"
            benv[var] = V(ety, self.var(var))
            body = self.block(s.body, benv, lambda env: f"({env['$c']}, Ok tt)")
            env2 = dict(env)
            env2["$c"] = c2
            return (f"pbind (pw_for (fun {cb} {self.var(var)} =>\n{body}) {lst} {env['$c']}) (fun {c2} _ =>\n"
                    f"{nxt(env2)})")
        return self.ev(s.iter, env, with_iter)

    def try_stmt(self, s, env, rest):
        if len(s.handlers) != 1 or s.orelse or s.finalbody or rest:
            raise Fail("unsupported try statement")
        h = s.handlers[0]
        if h.type is None or ast.unparse(h.type) not in ("peewee.DoesNotExist", "DoesNotExist") or h.name:
            raise Fail("unsupported exception handler")
        body = [x for x in s.body if not py2v.is_skippable(x)]
        if len(body) != 1 or not isinstance(body[0], ast.Return):
            raise Fail("try body is not a single return")
        handler = self.block(h.body, env, self.fall_off)
        env2 = dict(env)
        env2["$dne"] = handler
        return self.block(body, env2, self.fall_off)

    # ------------------------------------------------------------------ definitions
    def method(self, name):
        if name not in self.methods:
            raise Fail(f"PeeweeStorage.{name} not found")
        fn = self.methods[name]
        ptys, rty = METHODS[name]
        a = fn.args
        if a.vararg or a.kwarg or a.kwonlyargs or a.posonlyargs or fn.decorator_list:
            raise Fail(f"{name}: unsupported signature")
        params = [x.arg for x in a.args]
        if params[:1] != ["self"] or len(params) - 1 != len(ptys):
            raise Fail(f"{name}: takes {params}, the model's operation has {len(ptys)} arguments")
        self.done = set(ORDER[:ORDER.index(name)])
        pure = name in PURE_METHODS
        env = {"$c": "c", "$ret": rty}
        if pure:
            env["$pure"] = True
            env["$puremethod"] = True
        for p, t in zip(params[1:], ptys):
            env[p] = V(t, self.var(p))
        body = self.block(fn.body, env, self.fall_off)
        ps = "".join(f" ({self.var(p)} : {GTYPE[t]})" for p, t in zip(params[1:], ptys))
        if pure:
            return f"Definition gen_pw_{name}{ps} : {GTYPE[rty]} :=\n{body}.\n"
        return f"Definition gen_pw_{name} (c : pwstate){ps} : pwstate * res ({GTYPE[rty]}) :=\n{body}.\n"

    def model_fn(self, model, name):
        for n in self.tree.body:
            if isinstance(n, ast.ClassDef) and n.name == model:
                for m in n.body:
                    if isinstance(m, ast.FunctionDef) and m.name == name:
                        return m
        raise Fail(f"{model}.{name} not found")

    def single_return(self, fn, params):
        if [a.arg for a in fn.args.args] != params:
            raise Fail(f"{fn.name}: signature changed")
        body = [s for s in fn.body if not py2v.is_skippable(s)]
        if len(body) != 1 or not isinstance(body[0], ast.Return) or body[0].value is None:
            raise Fail(f"{fn.name}: body is not a single return")
        return body[0].value

    def pure_val(self, e, env, ty, what):
        return self.ev(e, env, lambda v, _: self.need(v, ty, what))

    def from_event(self):
        fn = self.model_fn("EventModel", "from_event")
        if [ast.unparse(d) for d in fn.decorator_list] != ["classmethod"]:
            raise Fail("from_event is not a classmethod")
        r = self.single_return(fn, ["cls", "bucket_key", "event"])
        if not (isinstance(r, ast.Call) and isinstance(r.func, ast.Name) and r.func.id == "cls" and not r.args):
            raise Fail("from_event does not return cls(...)")
        kws = {kw.arg: kw.value for kw in r.keywords}
        if sorted(kws, key=str) != sorted(EV_COL) or len(kws) != len(r.keywords):
            raise Fail("from_event: unexpected keyword set")
        env = {"$c": "c", "$pure": True, "bucket_key": V("Z", "v_bucket_key"), "event": V("event", "v_event")}
        want = {"id": "optZ", "bucket": "Z", "timestamp": "Z", "duration": "Z", "datastr": "Z"}
        vals = {f: self.pure_val(kws[f], env, want[f], f"from_event {f}=") for f in want}
        return ("Definition gen_pw_from_event (v_bucket_key : Z) (v_event : event) : nrow :=\n"
                f"mkNrow {vals['id']} {vals['bucket']} {vals['timestamp']} {vals['duration']} {vals['datastr']}.\n")

    def dict_of(self, e, keys):
        if not isinstance(e, ast.Dict):
            raise Fail("json() does not return a dict literal")
        ks = [kk.value if isinstance(kk, ast.Constant) and isinstance(kk.value, str) else None for kk in e.keys]
        if sorted(x or "" for x in ks) != sorted(keys):
            raise Fail("json(): unexpected keys")
        return dict(zip(ks, e.values))

    def event_json(self):
        r = self.single_return(self.model_fn("EventModel", "json"), ["self"])
        d = self.dict_of(r, ["id", "timestamp", "duration", "data"])
        env = {"$c": "c", "$pure": True, "self": V("perow", "v_self")}
        vals = {f: self.pure_val(d[f], env, "Z", f"EventModel.json {f}") for f in d}
        return ("Definition gen_pw_event_json (v_self : perow) : event :=\n"
                f"mkEvent (Some {vals['id']}) {vals['timestamp']} {vals['duration']} {vals['data']}.\n")

    def bucket_json(self):
        r = self.single_return(self.model_fn("BucketModel", "json"), ["self"])
        d = self.dict_of(r, ["id", "created", "name", "type", "client", "hostname", "data"])
        env = {"$c": "c", "$pure": True, "self": V("pbrow", "v_self")}
        # identity codec on the labels: created is re-rendered as ISO text in UTC, data is json.loads of datastr
        # ('' / NULL -> {} = label 0)
        cr = d["created"]
        if ast.unparse(cr) != "iso8601.parse_date(self.created).astimezone(timezone.utc).isoformat()":
            raise Fail("BucketModel.json: `created` expression changed")
        d["created"] = ast.parse("self.created", mode="eval").body
        da = d["data"]
        if ast.unparse(da) != "json.loads(self.datastr) if self.datastr else {}":
            raise Fail("BucketModel.json: `data` expression changed")
        d["data"] = ast.parse("self.datastr", mode="eval").body
        want = {"id": "Z", "created": "Z", "name": "optZ", "type": "Z", "client": "Z", "hostname": "Z", "data": "Z"}
        vals = {f: self.pure_val(d[f], env, want[f], f"BucketModel.json {f}") for f in d}
        return ("Definition gen_pw_bucket_json (v_self : pbrow) : Z * meta :=\n"
                f"({vals['id']}, mkMeta {vals['type']} {vals['client']} {vals['hostname']} {vals['created']} "
                f"{vals['name']} {vals['data']}).\n")

    def gen_from_event(self):
        self.from_event()

    def gen_event_json(self):
        self.event_json()

    def gen_bucket_json(self):
        self.bucket_json()

    def check_dt_plus_duration(self):
        for n in self.tree.body:
            if isinstance(n, ast.FunctionDef) and n.name == "dt_plus_duration":
                body = [s for s in n.body if not py2v.is_skippable(s)]
                if [a.arg for a in n.args.args] == ["dt", "duration"] and len(body) == 1 \
                        and ast.unparse(body[0]) == DT_PLUS_DURATION:
                    return
                raise Fail("dt_plus_duration changed: " + ast.unparse(body[0])[:120] if body else "empty")
        raise Fail("dt_plus_duration not found")


SCHEMA = {
    "BucketModel": ["key = IntegerField(primary_key=True)", "id = CharField(unique=True)",
                    "created = DateTimeField(default=datetime.now)", "name = CharField(null=True)",
                    "type = CharField()", "client = CharField()", "hostname = CharField()",
                    "datastr = CharField(null=True)"],
    "EventModel": ["id = AutoField()", "bucket = ForeignKeyField(BucketModel, backref='events', index=True)",
                   "timestamp = DateTimeField(index=True, default=datetime.now)", "duration = DecimalField()",
                   "datastr = CharField()"],
}


def _load(repo):
    tree = ast.parse(open(os.path.join(repo, PEEWEE)).read())
    for n in tree.body:
        if isinstance(n, ast.ClassDef) and n.name == "PeeweeStorage":
            t = Tr(tree, n)
            t.repo = repo
            t.done = set()
            return t
    raise Fail("class PeeweeStorage not found")


def _guard(f):
    def g(repo):
        try:
            return f(repo)
        except Fail:
            raise
        except RecursionError as ex:
            raise Fail(f"RecursionError: {ex}")
        except Exception as ex:  # noqa: BLE001 -- fail closed, never crash the shared translator run
            raise Fail(f"{type(ex).__name__}: {ex}")
    return g


@_guard
def tr_header(repo):
    return HEADER + ("\nDefinition gen_pw_out {A} (f : A -> out) (m : pwstate * res A) : pwstate * res out :=\n"
                     "  pbind m (fun c a => (c, Ok (f a))).\n")


@_guard
def tr_schema(repo):
    t = _load(repo)
    for cls, want in SCHEMA.items():
        found = None
        for n in t.tree.body:
            if isinstance(n, ast.ClassDef) and n.name == cls:
                found = [ast.unparse(s) for s in n.body if isinstance(s, (ast.Assign, ast.AnnAssign))]
        if found != want:
            raise Fail(f"field declarations of {cls} changed: {found}")
    return "Definition gen_pw_schema_ok : bool := true.\n"


def _mk(name):
    @_guard
    def tr(repo):
        return _load(repo).method(name)
    return tr


@_guard
def tr_from_event(repo):
    return _load(repo).from_event()


@_guard
def tr_event_json(repo):
    return _load(repo).event_json()


@_guard
def tr_bucket_json(repo):
    return _load(repo).bucket_json()


@_guard
def tr_step(repo):
    t = _load(repo)
    extra = [m for m in t.methods if m not in METHODS and m not in NOT_TRANSLATED]
    if extra:
        raise Fail("PeeweeStorage has methods the model does not know: " + ", ".join(extra))
    init = t.methods.get("__init__")
    if init is None or "self.update_bucket_keys()" not in [ast.unparse(s) for s in init.body] \
            or "self.bucket_keys: Dict[str, int] = {}" not in [ast.unparse(s) for s in init.body]:
        raise Fail("__init__ no longer initialises / refreshes self.bucket_keys")
    out, arms = [], []
    for ctor, m, binders, args, wrap in OPS:
        ptys = "".join(f" ({b} : {ty})" for b, ty in zip(binders.split(), _op_types(ctor)))
        out.append(f"Definition gen_pw_op_{m} (c : pwstate){ptys} : pwstate * res out :=\n"
                   f"  gen_pw_out ({wrap}) (gen_pw_{m} c {args}".rstrip() + ").\n")
        arms.append(f"  | {ctor} {binders}".rstrip() + f" => gen_pw_op_{m} c {binders}".rstrip())
    out.append("Definition gen_pw_step (c : pwstate) (o : op) : pwstate * res out :=\n  match o with\n"
               + "\n".join(arms) + "\n  end.\n")
    return "\n".join(out)


def _op_types(ctor):
    return {"CreateBucket": ["Z", "meta"], "UpdateBucket": ["Z"] + ["option Z"] * 5, "DeleteBucket": ["Z"],
            "Buckets": [], "GetMetadata": ["Z"], "InsertOne": ["Z", "event"], "InsertMany": ["Z", "list event"],
            "Replace": ["Z", "Z", "event"], "ReplaceLast": ["Z", "event"], "Delete": ["Z", "Z"],
            "GetEvent": ["Z", "Z"], "GetEvents": ["Z", "Z", "option Z", "option Z"],
            "GetEventCount": ["Z", "option Z", "option Z"]}[ctor]


KERNELS = {
    "GenPeeweeStore": [("PeeweeStorage.header", tr_header), ("PeeweeStorage.schema", tr_schema),
                       ("EventModel.from_event", tr_from_event), ("EventModel.json", tr_event_json),
                       ("BucketModel.json", tr_bucket_json)]
                      + [("PeeweeStorage." + m, _mk(m)) for m in ORDER]
                      + [("PeeweeStorage.step", tr_step)],
}
