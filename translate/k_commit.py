"""Tie B for the commit bookkeeping (C06, C18): kernels read off
aw_datastore/storages/sqlite.py and peewee.py with `ast`, emitted into coq/Gen/GenCommit.v
and proved equal to Model/Commit.v in coq/Bridge/BridgeCommit.v.

  commit               -> gen_commit  : the three effects of SqliteStorage.commit
  conditional_commit   -> gen_cond_commit : both `if`s, the `> 50` threshold, the 10 s age,
                          the operand order of the age subtraction, the non-lazy branch
  sqlite_scripts       -> gen_script_<method> for every method of SqliteStorage: which
                          execute / executemany calls (classified write / read by the SQL
                          keyword), followed by commit() / conditional_commit(k) / nothing,
                          self.commit() before reads; gen_expand : op -> list micro
  peewee_autocommit    -> gen_pw_chunk (bulk insert chunk size), plus syntactic checks that
                          PeeweeStorage never opens an explicit transaction

Fail-closed: anything outside the recognised shapes raises Fail, the definition is omitted
and the bridge lemma stops compiling.

Clock readings: every `datetime.now()` evaluated along a path through conditional_commit
(after inlining self.commit()) takes the next of three positional slots r1, r2, r3; the two
branches of an `if` start from the same slot and the statement after it continues from the
larger of the two (so a slot belongs to a syntactic position, as in Model/Commit.v)."""
import ast
import os

from py2v import Fail

SQLITE = "aw_datastore/storages/sqlite.py"
PEEWEE = "aw_datastore/storages/peewee.py"
SLOTS = ["(r1 c)", "(r2 c)", "(r3 c)"]
CMP = {ast.Gt: ">?", ast.GtE: ">=?", ast.Lt: "<?", ast.LtE: "<=?"}


def _cls(repo, path, name):
    tree = ast.parse(open(os.path.join(repo, path)).read())
    for n in tree.body:
        if isinstance(n, ast.ClassDef) and n.name == name:
            return tree, n
    raise Fail(f"class {name} not found")


def _method(cls, name):
    for n in cls.body:
        if isinstance(n, ast.FunctionDef) and n.name == name:
            return n
    raise Fail(f"method {name} not found")


def _is_self_attr(e, attr=None):
    return (isinstance(e, ast.Attribute) and isinstance(e.value, ast.Name) and e.value.id == "self"
            and (attr is None or e.attr == attr))


def _is_docstring(s):
    return isinstance(s, ast.Expr) and isinstance(s.value, ast.Constant) and isinstance(s.value.value, str)


def _is_now(e):
    return (isinstance(e, ast.Call) and not e.args and not e.keywords and isinstance(e.func, ast.Attribute)
            and e.func.attr == "now" and isinstance(e.func.value, ast.Name) and e.func.value.id == "datetime")


def tr_header(repo):
    return "From AwVerif Require Import Model.Commit.\n"


# ---------------------------------------------------------------------------
# commit / conditional_commit: a tiny state-passing translation


class StateTr:
    """Statements over self.num_uncommitted_statements / self.last_commit / self.conn.commit()
    -> Gallina `let s := ... in` chains over cstate."""

    def __init__(self, params, inline_commit):
        self.params = params
        self.inline_commit = inline_commit

    def expr(self, e, slot):
        """-> (text, next slot)"""
        if isinstance(e, ast.Constant) and type(e.value) is int:
            return str(e.value), slot
        if isinstance(e, ast.Name) and e.id in self.params:
            return e.id, slot
        if _is_self_attr(e, "num_uncommitted_statements"):
            return "(n_unc s)", slot
        if _is_self_attr(e, "last_commit"):
            return "(last_commit s)", slot
        if _is_now(e):
            if slot >= len(SLOTS):
                raise Fail("more than three clock readings on one path")
            return SLOTS[slot], slot + 1
        if isinstance(e, ast.Call) and isinstance(e.func, ast.Name) and e.func.id == "timedelta":
            if e.args or len(e.keywords) != 1 or e.keywords[0].arg != "seconds":
                raise Fail("unsupported timedelta(...) form")
            v = e.keywords[0].value
            if not (isinstance(v, ast.Constant) and type(v.value) is int):
                raise Fail("timedelta(seconds=<non-integer literal>)")
            return str(v.value * 1000000), slot
        if isinstance(e, ast.BinOp) and isinstance(e.op, (ast.Add, ast.Sub)):
            l, slot = self.expr(e.left, slot)
            r, slot = self.expr(e.right, slot)
            return f"({l} {'+' if isinstance(e.op, ast.Add) else '-'} {r})", slot
        raise Fail("unsupported expression " + ast.dump(e)[:80])

    def cond(self, e, slot):
        if _is_self_attr(e, "enable_lazy_commit"):
            return "lazy", slot
        if isinstance(e, ast.Compare) and len(e.ops) == 1 and type(e.ops[0]) in CMP:
            l, slot = self.expr(e.left, slot)
            r, slot = self.expr(e.comparators[0], slot)
            return f"({l} {CMP[type(e.ops[0])]} {r})", slot
        raise Fail("unsupported condition " + ast.dump(e)[:80])

    def block(self, body, slot):
        """-> (Gallina expression of type cstate with `s` free, next slot)"""
        out = ""
        for st in body:
            if _is_docstring(st):
                continue
            if isinstance(st, ast.AugAssign) and isinstance(st.op, ast.Add) \
                    and _is_self_attr(st.target, "num_uncommitted_statements"):
                v, slot = self.expr(st.value, slot)
                out += f"let s := set_n s ((n_unc s) + {v}) in\n    "
            elif isinstance(st, ast.Assign) and len(st.targets) == 1 \
                    and _is_self_attr(st.targets[0], "num_uncommitted_statements"):
                v, slot = self.expr(st.value, slot)
                out += f"let s := set_n s {v} in\n    "
            elif isinstance(st, ast.Assign) and len(st.targets) == 1 and _is_self_attr(st.targets[0], "last_commit"):
                v, slot = self.expr(st.value, slot)
                out += f"let s := set_last s {v} in\n    "
            elif isinstance(st, ast.Expr) and isinstance(st.value, ast.Call) and not st.value.args \
                    and not st.value.keywords and isinstance(st.value.func, ast.Attribute) \
                    and st.value.func.attr == "commit":
                tgt = st.value.func.value
                if _is_self_attr(tgt, "conn"):
                    if self.inline_commit:
                        raise Fail("self.conn.commit() outside commit()")
                    out += "let s := flush s in\n    "
                elif isinstance(tgt, ast.Name) and tgt.id == "self" and self.inline_commit:
                    if slot >= len(SLOTS):
                        raise Fail("more than three clock readings on one path")
                    out += f"let s := gen_commit {SLOTS[slot]} s in\n    "
                    slot += 1
                else:
                    raise Fail("unsupported commit call")
            elif isinstance(st, ast.If):
                c, slot = self.cond(st.test, slot)
                a, sa = self.block(st.body, slot)
                b, sb = self.block(st.orelse, slot)
                out += f"let s := if {c}\n      then ({a})\n      else ({b}) in\n    "
                slot = max(sa, sb)
            else:
                raise Fail("unsupported statement " + ast.dump(st)[:80])
        return out + "s", slot


def tr_commit(repo):
    _, cls = _cls(repo, SQLITE, "SqliteStorage")
    fn = _method(cls, "commit")
    if [a.arg for a in fn.args.args] != ["self"]:
        raise Fail("commit: signature changed")
    # the clock reading of commit() is its parameter `now`
    body, slot = StateTr([], False).block(fn.body, 0)
    if slot != 1:
        raise Fail(f"commit reads the clock {slot} times (expected once)")
    body = body.replace(SLOTS[0], "now")
    return f"Definition gen_commit (now : Z) (s : cstate) : cstate :=\n    {body}.\n"


def tr_cond_commit(repo):
    _, cls = _cls(repo, SQLITE, "SqliteStorage")
    tr_commit(repo)  # conditional_commit inlines it
    fn = _method(cls, "conditional_commit")
    if [a.arg for a in fn.args.args] != ["self", "num_statements"] or fn.args.defaults:
        raise Fail("conditional_commit: signature changed")
    body, _ = StateTr(["num_statements"], True).block(fn.body, 0)
    return ("Definition gen_cond_commit (lazy : bool) (num_statements : Z) (c : clk) (s : cstate) : cstate :=\n    "
            + body + ".\n")


# ---------------------------------------------------------------------------
# per-method scripts

WRITE_KW = ("INSERT", "UPDATE", "DELETE", "REPLACE")
READ_KW = ("SELECT",)

# op constructor -> (method, types of the constructor's arguments = parameters of the script, in order)
OPS = [
    ("CreateBucket", "create_bucket", ["Z"]),
    ("UpdateBucket", "update_bucket", ["Z"]),
    ("DeleteBucket", "delete_bucket", ["Z", "Z"]),
    ("InsertOne", "insert_one", ["Z"]),
    ("InsertMany", "insert_many", ["list Z", "list Z"]),
    ("ReplaceLast", "replace_last", ["Z"]),
    ("Replace", "replace", ["Z"]),
    ("Delete", "delete", ["Z"]),
    ("GetEvent", "get_event", []),
    ("GetEvents", "get_events", ["bool"]),
    ("GetEventCount", "get_eventcount", []),
    ("Buckets", "buckets", []),
    ("GetMetadata", "get_metadata", []),
]
NOT_SCRIPTS = {"__init__", "commit", "conditional_commit"}
# private helpers: no constructor of the model's `op` (nobody outside the class calls them), but a
# script of their own (Model/Commit.v: script__replace) that the methods calling them inline
HELPERS = ["_replace"]
INLINABLE = {"replace", "get_metadata", "_replace"}


class _BulkRaised(Exception):
    """failing mode: the bulk statement raised; only enclosing `finally` blocks still run"""


class Script:
    """Walks one method body in order and collects its micro-steps.  With bulk_fails=True the
    walk follows the path on which the executemany raises part-way: the rows that went
    through are `rows`, `rest` more were given; after it only `finally` clauses run."""

    def __init__(self, cls, name, bulk_fails=False, upsert_fails=False):
        self.bulk_fails = bulk_fails
        # the path on which a statement of the upsert loop raises: `ups` are the upserts that ran,
        # `rest_ups` more were in the list, `nrows` rows were waiting for the bulk statement
        self.upsert_fails = upsert_fails
        self.cls = cls
        self.name = name
        self.fn = _method(cls, name)
        self.cursors = set()
        self.strings = {}        # local name -> leading string constant
        self.items = []          # Gallina list expressions, concatenated in order
        self.params = []         # (name, type) of the generated definition, in order
        self.nexec = 0
        self.uncounted = 0       # write statements not yet followed by commit / conditional_commit
        self.many_rows = None    # python name of the executemany argument
        self.upsert_src = None   # python name of the list the upsert loop runs over
        self.upsert_loop_seen = False
        self.bulk_arg = None     # python name of the (one) executemany argument, found by a pre-scan
        for n in ast.walk(self.fn):
            if isinstance(n, ast.Call) and isinstance(n.func, ast.Attribute) and n.func.attr == "executemany" \
                    and len(n.args) == 2 and isinstance(n.args[1], ast.Name):
                self.bulk_arg = n.args[1].id
        self.before_bulk = None  # items before the executemany (for InsertManyFailed)
        self.guard = None        # (param, items) for get_events' early return

    # -- SQL text
    def lead_string(self, e):
        if isinstance(e, ast.Constant) and isinstance(e.value, str):
            return e.value
        if isinstance(e, ast.Name) and e.id in self.strings:
            return self.strings[e.id]
        if isinstance(e, ast.BinOp) and isinstance(e.op, ast.Add):
            return self.lead_string(e.left)
        if isinstance(e, ast.JoinedStr) and e.values and isinstance(e.values[0], ast.Constant):
            return e.values[0].value
        raise Fail(f"{self.name}: SQL text is not a literal")

    def sql_kind(self, e):
        words = self.lead_string(e).split()
        kw = words[0].upper() if words else ""
        if kw in WRITE_KW:
            return "write"
        if kw in READ_KW:
            return "read"
        raise Fail(f"{self.name}: unknown SQL statement {kw!r}")

    # -- calls
    def micro_calls(self, node):
        """The calls inside `node` that are micro-steps (or inlined methods), in source order."""
        found = []
        for n in ast.walk(node):
            if not isinstance(n, ast.Call) or not isinstance(n.func, ast.Attribute):
                continue
            f = n.func
            if _is_self_attr(f.value, "conn"):
                if f.attr == "cursor":
                    continue
                if f.attr in ("execute", "executemany"):
                    found.append((f.attr, n))
                else:
                    raise Fail(f"{self.name}: self.conn.{f.attr}() is not allowed in a storage method")
            elif isinstance(f.value, ast.Name) and f.value.id in self.cursors:
                if f.attr == "execute":
                    found.append(("execute", n))
                elif f.attr in ("fetchone", "fetchall"):
                    continue
                else:
                    raise Fail(f"{self.name}: cursor.{f.attr}() not supported")
            elif isinstance(f.value, ast.Name) and f.value.id == "self":
                if f.attr == "commit":
                    found.append(("commit", n))
                elif f.attr == "conditional_commit":
                    found.append(("cc", n))
                elif f.attr in INLINABLE:
                    found.append(("inline:" + f.attr, n))
                else:
                    raise Fail(f"{self.name}: call of self.{f.attr}() not supported")
        # any other use of self.conn (passing it around, rollback, ...) is refused
        for n in ast.walk(node):
            if _is_self_attr(n, "conn"):
                ok = False
                for m in ast.walk(node):
                    if isinstance(m, ast.Call) and isinstance(m.func, ast.Attribute) and m.func.value is n:
                        ok = True
                if not ok:
                    raise Fail(f"{self.name}: self.conn escapes")
        found.sort(key=lambda x: (x[1].lineno, x[1].col_offset))
        return found

    def has_micro(self, nodes):
        return any(self.micro_calls(n) for n in nodes)

    def emit_call(self, kind, call, loop_var=None):
        if kind == "execute":
            k = self.sql_kind(call.args[0])
            if k == "read":
                self.items.append("[Read]")
            else:
                if loop_var:
                    tok = loop_var
                else:
                    self.nexec += 1
                    tok = f"w{self.nexec}"
                    self.params.append((tok, "Z"))
                self.items.append(f"[Exec {tok}]")
                self.uncounted += 1
        elif kind == "executemany":
            if self.sql_kind(call.args[0]) != "write" or len(call.args) != 2 or not isinstance(call.args[1], ast.Name):
                raise Fail(f"{self.name}: unsupported executemany")
            if self.many_rows is not None:
                raise Fail(f"{self.name}: two executemany calls")
            self.many_rows = call.args[1].id
            self.before_bulk = list(self.items)
            self.params.append(("rows", "list Z"))
            self.items.append("[ExecMany rows]")
            self.uncounted = "rows" if self.uncounted == 0 else "mixed"
            if self.bulk_fails:
                self.params.append(("rest", "nat"))
                raise _BulkRaised()
        elif kind == "commit":
            if call.args or call.keywords:
                raise Fail(f"{self.name}: commit() with arguments")
            self.items.append("[Commit]")
            self.uncounted = 0
        elif kind == "cc":
            if len(call.args) != 1 or call.keywords:
                raise Fail(f"{self.name}: conditional_commit arity")
            a = call.args[0]
            if isinstance(a, ast.Constant) and type(a.value) is int:
                k = f"{a.value}"
                # the count must be the number of statements it follows (the model's
                # qscript blocks); anything else is emitted as it is and the bridge decides
            else:
                # len(<list>) or a sum of such: the list handed to executemany (on the failing path
                # `rows` are the rows that went through, len() is of all rows) and the list the
                # upsert loop ran over (the loop must have been seen: `ups` is its parameter)
                terms = []
                for t in self.sum_terms(a):
                    if not (isinstance(t, ast.Call) and isinstance(t.func, ast.Name) and t.func.id == "len"
                            and len(t.args) == 1 and not t.keywords and isinstance(t.args[0], ast.Name)):
                        raise Fail(f"{self.name}: unsupported conditional_commit argument")
                    nm = t.args[0].id
                    if self.upsert_fails and self.many_rows is None and nm == self.bulk_arg:
                        # the bulk statement was not reached; its rows had been built
                        terms.append("nrows")
                        if ("nrows", "nat") not in self.params:
                            self.params.append(("nrows", "nat"))
                    elif nm == self.many_rows:
                        terms.append("(length rows + rest)" if self.bulk_fails else "length rows")
                    elif nm == self.upsert_src and self.upsert_loop_seen:
                        terms.append("(length ups + rest_ups)" if self.upsert_fails else "length ups")
                    else:
                        raise Fail(f"{self.name}: conditional_commit counts len({nm}), which is neither the rows "
                                   "of the bulk statement nor the list of an upsert loop already run")
                if len(terms) != len(set(terms)):
                    raise Fail(f"{self.name}: conditional_commit counts a list twice")
                k = "(Z.of_nat (" + " + ".join(terms) + "))"
            self.items.append(f"[CondCommit {k}]")
            self.uncounted = 0
        elif kind.startswith("inline:"):
            m = kind.split(":")[1]
            sub = Script(self.cls, m)
            sub.run()
            args = []
            for pname, _ in sub.params:
                if loop_var:
                    args.append(loop_var)
                else:
                    self.nexec += 1
                    tok = f"w{self.nexec}"
                    self.params.append((tok, "Z"))
                    args.append(tok)
            if loop_var and len(sub.params) != 1:
                raise Fail(f"{self.name}: inlined {m} inside a loop must issue exactly one statement")
            self.items.append(("gen_script_" + m + " " + " ".join(args)).strip())
            if sub.uncounted != 0:     # the helper leaves its statement to the caller's commit / conditional_commit
                self.uncounted = sub.uncounted if self.uncounted == 0 else "mixed"
        else:
            raise Fail("internal: " + kind)

    @staticmethod
    def sum_terms(e):
        if isinstance(e, ast.BinOp) and isinstance(e.op, ast.Add):
            return Script.sum_terms(e.left) + Script.sum_terms(e.right)
        return [e]

    # -- statements
    def note_locals(self, st):
        if isinstance(st, ast.Assign) and len(st.targets) == 1 and isinstance(st.targets[0], ast.Name):
            name, v = st.targets[0].id, st.value
            if isinstance(v, ast.Call) and isinstance(v.func, ast.Attribute) and v.func.attr == "cursor" \
                    and _is_self_attr(v.func.value, "conn"):
                self.cursors.add(name)
            try:
                self.strings[name] = self.lead_string(v)
            except Fail:
                pass
            # events_upsert = [e for e in events if e.id is not None]
            if isinstance(v, ast.ListComp) and len(v.generators) == 1 and len(v.generators[0].ifs) == 1:
                t = v.generators[0].ifs[0]
                if isinstance(t, ast.Compare) and isinstance(t.left, ast.Attribute) and t.left.attr == "id" \
                        and isinstance(t.ops[0], ast.IsNot) and isinstance(t.comparators[0], ast.Constant) \
                        and t.comparators[0].value is None:
                    self.upsert_src = name

    def run_body(self, body, top=True):
        for i, st in enumerate(body):
            if _is_docstring(st):
                continue
            self.note_locals(st)
            if isinstance(st, (ast.Assign, ast.AugAssign, ast.AnnAssign, ast.Expr, ast.Return)):
                calls = self.micro_calls(st)
                if len(calls) > 1:
                    raise Fail(f"{self.name}: several micro-steps in one statement (line {st.lineno})")
                for kind, call in calls:
                    self.emit_call(kind, call)
                if isinstance(st, ast.Return) and not (top and i == len(body) - 1):
                    raise Fail(f"{self.name}: return before the end of the method")
            elif isinstance(st, ast.Raise):
                if self.micro_calls(st):
                    raise Fail(f"{self.name}: micro-step inside raise")
            elif isinstance(st, ast.For):
                it = self.micro_calls(st.iter)
                if it:
                    # for row in c.execute("SELECT ..."): <pure body>
                    if len(it) != 1 or it[0][0] != "execute" or self.sql_kind(it[0][1].args[0]) != "read" \
                            or self.has_micro(st.body) or st.orelse:
                        raise Fail(f"{self.name}: unsupported loop over a statement")
                    self.emit_call("execute", it[0][1])
                elif self.has_micro(st.body):
                    # for e in events_upsert: self.replace(bucket_id, e.id, e)
                    if not (isinstance(st.iter, ast.Name) and st.iter.id == self.upsert_src and len(st.body) == 1
                            and isinstance(st.body[0], ast.Expr) and not st.orelse):
                        raise Fail(f"{self.name}: unsupported loop with statements in its body")
                    calls = self.micro_calls(st.body[0])
                    if len(calls) != 1 or not calls[0][0].startswith("inline:"):
                        raise Fail(f"{self.name}: unsupported upsert loop body")
                    if self.uncounted != 0:
                        raise Fail(f"{self.name}: loop entered with uncounted statements")
                    if self.upsert_loop_seen:
                        raise Fail(f"{self.name}: two upsert loops")
                    save = self.items
                    self.items = []
                    self.emit_call(calls[0][0], calls[0][1], loop_var="u")
                    inner = " ++ ".join(self.items)
                    self.items = save
                    self.params.append(("ups", "list Z"))
                    self.items.append(f"flat_map (fun u => {inner}) ups")
                    self.upsert_loop_seen = True
                    if self.upsert_fails:
                        self.params.append(("rest_ups", "nat"))
                        raise _BulkRaised()
                # else: pure loop (building event_rows)
            elif isinstance(st, ast.Try):
                # try: <statements> finally: <statements>  (no except/else: nothing is swallowed)
                if st.handlers or st.orelse or not st.finalbody:
                    raise Fail(f"{self.name}: only try/finally is supported (line {st.lineno})")
                try:
                    self.run_body(st.body, top=False)
                except _BulkRaised:
                    self.run_body(st.finalbody, top=False)
                    raise
                self.run_body(st.finalbody, top=False)
            elif isinstance(st, ast.If):
                if self.has_micro([st.test] + st.body + st.orelse):
                    raise Fail(f"{self.name}: statements under a condition (line {st.lineno})")
                returns = [n for n in ast.walk(st) if isinstance(n, ast.Return)]
                if top and i == len(body) - 1:
                    pass  # a pure if/else that ends the method (return value / raise only)
                elif returns:
                    # get_events: `if limit == 0: return []` before the first micro-step
                    t = st.test
                    if not (top and not self.items and len(st.body) == 1 and isinstance(st.body[0], ast.Return)
                            and len(returns) == 1 and isinstance(t, ast.Compare) and isinstance(t.left, ast.Name)
                            and t.left.id == "limit" and isinstance(t.ops[0], ast.Eq)
                            and isinstance(t.comparators[0], ast.Constant) and t.comparators[0].value == 0):
                        raise Fail(f"{self.name}: unsupported early return")
                    if self.guard is not None:
                        raise Fail(f"{self.name}: two early returns")
                    self.guard = "limit0"
                    self.params.append(("limit0", "bool"))
                elif any(isinstance(n, ast.Raise) for n in ast.walk(st)) and self.uncounted != 0:
                    raise Fail(f"{self.name}: may raise between a statement and its commit")
            else:
                raise Fail(f"{self.name}: unsupported statement {type(st).__name__}")

    def run(self):
        try:
            self.run_body(self.fn.body)
            if self.bulk_fails:
                raise Fail(f"{self.name}: no bulk statement found")
            if self.upsert_fails:
                raise Fail(f"{self.name}: no upsert loop found")
        except _BulkRaised:
            pass
        return self

    def text(self, items=None):
        items = self.items if items is None else items
        body = " ++ ".join(items + ["[]"])
        if self.guard:
            body = f"if {self.guard} then [] else ({body})"
        return body

    def definition(self):
        ps = "".join(f" ({n} : {t})" for n, t in self.params)
        return f"Definition gen_script_{self.name}{ps} : list micro :=\n  {self.text()}.\n"


def tr_scripts(repo):
    _, cls = _cls(repo, SQLITE, "SqliteStorage")
    methods = [n.name for n in cls.body if isinstance(n, ast.FunctionDef)]
    known = {m for _, m, _ in OPS} | NOT_SCRIPTS | set(HELPERS)
    extra = [m for m in methods if m not in known]
    if extra:
        raise Fail("SqliteStorage has methods without a script in the model: " + ", ".join(extra))
    # __init__ leaves the bookkeeping at (last_commit = now, n = 0) after a commit
    init = _method(cls, "__init__")
    tail = [ast.unparse(s) for s in init.body[-2:]]
    if sorted(tail) != sorted(["self.last_commit = datetime.now()", "self.num_uncommitted_statements = 0"]):
        raise Fail("__init__ no longer ends by resetting last_commit / num_uncommitted_statements")
    if not any(ast.unparse(s) == "self.commit()" for s in init.body):
        raise Fail("__init__ no longer commits the schema")

    # anything in __init__ that hands the store to other code (check_for_migration(self) runs
    # insert_many on it) must be followed at once by self.commit(): the constructor resets
    # the counter, so writes left pending there would be at risk and uncounted
    def blocks(body):
        yield body
        for st in body:
            for sub in (getattr(st, "body", None), getattr(st, "orelse", None)):
                if isinstance(sub, list) and sub and isinstance(sub[0], ast.stmt):
                    yield from blocks(sub)
    for body in blocks(init.body):
        for i, st in enumerate(body):
            escapes = [c for c in ast.walk(st) if isinstance(c, ast.Call)
                       and any(isinstance(a, ast.Name) and a.id == "self" for a in c.args)] \
                if not isinstance(st, (ast.If, ast.For, ast.While, ast.With, ast.Try)) else []
            if escapes and not (i + 1 < len(body) and ast.unparse(body[i + 1]) == "self.commit()"):
                raise Fail(f"__init__: {ast.unparse(escapes[0])} is not followed by self.commit()")
    out = []
    scripts = {}
    order = ["get_metadata"] + HELPERS + ["replace"] + [m for _, m, _ in OPS if m not in ("get_metadata", "replace")]
    for m in order:
        s = Script(cls, m).run()
        scripts[m] = s
        out.append(s.definition())
    # a helper that leaves its statement uncounted may only be called from inside the class
    # (insert_many's loop, replace): nothing else in the package may reach it
    for h in HELPERS:
        for root, _, files in os.walk(os.path.join(repo, "aw_datastore")):
            for f in files:
                if not f.endswith(".py"):
                    continue
                path = os.path.join(root, f)
                t = ast.parse(open(path).read())
                for n in ast.walk(t):
                    if isinstance(n, ast.Attribute) and n.attr == h \
                            and not (isinstance(n.value, ast.Name) and n.value.id == "self"
                                     and os.path.samefile(path, os.path.join(repo, SQLITE))):
                        raise Fail(f"{h} is used outside SqliteStorage ({os.path.relpath(path, repo)} line {n.lineno})")
    im = scripts["insert_many"]
    if im.before_bulk is None:
        raise Fail("insert_many: no bulk statement found")
    # the bulk statement raises part-way: what still runs is read off the source (finally clauses)
    imf = Script(cls, "insert_many", bulk_fails=True).run()
    if imf.params != [("ups", "list Z"), ("rows", "list Z"), ("rest", "nat")]:
        raise Fail(f"insert_many (failing path): unexpected parameters {imf.params}")
    out.append("Definition gen_script_insert_many_failed (ups : list Z) (rows : list Z) (rest : nat) : list micro :=\n  "
               + imf.text() + ".\n")
    # a statement of the upsert loop raises (bind-time OverflowError of an id-carrying event): the
    # upserts before it stay in the open transaction; what still runs is read off the source
    imu = Script(cls, "insert_many", upsert_fails=True).run()
    if imu.params != [("ups", "list Z"), ("rest_ups", "nat"), ("nrows", "nat")]:
        raise Fail(f"insert_many (failing upsert): unexpected parameters {imu.params} "
                   "(no conditional_commit that counts the upserts and the rows runs on that path)")
    out.append("Definition gen_script_insert_many_upsert_failed (ups : list Z) (rest_ups : nat) (nrows : nat) : list micro :=\n  "
               + imu.text() + ".\n")
    arms = []
    for ctor, m, types in OPS:
        ps = scripts[m].params
        if [t for _, t in ps] != types:
            raise Fail(f"{m}: issues {ps}, the model's constructor {ctor} takes {types}")
        names = " ".join(n for n, _ in ps)
        arms.append(f"  | {ctor} {names}".rstrip() + f" => gen_script_{m} {names}".rstrip())
    arms.append("  | Rejected => []")
    arms.append("  | InsertManyFailed ups done rest => gen_script_insert_many_failed ups done rest")
    out.append("Definition gen_expand (o : op) : list micro :=\n  match o with\n" + "\n".join(arms) + "\n  end.\n")
    out.append("Definition gen_init_n : Z := 0.\n")
    return "\n".join(out)


# ---------------------------------------------------------------------------
# peewee

CHUNKS_BODY = "for i in range(0, len(ls), n):\n    yield ls[i:i + n]"


def tr_peewee(repo):
    tree, cls = _cls(repo, PEEWEE, "PeeweeStorage")
    ch = None
    for n in tree.body:
        if isinstance(n, ast.FunctionDef) and n.name == "chunks":
            ch = n
    if ch is None or [a.arg for a in ch.args.args] != ["ls", "n"]:
        raise Fail("peewee.chunks not found / signature changed")
    body = [s for s in ch.body if not _is_docstring(s)]
    if ast.unparse(ast.Module(body=body, type_ignores=[])) != CHUNKS_BODY:
        raise Fail("peewee.chunks no longer slices ls[i:i+n] for i in range(0, len(ls), n)")
    for n in ast.walk(cls):
        if isinstance(n, ast.Attribute) and n.attr in ("atomic", "transaction", "manual_commit", "savepoint",
                                                        "begin", "rollback", "commit", "session_start"):
            raise Fail(f"PeeweeStorage uses explicit transaction control (.{n.attr})")
    for n in tree.body:
        if isinstance(n, ast.Assign) and ast.unparse(n.targets[0]) == "_db":
            if ast.unparse(n.value) != "SqliteExtDatabase(None)":
                raise Fail("_db is no longer SqliteExtDatabase(None) (autocommit default)")
    im = _method(cls, "insert_many")
    loops = [s for s in im.body if isinstance(s, ast.For) and isinstance(s.iter, ast.Call)
             and isinstance(s.iter.func, ast.Name) and s.iter.func.id == "chunks"]
    if len(loops) != 1:
        raise Fail("insert_many: chunked loop not found")
    lp = loops[0]
    size = lp.iter.args[1] if len(lp.iter.args) == 2 else None
    if not (isinstance(size, ast.Constant) and type(size.value) is int and size.value >= 1):
        raise Fail("insert_many: chunk size is not an integer literal")
    if [ast.unparse(s) for s in lp.body] != [f"EventModel.insert_many({lp.target.id}).execute()"]:
        raise Fail("insert_many: the chunk loop no longer issues one bulk statement per chunk")
    return f"Definition gen_pw_chunk : nat := {size.value}%nat.\n"


KERNELS = {
    "GenCommit": [("commit_header", tr_header), ("commit", tr_commit), ("conditional_commit", tr_cond_commit),
                  ("sqlite_scripts", tr_scripts), ("peewee_autocommit", tr_peewee)],
}
