#!/bin/bash
# MANIFEST.setup_cmd: build the whole Coq development (full .vo) and every extracted driver
# from files on disk only.  Offline.  Exit 0 only if everything compiled and the scan for
# Admitted/Axiom/... is clean.
set -u
cd "$(dirname "$0")" || exit 2
export PYTHONHASHSEED=0 PYTHONDONTWRITEBYTECODE=1 AW_CORE_VERIF=1
export VERIF_REPO="${VERIF_REPO:-/repo}"
export PYTHONPATH="$VERIF_REPO:$(pwd)"
mkdir -p build evidence replays coq/Gen
/venv/bin/python -m harness.setup "$@"
