import os, sys, tempfile, logging, hashlib
sys.path.insert(0, "/repo")
logging.disable(logging.CRITICAL)
tmp = tempfile.mkdtemp()
os.environ["XDG_DATA_HOME"] = tmp
os.environ["XDG_CONFIG_HOME"] = tmp
os.environ["XDG_CACHE_HOME"] = tmp
from datetime import datetime, timedelta, timezone
from aw_core.models import Event
from aw_core.dirs import get_data_dir
from aw_datastore import Datastore
from aw_datastore.storages import MemoryStorage, SqliteStorage, PeeweeStorage
T0 = datetime(2020,1,1,tzinfo=timezone.utc)
for testing in [True, False]:
    pw = Datastore(PeeweeStorage, testing=testing)
    A = pw.create_bucket("Aü","t","c","h", created=T0, name="nm", data={"k":1})
    B = pw.create_bucket("B","t","c","h", created=T0)
    A.insert([Event(timestamp=T0+timedelta(seconds=i), duration=1.5, data={"i":i}) for i in range(5)])
    B.insert(Event(timestamp=T0, duration=2, data={"b":1}))
    pw.storage_strategy.db.close()
    d = get_data_dir("aw-server")
    print(os.listdir(d))
    legacy = [f for f in os.listdir(d) if f.startswith("peewee-sqlite"+("-testing" if testing else "")+".")][0]
    h0 = hashlib.sha256(open(os.path.join(d,legacy),"rb").read()).hexdigest()
    sq = Datastore(SqliteStorage, testing=testing)
    print("testing", testing, "buckets:", sq.buckets())
    for b in sq.buckets(): print("  ", b, [(e.id, e.timestamp.isoformat(), e.duration.total_seconds(), e.data) for e in sq[b].get(-1)])
    h1 = hashlib.sha256(open(os.path.join(d,legacy),"rb").read()).hexdigest()
    print(" legacy unchanged:", h0==h1, os.listdir(d))
