import json, os, sys, tempfile
from datetime import datetime, timedelta, timezone
REPO = os.environ.get("VERIF_REPO", "/repo")
sys.path.insert(0, REPO)
tmp = tempfile.mkdtemp(prefix="fix6-probe-")
for k in ("DATA", "CONFIG", "CACHE"):
    os.environ[f"XDG_{k}_HOME"] = os.path.join(tmp, k)
import logging; logging.disable(logging.ERROR)
from aw_core.models import Event
from aw_datastore import Datastore
from aw_datastore.datastore import Bucket
from aw_datastore.storages import MemoryStorage, SqliteStorage, PeeweeStorage
t0 = datetime(2024, 1, 2, 3, 4, 5, tzinfo=timezone.utc)
E = lambda k, i=None: Event(id=i, timestamp=t0 + timedelta(seconds=k), duration=1, data={"k": k})
for fault in ("stale", "missing", "big-id", "big-id-mixed"):
  for name, mk in (("memory", lambda: Datastore(MemoryStorage, testing=True)),
                 ("sqlite", lambda: Datastore(SqliteStorage, testing=True, filepath=os.path.join(tmp, f"s{fault}.db"))),
                 ("peewee", lambda: Datastore(PeeweeStorage, testing=True, filepath=os.path.join(tmp, f"p{fault}.db"))) ):
    ds = mk()
    b = ds.create_bucket("b1", "t", "c", "h", created=t0)
    b.insert(E(0)); b.get(-1)
    gone = ds.create_bucket("gone", "t", "c", "h", created=t0); ds.delete_bucket("gone")
    a1 = b.insert(E(1)).id; a2 = b.insert(E(2)).id
    try:
        if fault == "stale": gone.insert([E(7), E(8)])
        elif fault == "missing": Bucket(ds, "nope").insert([E(7), E(8)])
        elif fault == "big-id": b.insert([E(7, 2**63)])
        else: b.insert([E(7, 2**63), E(8)])
        res = "returned"
    except Exception as ex:
        res = type(ex).__name__
    a3 = b.insert(E(3)).id
    lst = sorted((e.id, e.data["k"]) for e in b.get(-1))
    print(fault, name, res, "acks", a1, a2, a3, "listing", lst, [b.get_by_id(i) is not None for i in (a1, a2, a3)])
