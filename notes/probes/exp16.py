import sys, logging
root = sys.argv[1]
sys.path.insert(0, root)
logging.disable(logging.CRITICAL)
from datetime import datetime, timedelta, timezone
from aw_datastore import Datastore
from aw_datastore.storages import MemoryStorage
from aw_query import query
from aw_query.functions import q2_function
@q2_function()
def q2_echo(*args): return list(args)
ds = Datastore(MemoryStorage, testing=True)
T0 = datetime(2020,1,1,tzinfo=timezone.utc)
def run(s):
    try: return ("ok", query("n", s, T0, T0+timedelta(hours=1), ds))
    except Exception as ex: return ("EXC", type(ex).__name__, str(ex)[:60])
for t in ['RETURN = [1, 2 ]', 'RETURN = [1,\n 2\n];', 'RETURN = {"a": 1 }', 'RETURN = {"a": 1\n}', 'RETURN = echo(1, 2 )', 'RETURN = echo(1 , 2)', 'RETURN = echo( 1, 2)', 'RETURN = [ 1, 2]', 'RETURN = { "a": 1}', 'RETURN = {"a" :1}', 'RETURN = {"a": 1 , "b": 2}', 'RETURN = echo([1] ,2 ,3)', 'RETURN = echo({"a":[1,2]} , [3] , echo(4 , 5))', 'x=1;y=x;RETURN=echo(x,y)', "RETURN = 'it\\'s, (ok)=[1]'", 'RETURN = echo("]", "}", ")")', 'RETURN = echo(")", 2, 3)', 'RETURN = [")", "]"]', 'RETURN = echo("a\\"b", 2)', 'RETURN = echo(f1(1), 2)', 'RETURN = echo1(1)', 'RETURN = echo([ [1] , [2] ])']:
    print(repr(t), '->', run(t))
