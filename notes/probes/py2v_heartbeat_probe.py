"""Throw-away prototype: fail-closed translation of heartbeat_merge to Gallina."""
import ast, sys
src = open(sys.argv[1]).read()
fn = next(n for n in ast.parse(src).body if isinstance(n, ast.FunctionDef) and n.name == "heartbeat_merge")
class Fail(Exception): pass
ATTR = {"timestamp": "ts", "duration": "dur", "data": "data"}
def expr(e, env):
    if isinstance(e, ast.Name):
        if e.id in env: return env[e.id]
        raise Fail(f"name {e.id}")
    if isinstance(e, ast.Attribute) and isinstance(e.value, ast.Name) and e.attr in ATTR:
        return f"({ATTR[e.attr]} {expr(e.value, env)})"
    if isinstance(e, ast.BinOp) and isinstance(e.op, (ast.Add, ast.Sub)):
        return f"({expr(e.left, env)} {'+' if isinstance(e.op, ast.Add) else '-'} {expr(e.right, env)})"
    if isinstance(e, ast.Call) and isinstance(e.func, ast.Name) and e.func.id == "timedelta":
        if len(e.args) == 1 and isinstance(e.args[0], ast.Constant) and e.args[0].value == 0 and not e.keywords: return "0"
        if not e.args and len(e.keywords) == 1 and e.keywords[0].arg == "seconds": return expr(e.keywords[0].value, env)  # pulsetime already in us
        raise Fail("timedelta form")
    if isinstance(e, ast.Call) and isinstance(e.func, ast.Name) and e.func.id in ("max", "min"):
        args = e.args[0].elts if len(e.args) == 1 and isinstance(e.args[0], ast.Tuple) else e.args
        if len(args) != 2: raise Fail("max arity")
        return f"(Z.{e.func.id} {expr(args[0], env)} {expr(args[1], env)})"
    raise Fail(ast.dump(e)[:80])
CMP = {ast.LtE: "<=?", ast.Lt: "<?", ast.GtE: ">=?", ast.Gt: ">?"}
def bexpr(e, env):
    if isinstance(e, ast.Name) and e.id in env: return env[e.id]
    if isinstance(e, ast.Compare):
        parts=[]; left=e.left
        for op, right in zip(e.ops, e.comparators):
            if isinstance(op, ast.Eq):
                if isinstance(left, ast.Attribute) and left.attr == "data": parts.append(f"({expr(left, env)} =? {expr(right, env)})")
                else: raise Fail("== on non-data")
            elif type(op) in CMP: parts.append(f"({expr(left, env)} {CMP[type(op)]} {expr(right, env)})")
            else: raise Fail("cmp op")
            left = right
        return "(" + " && ".join(parts) + ")"
    raise Fail("bexpr " + ast.dump(e)[:60])
def stmts(body, env, k):
    """k: Gallina text of what follows when the block falls through"""
    if not body: return k
    s, rest = body[0], body[1:]
    if isinstance(s, ast.Expr) and isinstance(s.value, ast.Constant): return stmts(rest, env, k)  # docstring / comment string
    if isinstance(s, ast.Expr) and isinstance(s.value, ast.Call) and isinstance(s.value.func, ast.Attribute) and isinstance(s.value.func.value, ast.Name) and s.value.func.value.id == "logger":
        return stmts(rest, env, k)  # logging has no effect on the result
    if isinstance(s, ast.Assign) and len(s.targets) == 1:
        t = s.targets[0]
        if isinstance(t, ast.Name):
            try: v = expr(s.value, env)
            except Fail: v = bexpr(s.value, env)
            env2 = dict(env); env2[t.id] = t.id
            return f"let {t.id} := {v} in\n  {stmts(rest, env2, k)}"
        if isinstance(t, ast.Attribute) and isinstance(t.value, ast.Name) and t.attr == "duration":
            obj = env[t.value.id]; new = f"(set_dur {obj} {expr(s.value, env)})"
            env2 = dict(env); env2[t.value.id] = new
            return stmts(rest, env2, k)
        raise Fail("assign target")
    if isinstance(s, ast.If):
        after = stmts(rest, env, k)
        return f"if {bexpr(s.test, env)}\n  then {stmts(s.body, env, after)}\n  else {stmts(s.orelse, env, after)}"
    if isinstance(s, ast.Return):
        if isinstance(s.value, ast.Constant) and s.value.value is None: return "None"
        return f"Some {expr(s.value, env)}"
    raise Fail("stmt " + type(s).__name__)
args = [a.arg for a in fn.args.args]
if args != ["last_event", "heartbeat", "pulsetime"]: raise Fail("signature")
body = stmts(fn.body, {a: a for a in args}, "None")
print("(* generated from heartbeats.py — do not edit *)\nFrom Coq Require Import ZArith Bool.\nRequire Import Prelude.\nOpen Scope Z_scope.\n")
print(f"Definition gen_heartbeat_merge (last_event heartbeat : event) (pulsetime : Z) : option event :=\n  {body}.")
