"""Witnesses on the UNCHANGED tree found while building harness/store_sched.py (round 6, fixer fix9-peewee).
Run: cd /verif && PYTHONPATH=$VERIF_REPO:/verif /venv/bin/python notes/probes/fix9_findings.py
Each block prints what happened; nothing here is a verdict of a check (the generators avoid these situations, see
notes/agents/C04.md / C05.md "Round 6")."""
import os
import sys
import tempfile
import threading
from datetime import datetime, timedelta, timezone

sys.path.insert(0, "/verif")
from harness import common  # noqa: E402
common.setup_impl_env()
from aw_core.models import Event  # noqa: E402
from aw_datastore.storages import PeeweeStorage  # noqa: E402
from aw_datastore.storages import peewee as pw  # noqa: E402

T0 = datetime(2024, 5, 1, 12, tzinfo=timezone.utc)
tmp = tempfile.mkdtemp(prefix="fix9-")


def ev(s, n):
    return Event(timestamp=T0 + timedelta(seconds=s), duration=timedelta(seconds=1), data={"n": n})


def names(st, b):
    return [e.data["n"] for e in st.get_events(b, -1)]


# E: two PeeweeStorage objects on one file; object 2 still holds the key of a bucket object 1 deleted
p = os.path.join(tmp, "e.db")
o1 = PeeweeStorage(testing=True, filepath=p)
o1.create_bucket("A", "t", "c", "h", T0.isoformat())
o2 = PeeweeStorage(testing=True, filepath=p)            # knows A
o1.delete_bucket("A")
r = o2.insert_one("A", ev(0, "into-a-deleted-bucket"))  # returns normally: row under the dead key
o1.create_bucket("B", "t", "c", "h", T0.isoformat())     # gets A's key back
print("E  insert through object 2 into the bucket object 1 deleted returned id", r.id, "- new bucket B then holds", names(o1, "B"))
o1.db.close()

# F: one PeeweeStorage, two threads: replace (SELECT, then UPDATE ... WHERE id = ?, all columns) is pre-empted between
# its two statements; meanwhile the event is deleted and another bucket's insert receives its id
p = os.path.join(tmp, "f.db")
st = PeeweeStorage(testing=True, filepath=p)
for b in ("A", "B"):
    st.create_bucket(b, "t", "c", "h", T0.isoformat())
st.insert_one("B", ev(0, "b1"))
last = st.insert_one("A", ev(1, "a1"))
paused, resume, n = threading.Event(), threading.Event(), [0]
real = pw._db.execute_sql


def execute_sql(sql, params=None, *a, **k):
    if threading.current_thread().name == "worker":
        n[0] += 1
        if n[0] == 2:
            paused.set()
            resume.wait(20)
    return real(sql, params, *a, **k)


pw._db.execute_sql = execute_sql


def worker():
    try:
        st.replace("A", last.id, ev(5, "a1-replaced"))
    finally:
        paused.set()
        pw._db.close()


t = threading.Thread(target=worker, name="worker")
t.start()
paused.wait(20)
st.delete("A", last.id)
new = st.insert_one("B", ev(7, "b2"))
before = names(st, "B")
resume.set()
t.join(20)
del pw._db.execute_sql
print("F  B held", before, "(b2 got id", new.id, "= the id A.replace was rewriting); after A.replace finished B holds", names(st, "B"),
      "and A holds", names(st, "A"))
st.db.close()
