import os, sys, tempfile, logging, copy
sys.path.insert(0, "/repo")
logging.disable(logging.CRITICAL)
from datetime import datetime, timedelta, timezone
from aw_core.models import Event
from aw_datastore import Datastore
from aw_datastore.storages import MemoryStorage, SqliteStorage, PeeweeStorage

tmp = tempfile.mkdtemp()
def mk(kind):
    if kind == "memory": return Datastore(MemoryStorage, testing=True)
    if kind == "sqlite": return Datastore(SqliteStorage, testing=True, filepath=os.path.join(tmp, "s.db"))
    if kind == "peewee": return Datastore(PeeweeStorage, testing=True, filepath=os.path.join(tmp, "p.db"))

for kind in ["memory", "sqlite", "peewee"]:
    ds = mk(kind)
    b = ds.create_bucket("b1", "t", "c", "h", data={"k": [1]})
    ts = datetime(2020,1,1,tzinfo=timezone.utc)
    e = Event(timestamp=ts, duration=1, data={"a": {"x": 1}})
    r = b.insert(e)
    print(kind, "caller id after insert:", e.id, "returned is passed:", r is e)
    e.data["a"]["x"] = 2
    print(kind, "  after mutating passed nested:", b.get()[0].data)
    e.data["new"] = 1
    print(kind, "  after mutating passed top:", b.get()[0].data)
    r.data["viaret"] = 1
    r.duration = timedelta(seconds=99)
    print(kind, "  after mutating returned:", b.get()[0].data, b.get()[0].duration)
    g = b.get()[0]; g.data["viaget"]=1
    print(kind, "  after mutating got:", b.get()[0].data)
    m = b.metadata(); m["data"]["k"].append(2); m["type"]="zzz"
    print(kind, "  metadata after mutating handed-out:", b.metadata()["type"], b.metadata()["data"])
    m2 = ds.buckets()["b1"]; m2["client"]="yyy"
    print(kind, "  metadata after mutating buckets():", b.metadata()["client"])
    # replace with object then mutate
    e2 = Event(timestamp=ts, duration=2, data={"r": [1]})
    b.replace(b.get()[0].id, e2); e2.data["r"].append(2)
    print(kind, "  after replace+mutate:", b.get()[0].data)
    ds.delete_bucket("b1")
