"""every edge value of harness/edgevals.py through the three back ends of the tree in VERIF_REPO (default /repo)"""
import json, os, sys, tempfile, copy
from datetime import datetime, timedelta, timezone
REPO = os.environ.get("VERIF_REPO", "/repo")
sys.path.insert(0, REPO); sys.path.insert(1, "/verif")
tmp = tempfile.mkdtemp(prefix="fix6-probe-")
for k in ("DATA", "CONFIG", "CACHE"):
    os.environ[f"XDG_{k}_HOME"] = os.path.join(tmp, k)
import logging; logging.disable(logging.WARNING)
from harness import edgevals as E
from aw_core.models import Event
from aw_datastore import Datastore
from aw_datastore.storages import MemoryStorage, SqliteStorage, PeeweeStorage
t0 = datetime(2024, 1, 2, 3, 4, 5, tzinfo=timezone.utc)
vals = [("edge", d) for d in E.EDGE_DATA] + [(st, v) for st, v in E.dressed_corpus()]
vals += [("edge+" + st, E.dress(d, st)) for st in ("mixed", "all") for d in E.EDGE_DATA]
canon = lambda x: json.dumps(x, sort_keys=True)
bad = 0
for name, mk in (("memory", lambda: Datastore(MemoryStorage, testing=True)),
                 ("sqlite", lambda: Datastore(SqliteStorage, testing=True, filepath=os.path.join(tmp, "s.db"))),
                 ("peewee", lambda: Datastore(PeeweeStorage, testing=True, filepath=os.path.join(tmp, "p.db")))):
    ds = mk()
    for i, (st, d) in enumerate(vals):
        def chk(what, got):
            global bad
            if not (got == d and canon(got) == canon(d)):
                bad += 1
                print("DIFF", name, what, st, canon(d)[:100], "->", canon(got)[:100])
        try:
            b = ds.create_bucket(f"b{i}", "t", "c", "h", created=t0, data=copy.deepcopy(d))
            chk("bucket-data", b.metadata()["data"])
            chk("buckets()", ds.buckets()[f"b{i}"]["data"])
            ds.update_bucket(f"b{i}", data=copy.deepcopy(d), name="n")
            chk("update-bucket-data", b.metadata()["data"])
            r = b.insert(Event(timestamp=t0, duration=1, data=copy.deepcopy(d)))
            chk("insert-ret", r.data)
            chk("get_by_id", b.get_by_id(r.id).data)
            b.insert([Event(timestamp=t0 + timedelta(seconds=k + 1), duration=1, data=copy.deepcopy(d)) for k in range(3)])
            for e in b.get(-1):
                chk("bulk+get", e.data)
            b.replace_last(Event(timestamp=t0 + timedelta(seconds=9), duration=2, data=copy.deepcopy(d)))
            chk("replace_last", b.get(1)[0].data)
            b.replace(r.id, Event(timestamp=t0, duration=3, data=copy.deepcopy(d)))
            chk("replace", b.get_by_id(r.id).data)
            up = Event(id=r.id, timestamp=t0, duration=4, data=copy.deepcopy(d))
            b.insert([up, Event(timestamp=t0 + timedelta(seconds=20), duration=1, data=copy.deepcopy(d))])
            chk("upsert", b.get_by_id(r.id).data)
            assert b.get_eventcount() == 5, b.get_eventcount()
        except Exception as ex:
            bad += 1
            print("RAISED", name, st, canon(d)[:100], type(ex).__name__, str(ex)[:150])
print("values:", len(vals), "bad:", bad, "repo:", REPO)
