From Coq Require Import ZArith Reals Lia Lra Psatz.
From Flocq Require Import Core.
From Interval Require Import Tactic.
Open Scope R_scope.

Definition fexp := FLT_exp (-1074) 53.
Definition rnd := round radix2 fexp ZnearestE.

(* error of rounding a positive real below 2^32 is at most 2^-22 *)
Lemma rnd_err_32 : forall x : R, 0 <= x < bpow radix2 32 -> Rabs (rnd x - x) <= bpow radix2 (-22).
Proof.
  intros x [H0 H1].
  unfold rnd.
  destruct (Req_dec x 0) as [->|Hx].
  - rewrite round_0; [|apply valid_rnd_N]. rewrite Rminus_0_r, Rabs_R0. apply bpow_ge_0.
  - eapply Rle_trans. apply error_le_half_ulp. apply FLT_exp_valid. reflexivity.
    assert (Hu: ulp radix2 fexp x <= bpow radix2 (-21)).
    { rewrite ulp_neq_0 by assumption. apply bpow_le. unfold cexp, fexp, FLT_exp.
      assert (mag radix2 x <= 32)%Z. { apply mag_le_bpow; auto. rewrite Rabs_pos_eq; lra. }
      lia. }
    replace (bpow radix2 (-22)) with (/2 * bpow radix2 (-21)).
    + apply Rmult_le_compat_l; lra.
    + change (-22)%Z with (-1 + -21)%Z. rewrite bpow_plus. simpl. lra.
Qed.
Print Assumptions rnd_err_32.
