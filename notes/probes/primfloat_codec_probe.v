From Coq Require Import ZArith List Bool Lia Uint63 PrimFloat FloatOps SpecFloat.
Open Scope Z_scope.
Definition fZ (z : Z) : float := of_uint63 (Uint63.of_Z z).
Definition e6 : float := fZ 1000000.
(* floor of a non-negative finite float, as Z; and test for integrality *)
Definition floorZ (f : float) : Z :=
  match Prim2SF f with
  | S754_finite false m e => if 0 <=? e then Zpos m * 2 ^ e else Z.shiftr (Zpos m) (- e)
  | _ => 0 end.
Definition py_total_seconds (us : Z) : float := (fZ us / e6)%float.
Definition sqlite_enc (ts dur : Z) : float * float :=
  let st := (py_total_seconds ts * e6)%float in
  let en := (st + py_total_seconds dur * e6)%float in (st, en).
(* C round(): half away from zero, for x >= 0 *)
Definition c_round (x : float) : float :=
  let fl := fZ (floorZ x) in
  if (x - fl <? 0.5)%float then fl else (fl + 1)%float.
Definition round_half_even (x : float) : float :=
  let r := c_round x in
  if (abs (x - r) =? 0.5)%float then (2 * c_round (x / 2))%float else r.
Definition fromtimestamp_us (t : float) : Z :=
  let ip := floorZ t in
  let frac := (t - fZ ip)%float in
  let m := round_half_even (frac * e6)%float in
  if (e6 <=? m)%float then (ip + 1) * 1000000 + floorZ (m - e6)%float
  else ip * 1000000 + floorZ m.
Definition sqlite_dec (c : float * float) : Z * Z :=
  let s := fromtimestamp_us (fst c / e6)%float in
  let e := fromtimestamp_us (snd c / e6)%float in
  (1000 * (s / 1000), e - s).
Definition rt ts dur := sqlite_dec (sqlite_enc ts dur).
Eval vm_compute in (rt 2250122380221000 2141079079834, 2141079079834).
Eval vm_compute in (rt 1577836800123000 1500000).
Eval vm_compute in (Prim2SF (fst (sqlite_enc 2250122380221000 2141079079834)), Prim2SF (snd (sqlite_enc 2250122380221000 2141079079834))).
(* exhaustive: int(us/1000) for all us < 10^6 *)
Fixpoint upto (n : nat) (z : Z) : list Z := match n with O => nil | S k => z :: upto k (z+1) end.
Definition ok1000 (us : Z) : bool := floorZ (fZ us / fZ 1000)%float =? us / 1000.
Time Eval vm_compute in forallb ok1000 (upto 1000 0).
