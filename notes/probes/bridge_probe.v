From Coq Require Import ZArith Bool Lia ZifyBool.
Require Import Prelude Model Gen.
Open Scope Z_scope.
Ltac split_cmp :=
  repeat match goal with
  | |- context [if ?b then _ else _] => let E := fresh "E" in destruct b eqn:E
  | H : context [if ?b then _ else _] |- _ => let E := fresh "E" in destruct b eqn:E
  end.
Lemma bridge_heartbeat_merge : forall l h p, gen_heartbeat_merge l h p = heartbeat_merge l h p.
Proof.
  intros l h p. cbv [gen_heartbeat_merge heartbeat_merge set_dur].
  split_cmp; try reflexivity; try (exfalso; lia); f_equal; f_equal; lia.
Qed.
Print Assumptions bridge_heartbeat_merge.
