import sys; sys.path.insert(0,"/repo")
import tomlkit
from aw_core.config import _merge
for d,u in [("x = 1","x = true"),("x = 1","x = 1.0"),("x = 0","x = false"),("x = [1]","x = [true]"),("x = 'a'","x = \"a\""), ("x = 1", "x = 2")]:
    r = _merge(tomlkit.parse(d), tomlkit.parse(u))
    print(d, "|", u, "->", repr(r["x"]), type(r["x"]).__name__, "unwrap:", repr(r.unwrap()["x"]))
