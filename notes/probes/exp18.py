import os, sys, tempfile, logging, random, copy
root=sys.argv[1]; sys.path.insert(0, root)
logging.disable(logging.CRITICAL)
os.environ["XDG_DATA_HOME"]=tempfile.mkdtemp()
from datetime import datetime, timedelta, timezone
from aw_core.models import Event
from aw_datastore import Datastore
from aw_datastore.storages import MemoryStorage, SqliteStorage, PeeweeStorage
from aw_transform import heartbeat_merge, heartbeat_reduce
T0 = datetime(2020,1,1,tzinfo=timezone.utc)
def mk(kind):
    tmp = tempfile.mkdtemp()
    if kind == "memory": return Datastore(MemoryStorage, testing=True)
    if kind == "sqlite": return Datastore(SqliteStorage, testing=True, filepath=os.path.join(tmp, "s.db"))
    if kind == "peewee": return Datastore(PeeweeStorage, testing=True, filepath=os.path.join(tmp, "p.db"))
def key(e): return ((e.timestamp-T0)/timedelta(milliseconds=1), e.duration/timedelta(milliseconds=1), e.data.get("l"))
rng=random.Random(int(sys.argv[2]) if len(sys.argv)>2 else 1)
for kind in ["memory","sqlite","peewee"]:
    ds=mk(kind); bad=0; N=150
    other = ds.create_bucket("other","t","c","h")
    for trial in range(N):
        bid="b%d"%trial; b=ds.create_bucket(bid,"t","c","h")
        n=rng.randint(1,10); t=0; prev_end=0; stream=[]
        pt=rng.choice([0,0.5,1,2,5])
        for i in range(n):
            t += rng.choice([1,500,1000,2000,2500,5000])  # strictly increasing ms
            end = max(prev_end, t + rng.choice([0,0,500,1000,3000]))  # non-decreasing ends
            if rng.random()<0.3: end=max(prev_end,t)  # tie with previous end / zero-length
            prev_end=end
            stream.append(Event(timestamp=T0+timedelta(milliseconds=t), duration=timedelta(milliseconds=end-t), data={"l":rng.choice("ab")}))
            # populate other bucket with same end instants sometimes
            if rng.random()<0.3: other.insert(Event(timestamp=T0+timedelta(milliseconds=end-1), duration=timedelta(milliseconds=1), data={"o":1}))
        others_before = sorted(map(key, other.get(-1)))
        for hb in copy.deepcopy(stream):
            last=b.get(limit=1)
            if last:
                m=heartbeat_merge(last[0], hb, pt)
                if m is not None: b.replace_last(m)
                else: b.insert(hb)
            else: b.insert(hb)
        got=sorted(map(key,b.get(-1)))
        exp=sorted(map(key,heartbeat_reduce(copy.deepcopy(stream), pt)))
        if got!=exp or sorted(map(key, other.get(-1)))!=others_before:
            bad+=1
            if bad<=2: print(kind,"BAD pt",pt,[key(e) for e in stream],"\n   got",got,"\n   exp",exp)
    print(kind,"C07 bad",bad,"of",N)
