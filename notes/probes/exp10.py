import sys, logging
sys.path.insert(0, "/repo")
logging.disable(logging.CRITICAL)
from datetime import datetime, timedelta, timezone
from aw_datastore import Datastore
from aw_datastore.storages import MemoryStorage
from aw_query import query
from aw_query.functions import functions, q2_function, q2_typecheck
import aw_query.query2 as q2
# register a test function that echoes args
calls=[]
@q2_function()
def q2_echo(*args):
    return list(args)
ds = Datastore(MemoryStorage, testing=True)
T0 = datetime(2020,1,1,tzinfo=timezone.utc)
def run(s):
    try: return ("ok", query("n", s, T0, T0+timedelta(hours=1), ds))
    except Exception as ex: return ("EXC", type(ex).__module__+"."+type(ex).__name__, str(ex)[:70])
tests = [
 'RETURN = echo(1, 2, 3);',
 'RETURN = echo([1], 2, 3);',
 'RETURN = echo([1,2], [3,4], 5);',
 'RETURN = echo(nop(), 2, 3);',
 'RETURN = echo({"a":1}, 2, 3);',
 'RETURN = echo("a,b", 2);',
 'RETURN = echo(1, "x)y", 3);',
 'RETURN = echo([1] , 2);',
 'RETURN = echo( );',
 'RETURN = echo(1, );',
 'RETURN = echo(,1);',
 'RETURN = limit_events([]);',
 'RETURN = limit_events();',
 'RETURN = limit_events([], 1, 2);',
 'RETURN = limit_events(1, 1);',
 'RETURN = query_bucket("nope");',
 'RETURN = [1, [2, 3], 4];',
 'RETURN = [[1], 2, 3];',
 'RETURN = [ ];',
 'RETURN = [1, ];',
 'RETURN = [1 2];',
 'RETURN = {"a": 1, "b": [1,2], "c": 3};',
 'RETURN = {"a": {"x": 1}, "b": 2};',
 'RETURN = {"a": 1,};',
 'RETURN = { };',
 'RETURN = {"a" 1};',
 'RETURN = {"a":};',
 'RETURN = {"a"};',
 'RETURN = "a;b";',
 'RETURN = "a=b";',
 'x = 1; RETURN = x; x = 2;',
 'x = 1; y = x; x = 2; RETURN = y;',
 'RETURN = ',
 'RETURN',
 '=',
 '1 = 2',
 'RETURN = 1 2',
 'RETURN = "abc',
 'RETURN = [1',
 'RETURN = {"a": 1',
 'RETURN = f(1',
 'RETURN = ]',
 'RETURN = \'a\\\'b\';',
 'RETURN = "";',
 'RETURN = 1;;;',
 'RETURN=1',
 'RETURN = -1',
 'RETURN = 1.5',
 'RETURN = unknownvar',
 'RETURN = unknownf()',
 'RETURN = True',
 'RETURN = nop ()',
 'RETURN = echo(x=1)',
 'RETURN = echo("a" "b")',
 'RETURN = echo(1)(2)',
 'RETURN = echo(1) 2',
 'RETURN = [1] 2',
 'RETURN = [1]]',
 'RETURN = "a" "b"',
 'RETURN = {"a": 1} 2',
 'RETURN = {"a": 1}}',
 'a = 1; RETURN = {"k": a};',
]
for t in tests: print(repr(t), "->", run(t))
