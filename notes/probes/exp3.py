import sys, random, logging
sys.path.insert(0, "/repo")
logging.disable(logging.CRITICAL)
from datetime import datetime, timedelta, timezone
from exp2 import enc, dec, EPOCH
random.seed(2)
def scan(lo_y, hi_y, N, durgen):
    lo = int((datetime(lo_y,1,1,tzinfo=timezone.utc)-EPOCH).total_seconds())
    hi = int((datetime(hi_y,1,1,tzinfo=timezone.utc)-EPOCH).total_seconds())
    out=[]
    for _ in range(N):
        ms = random.randrange(lo*1000, hi*1000)
        ts = EPOCH + timedelta(milliseconds=ms)
        dur = timedelta(microseconds=durgen())
        st,en = enc(ts,dur); s2,d2 = dec(st,en)
        if s2!=ts or d2!=dur: out.append((ts.isoformat(),dur, repr(st),repr(en),s2.isoformat(),d2))
    return out
for rng in [(1970,2000),(2000,2038),(2038,2041),(2041,2043),(2043,2100)]:
    o = scan(*rng, 400000, lambda: random.randrange(0, 30*86400*10**6))
    print(rng, len(o)); 
    for x in o[:3]: print("   ", x)
