import sys, logging, random, copy
sys.path.insert(0, sys.argv[1])
logging.disable(logging.CRITICAL)
from datetime import datetime, timedelta, timezone
from aw_core.models import Event
from aw_transform import union_no_overlap
T0 = datetime(2020,1,1,tzinfo=timezone.utc); S=timedelta(seconds=1)
def ev(s,e,lab): return Event(timestamp=T0+s*S, duration=(e-s)*S, data={"l":lab})
def iv(e): return (int((e.timestamp-T0)/S), int((e.timestamp+e.duration-T0)/S))
def gen(rng,n,maxt=12,zero=True):
    pts=sorted(rng.sample(range(maxt+1),min(2*n,maxt+1))); out=[]; i=0
    while i+1<len(pts):
        s,e=pts[i],pts[i+1]
        if zero and rng.random()<0.25: e=s
        out.append((s,e)); i+=2
    return out
def cells(ivs): return {c for s,e in ivs for c in range(s,e)}
rng=random.Random(5); bad=0; N=40000
for t in range(N):
    a=gen(rng,rng.randint(0,4),zero=(t%2==0)); b=gen(rng,rng.randint(0,4),zero=(t%3==0))
    ea=[ev(s,e,"x%d"%i) for i,(s,e) in enumerate(a)]; eb=[ev(s,e,"y%d"%i) for i,(s,e) in enumerate(b)]
    ea0=copy.deepcopy(ea); eb0=copy.deepcopy(eb)
    res=union_no_overlap(ea,eb); why=[]
    got=[(iv(r)[0],iv(r)[1],r.data["l"]) for r in res]
    if sorted(g for g in got if g[2][0]=="x")!=sorted((s,e,"x%d"%i) for i,(s,e) in enumerate(a)): why.append("list1 not intact")
    ca=cells(a)
    for i,(s,e) in enumerate(b):
        pieces=[(g[0],g[1]) for g in got if g[2]=="y%d"%i]
        if cells(pieces)!=cells([(s,e)])-ca: why.append("y%d cover wrong"%i)
        if any(not(s<=p0 and p1<=e) for p0,p1 in pieces): why.append("piece outside source")
        if sum(p1-p0 for p0,p1 in pieces)!=len(cells(pieces)): why.append("pieces overlap")
    allc=[(g[0],g[1]) for g in got]
    if sum(e-s for s,e in allc)!=len(cells(allc)): why.append("overlap in output")
    if cells(allc)!=cells(a)|cells(b): why.append("cover != union")
    if got!=sorted(got,key=lambda g:g[0]): why.append("unsorted")
    if ea!=ea0 or eb!=eb0: why.append("input modified")
    if why:
        bad+=1
        if bad<=4: print("bad",a,b,got,why)
print("bad",bad,"of",N)
