import os, sys, tempfile, logging, sqlite3
sys.path.insert(0, "/repo")
logging.disable(logging.CRITICAL)
from datetime import datetime, timedelta, timezone
from aw_core.models import Event
from aw_datastore import Datastore
import aw_datastore.storages.sqlite as sq
from aw_datastore.storages import SqliteStorage
T0 = datetime(2020,1,1,tzinfo=timezone.utc)
# fake clock
class FakeDT(datetime):
    _now = datetime(2030,1,1)
    @classmethod
    def now(cls, tz=None): return cls._now
sq.datetime = FakeDT
tmp = tempfile.mkdtemp(); path=os.path.join(tmp,"s.db")
ds = Datastore(SqliteStorage, testing=True, filepath=path)
st = ds.storage_strategy
def committed():
    c = sqlite3.connect(path); n = c.execute("select count(*) from events").fetchone()[0]; nb=c.execute("select count(*) from buckets").fetchone()[0]; c.close(); return n, nb
trace=[]
st.conn.set_trace_callback(lambda s: trace.append((s.split()[0], committed())))
A = ds.create_bucket("A","t","c","h")
print("after create:", committed())
for i in range(120):
    A.insert(Event(timestamp=T0+timedelta(seconds=i), duration=1, data={"i":i}))
    if i in (0,49,50,51,100,101,102): print(" after insert", i+1, "committed:", committed(), "uncommitted ctr", st.num_uncommitted_statements)
# age-based
FakeDT._now += timedelta(seconds=30)
A.insert(Event(timestamp=T0+timedelta(seconds=500), duration=1, data={}))
print("after 30s pause + insert: committed", committed(), "(total 121)")
# deletes uncounted
ids=[e.id for e in A.get(-1)]
print("after read (commits):", committed())
for i in ids[:100]: A.delete(i)
print("after 100 deletes: committed", committed(), "ctr", st.num_uncommitted_statements)
print("trace sample:", trace[:6], len(trace))
