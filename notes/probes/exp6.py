import os, sys, tempfile, logging, random
sys.path.insert(0, "/repo")
logging.disable(logging.CRITICAL)
from datetime import datetime, timedelta, timezone
from aw_core.models import Event
from aw_datastore import Datastore
from aw_datastore.storages import MemoryStorage, SqliteStorage, PeeweeStorage
def mk(kind):
    tmp = tempfile.mkdtemp()
    if kind == "memory": return Datastore(MemoryStorage, testing=True)
    if kind == "sqlite": return Datastore(SqliteStorage, testing=True, filepath=os.path.join(tmp, "s.db"))
    if kind == "peewee": return Datastore(PeeweeStorage, testing=True, filepath=os.path.join(tmp, "p.db"))
random.seed(5)
US = timedelta(microseconds=1)
for kind in ["memory","sqlite","peewee"]:
    ds = mk(kind); A = ds.create_bucket("A","t","c","h")
    worst_in = 0; worst_out = 0; n=0; cnt_mismatch=0; ordbad=0
    for trial in range(60):
        base = datetime(random.choice([1971,1999,2024,2037,2045,2099]), random.randint(1,12), random.randint(1,28), random.randint(0,23), random.randint(0,59), random.randint(0,59), tzinfo=timezone.utc)
        evs=[]
        for i in range(25):
            s = base + timedelta(milliseconds=random.randrange(0, 20000))
            d = timedelta(microseconds=random.choice([0, random.randrange(0,5000), random.randrange(0,5_000_000)]))
            evs.append(Event(timestamp=s, duration=d, data={"i":i}))
        A.insert(evs)
        stored = A.get(-1)
        for w in range(40):
            # windows with edges near event edges
            e = random.choice(stored)
            edge = random.choice([e.timestamp, e.timestamp+e.duration])
            ws = edge + timedelta(microseconds=random.randrange(-3000,3001))
            we = ws + timedelta(microseconds=random.choice([0, random.randrange(0,2000), random.randrange(0,10_000_000)]))
            tz = timezone(timedelta(hours=random.randint(-12,14)))
            got = A.get(-1, ws.astimezone(tz), we.astimezone(tz))
            gotids = {g.id for g in got}
            c = A.get_eventcount(ws.astimezone(tz), we.astimezone(tz))
            if c != len(got): cnt_mismatch+=1
            ts = [g.timestamp for g in got]
            if ts != sorted(ts, reverse=True): ordbad+=1
            for s_ in stored:
                st, en = s_.timestamp, s_.timestamp+s_.duration
                # distance by which the event reaches into window (negative = outside)
                reach = min((en - ws)/US, (we - st)/US)
                if s_.id in gotids:
                    if reach < 0: worst_in = max(worst_in, -reach)   # included though outside by this much
                else:
                    if reach >= 0: worst_out = max(worst_out, reach) # excluded though inside by this much
                n+=1
        for s_ in stored: A.delete(s_.id)
    print(kind, "checks", n, "max us outside-yet-included", worst_in, "max us inside-yet-excluded", worst_out, "count!=len", cnt_mismatch, "order bad", ordbad)
