import sys, logging
root = sys.argv[1]; sys.path.insert(0, root)
logging.disable(logging.CRITICAL)
from datetime import datetime, timedelta, timezone
from aw_datastore import Datastore
from aw_datastore.storages import MemoryStorage
from aw_query import query
from aw_query.functions import q2_function
@q2_function()
def q2_echo(*args): return list(args)
ds = Datastore(MemoryStorage, testing=True)
T0 = datetime(2020,1,1,tzinfo=timezone.utc)
def run(s):
    try: return ("ok", query("n", s, T0, T0+timedelta(hours=1), ds))
    except Exception as ex: return ("EXC", type(ex).__name__, str(ex)[:60])
for t in ['RETURN = [[1]  ]', 'RETURN = [[1] ]', 'RETURN = {"a": [1]  }', 'RETURN = {"a": {"b":1}  }', 'RETURN = [echo(1)  ]', 'RETURN = echo([1]  )', 'RETURN = [1,  ]', 'RETURN = ["a"  ]', 'RETURN = [\n  [1],\n  [2]\n];', 'RETURN = {\n "a": [1],\n "b": {"c": 2}\n};', 'RETURN = echo(\n  [1],\n  2\n);']:
    print(repr(t), '->', run(t))
