import os, sys, tempfile, logging, random, json
sys.path.insert(0, "/repo"); logging.disable(logging.CRITICAL)
os.environ["XDG_DATA_HOME"]=tempfile.mkdtemp()
from datetime import datetime, timedelta, timezone
from aw_core.models import Event
from aw_core.schema import get_json_schema
import jsonschema, iso8601
from jsonschema import FormatChecker
schema = get_json_schema("event")
rng = random.Random(4); bad=0; N=20000; EPOCH=datetime(1970,1,1,tzinfo=timezone.utc)
for t in range(N):
    us = rng.randrange(0, 4102444800*10**6)
    off = timedelta(minutes=rng.randrange(-14*60, 14*60+1)) if rng.random()<0.8 else timedelta(seconds=rng.randrange(-14*3600,14*3600))
    tz = timezone(off)
    dt = (EPOCH + timedelta(microseconds=us)).astimezone(tz)
    how = rng.choice(["dt","iso","isoZ"]) if off.seconds%60==0 else "dt"
    if how=="dt": arg=dt
    elif how=="iso": arg=dt.isoformat()
    else: arg=(EPOCH+timedelta(microseconds=us)).strftime("%Y-%m-%dT%H:%M:%S.%f")+"Z"
    dk = rng.choice(["int","float","td"]); k = rng.randrange(0, 30*86400*10**6)
    if dk=="int": d=k//10**6; expd=timedelta(seconds=d)
    elif dk=="float": d=k/1e6; expd=timedelta(microseconds=k)
    else: d=timedelta(microseconds=k); expd=d
    e = Event(id=rng.choice([None,5,"x"]), timestamp=arg, duration=d, data={"a":[1,{"b":None}],"ü":"\"q"})
    why=[]
    exp_ts = EPOCH + timedelta(microseconds=us - us%1000)
    if e.timestamp != exp_ts or e.timestamp.utcoffset()!=timedelta(0): why.append(("ts", e.timestamp, exp_ts, how, off))
    if e.duration != expd: why.append(("dur", e.duration, expd))
    j = e.to_json_dict()
    try: jsonschema.validate(j, schema, format_checker=FormatChecker())
    except Exception as ex: why.append(("schema", str(ex)[:80]))
    e2 = Event(**json.loads(e.to_json_str())); e3 = Event(**e)
    if not (e2==e and e2.id==e.id and e3==e and e3.id==e.id): why.append(("roundtrip", e2, e))
    if why:
        bad+=1
        if bad<=5: print(why)
print("C13 bad", bad, "of", N)
