From Coq Require Import ZArith List Bool Lia.
Import ListNotations.
Open Scope Z_scope.
Record ev := { ts : Z; dur : Z; lab : Z }.
Definition merge (p : Z) (l h : ev) : option ev :=
  if (lab l =? lab h) && (ts l <=? ts h) && (ts h <=? ts l + dur l + p) && (0 <=? dur l)
  then Some {| ts := ts l; dur := Z.max (dur l) (ts h - ts l + dur h); lab := lab l |} else None.
Fixpoint reduce_aux (p : Z) (acc : list ev) (last : ev) (l : list ev) : list ev :=
  match l with
  | [] => rev (last :: acc)
  | h :: t => match merge p last h with Some m => reduce_aux p acc m t | None => reduce_aux p (last :: acc) h t end
  end.
Definition reduce p l := match l with [] => [] | h :: t => reduce_aux p [] h t end.
Require Extraction.
Require Import ExtrOcamlBasic.
Extraction "model.ml" reduce.
