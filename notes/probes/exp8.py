import os, sys, logging, random, itertools, copy
sys.path.insert(0, "/repo")
logging.disable(logging.CRITICAL)
from datetime import datetime, timedelta, timezone
from aw_core.models import Event
from aw_transform import filter_period_intersect, period_union, union_no_overlap, flood
T0 = datetime(2020,1,1,tzinfo=timezone.utc)
S = timedelta(seconds=1)
def ev(s,e,lab="a",id=None): return Event(id=id, timestamp=T0+s*S, duration=(e-s)*S, data={"l":lab})
def iv(e): return ((e.timestamp-T0)/S, (e.timestamp+e.duration-T0)/S)
def gen_nonoverlap(rng, n, maxt=12, zero=True, labels="ab"):
    # random non-overlapping list (closed-open sense: intervals may touch), maybe zero-length
    pts = sorted(rng.sample(range(maxt+1), min(2*n, maxt+1)))
    out=[]
    i=0
    while i+1 < len(pts):
        s,e = pts[i], pts[i+1]
        if zero and rng.random()<0.2: e=s
        out.append((s,e)); i+=2
    return out
def measure(ivs):  # ivs list of (s,e): measure of union over integer grid cells
    cells=set()
    for s,e in ivs:
        for c in range(int(s),int(e)): cells.add(c)
    return cells
rng = random.Random(7)
# ---- C09 filter_period_intersect
bad=0
for t in range(20000):
    a = gen_nonoverlap(rng, rng.randint(0,4)); b = gen_nonoverlap(rng, rng.randint(0,4))
    ea = [ev(s,e,"a%d"%i,id=i) for i,(s,e) in enumerate(a)]; eb=[ev(s,e,"f") for s,e in b]
    rng.shuffle(ea); rng.shuffle(eb)
    ea0=copy.deepcopy(ea); eb0=copy.deepcopy(eb); ida=[id(x) for x in ea]
    res = filter_period_intersect(ea, eb)
    # expected pieces: for each e,f with positive overlap
    exp = sorted((max(s1,s2),min(e1,e2),"a%d"%i) for i,(s1,e1) in enumerate(a) for (s2,e2) in b if min(e1,e2)>max(s1,s2))
    got = sorted((iv(r)[0],iv(r)[1],r.data["l"]) for r in res if r.duration>timedelta(0))
    okmut = (ea==ea0 and eb==eb0 and [id(x) for x in ea]==ida)
    if exp!=got or not okmut:
        bad+=1
        if bad<=3: print("FPI bad", a,b,exp,got,okmut)
print("filter_period_intersect bad:", bad)
# ---- C09 period_union arbitrary lists
bad=0
for t in range(20000):
    a=[(s, s+rng.choice([0,1,2,5])) for s in [rng.randint(0,10) for _ in range(rng.randint(0,4))]]
    b=[(s, s+rng.choice([0,1,2,5])) for s in [rng.randint(0,10) for _ in range(rng.randint(0,4))]]
    res = period_union([ev(s,e) for s,e in a],[ev(s,e) for s,e in b])
    ivs=[iv(r) for r in res]
    ok = all(r.data=={} for r in res) and ivs==sorted(ivs) and all(ivs[i][1] < ivs[i+1][0] for i in range(len(ivs)-1))
    ok = ok and measure(ivs)==measure(a+b)
    # point coverage incl zero-length: every input interval inside some output
    ok = ok and all(any(o[0]<=s and e<=o[1] for o in ivs) for s,e in a+b)
    if not ok:
        bad+=1
        if bad<=3: print("PU bad", a,b,ivs)
print("period_union bad:", bad)
# ---- C15 union_no_overlap
bad=0
for t in range(20000):
    a = gen_nonoverlap(rng, rng.randint(0,4), zero=(t%2==0)); b = gen_nonoverlap(rng, rng.randint(0,4), zero=(t%2==0))
    ea=[ev(s,e,"x%d"%i) for i,(s,e) in enumerate(a)]; eb=[ev(s,e,"y%d"%i) for i,(s,e) in enumerate(b)]
    ea0=copy.deepcopy(ea); eb0=copy.deepcopy(eb)
    res = union_no_overlap(ea, eb)
    got = sorted((iv(r)[0],iv(r)[1],r.data["l"]) for r in res)
    # expected: all of a, plus for each b the pieces not covered by a
    exp=[(s,e,"x%d"%i) for i,(s,e) in enumerate(a)]
    ca = measure(a)
    for i,(s,e) in enumerate(b):
        cells=[c for c in range(s,e) if c not in ca]
        # group consecutive
        run=[]
        for c in cells:
            if run and c==run[-1]+1: run.append(c)
            else:
                if run: exp.append((run[0],run[-1]+1,"y%d"%i))
                run=[c]
        if run: exp.append((run[0],run[-1]+1,"y%d"%i))
    exp=sorted(exp)
    gotp=[g for g in got if g[1]>g[0] or g[2].startswith("x")]
    # ignore zero-length b pieces
    gotp=[g for g in gotp if not (g[2].startswith("y") and g[0]==g[1])]
    expp=[g for g in exp]
    if gotp!=expp or ea!=ea0 or eb!=eb0:
        bad+=1
        if bad<=4: print("UNO bad", a,b,"exp",expp,"got",gotp)
print("union_no_overlap bad:", bad)
