import os, sys, tempfile, logging, copy
sys.path.insert(0, "/repo")
logging.disable(logging.CRITICAL)
from datetime import datetime, timedelta, timezone
from aw_core.models import Event
from aw_datastore import Datastore
from aw_datastore.storages import MemoryStorage, SqliteStorage, PeeweeStorage
T0 = datetime(2020,1,1,12,0,0,123456,tzinfo=timezone(timedelta(hours=2)))
def ev(s, d, **data): return Event(timestamp=T0+timedelta(seconds=s), duration=d, data=data)
def mk(kind):
    tmp = tempfile.mkdtemp()
    if kind == "memory": return Datastore(MemoryStorage, testing=True)
    if kind == "sqlite": return Datastore(SqliteStorage, testing=True, filepath=os.path.join(tmp, "s.db"))
    if kind == "peewee": return Datastore(PeeweeStorage, testing=True, filepath=os.path.join(tmp, "p.db"))
def t(f):
    try: return ("ok", f())
    except Exception as ex: return ("EXC", type(ex).__name__, str(ex)[:60])
for kind in ["memory","sqlite","peewee"]:
    print("=====", kind)
    ds = mk(kind)
    A = ds.create_bucket("A","ty","cl","ho", created=T0, name=None, data={"k":{"n":[1,"ü"]}})
    print(" meta:", A.metadata())
    print(" listed:", ds.buckets())
    A.insert(ev(0,1,x=1))
    print(" update nothing:", t(lambda: ds.update_bucket("A")), A.metadata()["type"])
    print(" update name:", t(lambda: ds.update_bucket("A", name="nn")), A.metadata())
    print(" update data {}:", t(lambda: ds.update_bucket("A", data={})), A.metadata()["data"])
    print(" update type '':", t(lambda: ds.update_bucket("A", type_id="")), A.metadata()["type"])
    print(" lookup missing:", t(lambda: ds["nope"]))
    print(" update missing:", t(lambda: ds.update_bucket("nope", name="x")))
    print(" delete missing:", t(lambda: ds.delete_bucket("nope")))
    print(" create dup:", t(lambda: ds.create_bucket("A","t2","c2","h2")), ds.buckets()["A"]["type"], len(A.get()))
    ds.delete_bucket("A")
    print(" stale handle get:", t(lambda: A.get()))
    print(" stale handle metadata:", t(lambda: A.metadata()))
    print(" stale handle insert:", t(lambda: A.insert(ev(5,1,x=5))))
    A2 = ds.create_bucket("A","t3","c3","h3")
    print(" recreated:", len(A2.get()), A2.metadata()["type"], t(lambda: len(A.get())))
    print(" buckets:", list(ds.buckets()))
