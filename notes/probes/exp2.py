import sys, random, logging
sys.path.insert(0, "/repo")
logging.disable(logging.CRITICAL)
from datetime import datetime, timedelta, timezone
EPOCH = datetime(1970,1,1,tzinfo=timezone.utc)
def enc(ts, dur):
    st = ts.timestamp()*1000000
    en = st + dur.total_seconds()*1000000
    # sqlite INTEGER affinity: real that is integral (and fits int64) -> int
    def aff(x):
        return int(x) if x == int(x) else x
    return aff(st), aff(en)
def dec(st, en):
    s = datetime.fromtimestamp(st/1000000, timezone.utc)
    e = datetime.fromtimestamp(en/1000000, timezone.utc)
    # Event ctor floors ts to ms
    s2 = s.replace(microsecond=int(s.microsecond/1000)*1000)
    return s2, e - s   # duration = endtime - starttime (unfloored start!)
random.seed(1)
bad_ts = bad_dur = 0; n=0
first=None
for year_lo, year_hi in [(1970,2038),(2038,2042),(2042,2100)]:
    lo = int((datetime(year_lo,1,1,tzinfo=timezone.utc)-EPOCH).total_seconds())
    hi = int((datetime(year_hi,1,1,tzinfo=timezone.utc)-EPOCH).total_seconds())
    bts=bd=0; N=300000
    for _ in range(N):
        ms = random.randrange(lo*1000, hi*1000)
        ts = EPOCH + timedelta(milliseconds=ms)
        dur = timedelta(microseconds=random.choice([0, random.randrange(0, 10**7), random.randrange(0, 30*86400*10**6)]))
        st,en = enc(ts,dur)
        s2,d2 = dec(st,en)
        if s2 != ts:
            bts+=1
            if first is None: first=(ts,dur,st,en,s2,d2)
        if d2 != dur: bd+=1
    print(year_lo, year_hi, "bad ts", bts, "bad dur", bd, "of", N)
print(first)
