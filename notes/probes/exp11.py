import sys, logging, copy
sys.path.insert(0, "/repo")
logging.disable(logging.CRITICAL)
from datetime import datetime, timedelta, timezone
from aw_core.models import Event
from aw_transform import merge_events_by_keys, chunk_events_by_key, heartbeat_reduce, heartbeat_merge
T0 = datetime(2020,1,1,tzinfo=timezone.utc)
def ev(s,d,**data): return Event(timestamp=T0+timedelta(seconds=s), duration=d, data=data)
r = merge_events_by_keys([ev(0,1,a=1), ev(1,2,b=1), ev(2,4,a=1,b=1)], ["a","b"])
print("merge a/b confusion:", [(e.duration.total_seconds(), e.data) for e in r])
r = merge_events_by_keys([ev(0,1,a=1), ev(1,2,a=True), ev(2,4,a=1.0)], ["a"])
print("merge 1/True/1.0:", [(e.duration.total_seconds(), e.data) for e in r])
# chunk
evs=[ev(0,1,k="x"), ev(100,1,k="x"), ev(200,1,k="y"), ev(300,1,k="x")]
r = chunk_events_by_key(evs, "k", pulsetime=5)
print("chunk asc:", [(e.duration.total_seconds(), e.data["k"], len(e.data["subevents"])) for e in r])
r = chunk_events_by_key(evs[::-1], "k", pulsetime=5)
print("chunk desc:", [(e.duration.total_seconds(), e.data["k"], len(e.data["subevents"])) for e in r])
# heartbeat_reduce mutates input
l=[ev(0,1,a=1), ev(1,1,a=1), ev(5,1,a=1)]
l0=copy.deepcopy(l)
r = heartbeat_reduce(l, 2)
print("hb reduce:", [(e.timestamp.second, e.duration.total_seconds()) for e in r], "input len after:", len(l), "first mutated:", l0[0].duration, r[0].duration)
print(heartbeat_merge(ev(0,-1,a=1), ev(0,1,a=1), 5))
print(heartbeat_merge(ev(0,1,a=1), ev(1.0005,1,a=1), 0.0005), timedelta(seconds=0.0005), timedelta(seconds=0.0000005), timedelta(seconds=0.0000015))
