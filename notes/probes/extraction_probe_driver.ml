open Model
let rec z_of_int n = if n = 0 then Z0 else if n > 0 then Zpos (pos_of_int n) else Zneg (pos_of_int (-n))
and pos_of_int n = if n = 1 then XH else if n land 1 = 0 then XO (pos_of_int (n lsr 1)) else XI (pos_of_int (n lsr 1))
let rec int_of_pos = function XH -> 1 | XO p -> 2 * int_of_pos p | XI p -> 2 * int_of_pos p + 1
let int_of_z = function Z0 -> 0 | Zpos p -> int_of_pos p | Zneg p -> - (int_of_pos p)
let () =
  try while true do
    let line = input_line stdin in
    let nums = List.map int_of_string (String.split_on_char ' ' (String.trim line)) in
    match nums with
    | p :: rest ->
      let rec evs = function a :: b :: c :: t -> { ts = z_of_int a; dur = z_of_int b; lab = z_of_int c } :: evs t | _ -> [] in
      let out = reduce (z_of_int p) (evs rest) in
      print_endline (String.concat " " (List.map (fun e -> Printf.sprintf "%d %d %d" (int_of_z e.ts) (int_of_z e.dur) (int_of_z e.lab)) out))
    | [] -> ()
  done with End_of_file -> ()
