import os, sys, tempfile, logging, copy
sys.path.insert(0, "/repo")
logging.disable(logging.CRITICAL)
from datetime import datetime, timedelta, timezone
from aw_core.models import Event
from aw_datastore import Datastore
from aw_datastore.storages import MemoryStorage, SqliteStorage, PeeweeStorage
T0 = datetime(2020,1,1,tzinfo=timezone.utc)
def ev(s, d, **data): return Event(timestamp=T0+timedelta(seconds=s), duration=d, data=data)
def mk(kind):
    tmp = tempfile.mkdtemp()
    if kind == "memory": return Datastore(MemoryStorage, testing=True)
    if kind == "sqlite": return Datastore(SqliteStorage, testing=True, filepath=os.path.join(tmp, "s.db"))
    if kind == "peewee": return Datastore(PeeweeStorage, testing=True, filepath=os.path.join(tmp, "p.db"))
def dump(b): return sorted([(e.id, (e.timestamp-T0).total_seconds(), e.duration.total_seconds(), e.data) for e in b.get(-1)], key=lambda x: (x[0] is None, x[0]))
for kind in ["memory","sqlite","peewee"]:
    print("=====", kind)
    ds = mk(kind)
    A = ds.create_bucket("A","t","c","h"); B = ds.create_bucket("B","t","c","h")
    a1 = A.insert(ev(0,10,x="a1")); b1 = B.insert(ev(0,10,x="b1"))
    print("ids", a1.id, b1.id)
    # (a) replace in A with B's id
    try:
        A.replace(b1.id, ev(100,1,x="moved"))
    except Exception as ex: print(" replace foreign raised", type(ex).__name__)
    print(" (a) after A.replace(b1.id): A=",dump(A)," B=",dump(B))
    ds = mk(kind)
    A = ds.create_bucket("A","t","c","h"); B = ds.create_bucket("B","t","c","h")
    B.insert(ev(0,10,x="b1")); A.insert(ev(5,5,x="a1"))
    # (b) replace_last in A; B has same endtime (10)
    A.replace_last(ev(5,6,x="a1-new"))
    print(" (b) replace_last cross: A=",dump(A)," B=",dump(B))
    # (c) tie within a bucket: [0,10] then zero-length at 10
    ds = mk(kind); A = ds.create_bucket("A","t","c","h")
    A.insert(ev(0,10,x="long")); A.insert(ev(10,0,x="zero"))
    last = A.get(limit=1)[0]
    A.replace_last(ev(10,3,x="zero-ext"))
    print(" (c) limit1 was", last.data, "-> after replace_last:", dump(A))
    # (d) upsert with foreign id via insert_many
    ds = mk(kind)
    A = ds.create_bucket("A","t","c","h"); B = ds.create_bucket("B","t","c","h")
    a1=A.insert(ev(0,1,x="a1")); b1=B.insert(ev(0,1,x="b1")); 
    e = ev(50,1,x="ups"); e.id = b1.id
    try: A.insert([e])
    except Exception as ex: print(" upsert foreign raised", type(ex).__name__, ex)
    print(" (d) upsert foreign id: A=",dump(A)," B=",dump(B))
    # delete foreign
    print(" (d2) A.delete(b1.id) ->", A.delete(b1.id), dump(B))
    # (e) nested ordering
    ds = mk(kind); A = ds.create_bucket("A","t","c","h")
    A.insert(ev(0,100,x="outer")); A.insert(ev(10,1,x="inner"))
    print(" (e) order:", [e.data["x"] for e in A.get(-1)], "limit1:", A.get(1)[0].data["x"])
    # (f) eventcount vs get with window
    s, e_ = T0+timedelta(seconds=50), T0+timedelta(seconds=60)
    print(" (f) window get:", len(A.get(-1, s, e_)), "count:", A.get_eventcount(s, e_))
    # (g) id reuse
    ds = mk(kind); A = ds.create_bucket("A","t","c","h")
    i1=A.insert(ev(0,1,x=1)).id; i2=A.insert(ev(1,1,x=2)).id; A.delete(i2); i3=A.insert(ev(2,1,x=3)).id
    print(" (g) ids", i1,i2,i3)
    # insert single event carrying id
    e = ev(9,1,x="withid"); e.id = i1
    r = A.insert(e); print(" (h) insert_one with live id:", dump(A))
    e = ev(9,1,x="withid-dead"); e.id = 777
    try:
        r = A.insert(e); print(" (h2) insert_one with dead id:", dump(A))
    except Exception as ex: print(" (h2) raised", type(ex).__name__, ex)
