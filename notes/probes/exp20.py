import os, sys, tempfile, logging, random, copy
root=sys.argv[1]; sys.path.insert(0, root)
logging.disable(logging.CRITICAL)
os.environ["XDG_DATA_HOME"]=tempfile.mkdtemp()
from datetime import datetime, timedelta, timezone
from aw_core.models import Event
from aw_datastore import Datastore
from aw_datastore.storages import MemoryStorage, SqliteStorage, PeeweeStorage
T0 = datetime(2020,1,1,tzinfo=timezone.utc); MS=timedelta(milliseconds=1)
def mk(kind):
    tmp = tempfile.mkdtemp()
    if kind == "memory": return Datastore(MemoryStorage, testing=True)
    if kind == "sqlite": return Datastore(SqliteStorage, testing=True, filepath=os.path.join(tmp, "s.db"))
    if kind == "peewee": return Datastore(PeeweeStorage, testing=True, filepath=os.path.join(tmp, "p.db"))
def val(e): return (int((e.timestamp-T0)/MS), int(e.duration/MS), e.data.get("l"))
def mkev(v, id=None): return Event(id=id, timestamp=T0+v[0]*MS, duration=v[1]*MS, data={"l":v[2]})
seed=int(sys.argv[2]) if len(sys.argv)>2 else 1
for kind in ["memory","sqlite","peewee"]:
    rng=random.Random(seed); bad=0; N=300; nops=0
    for trial in range(N):
        ds=mk(kind) if trial%50==0 else ds
        names=["t%d_%d"%(trial,i) for i in range(rng.randint(1,3))]
        B={n: ds.create_bucket(n,"t","c","h") for n in names}
        ref={n: {} for n in names}   # id -> val
        fail=None
        for step in range(rng.randint(1,25)):
            n=rng.choice(names); b=B[n]; r=ref[n]
            op=rng.choice(["ins","ins","bulk","rep","replast","del","del_dead"])
            v=(rng.choice([0,1000,2000,3000]), rng.choice([0,0,1000,2000]), rng.choice("ab")); nops+=1
            try:
                if op=="ins":
                    e=b.insert(mkev(v)); 
                    if e.id in r: fail=("id reuse live",op); break
                    r[e.id]=v
                elif op=="bulk":
                    evs=[]; exp_new=[]
                    for k in range(rng.randint(0,4)):
                        vv=(rng.choice([0,1000,2000,3000]), rng.choice([0,1000]), rng.choice("ab"))
                        if r and rng.random()<0.4:
                            i=rng.choice(list(r)); evs.append(mkev(vv,id=i)); r[i]=vv
                        else: evs.append(mkev(vv)); exp_new.append(vv)
                    before=set(r); b.insert(evs)
                    now={e.id: val(e) for e in b.get(-1)}
                    newids=[i for i in now if i not in before]
                    if sorted(now[i] for i in newids)!=sorted(exp_new): fail=("bulk new mismatch",evs); break
                    for i in newids: r[i]=now[i]
                elif op=="rep" and r:
                    i=rng.choice(list(r)); b.replace(i, mkev(v)); r[i]=v
                elif op=="replast" and r:
                    last=b.get(limit=1)[0]
                    if last.id not in r or r[last.id]!=val(last): fail=("limit1 not live",op); break
                    if val(last)[0]!=max(x[0] for x in r.values()): fail=("limit1 not newest",op); break
                    b.replace_last(mkev(v)); r[last.id]=v
                elif op=="del" and r:
                    i=rng.choice(list(r)); res=b.delete(i); del r[i]
                    if not res: fail=("delete returned falsy",res); break
                elif op=="del_dead":
                    res=b.delete(987654)
                    if res: fail=("delete dead truthy",res); break
            except Exception as ex:
                fail=("exception",op,type(ex).__name__,str(ex)[:50]); break
            # compare all buckets
            for m in names:
                got={e.id: val(e) for e in B[m].get(-1)}
                if got!=ref[m]: fail=("state mismatch after",op,m,got,ref[m]); break
                if B[m].get_eventcount()!=len(ref[m]): fail=("count",op); break
                for i,vv in ref[m].items():
                    g=B[m].get_by_id(i)
                    if g is None or val(g)!=vv: fail=("get_by_id",i); break
            if fail: break
        if fail:
            bad+=1
            if bad<=3: print(kind,"FAIL",fail)
        for n in names: ds.delete_bucket(n)
    print(kind,"histories bad",bad,"of",N,"ops",nops)
