import os, sys, tempfile, logging, random, json, copy
sys.path.insert(0, "/repo"); logging.disable(logging.CRITICAL)
os.environ["XDG_DATA_HOME"]=tempfile.mkdtemp()
from datetime import datetime, timedelta, timezone
from aw_core.models import Event
from aw_datastore import Datastore
from aw_datastore.storages import MemoryStorage, SqliteStorage, PeeweeStorage
from aw_query import query
T0 = datetime(2020,1,1,tzinfo=timezone.utc)
def mk(kind):
    tmp = tempfile.mkdtemp()
    if kind == "memory": return Datastore(MemoryStorage, testing=True)
    if kind == "sqlite": return Datastore(SqliteStorage, testing=True, filepath=os.path.join(tmp, "s.db"))
    if kind == "peewee": return Datastore(PeeweeStorage, testing=True, filepath=os.path.join(tmp, "p.db"))
def dump(ds): return {b: (copy.deepcopy(ds[b].metadata()), [(e.id, e.timestamp, e.duration, copy.deepcopy(e.data)) for e in ds[b].get(-1)]) for b in ds.buckets()}
progs = [
 'e = query_bucket("w"); e = categorize(e, [[["Work"], {"regex": "a"}]]); e = tag(e, [["t", {"regex": "b"}]]); RETURN = e;',
 'e = query_bucket("w"); u = split_url_events(e); p = period_union(e, query_bucket("afk")); RETURN = [e, p];',
 'e = flood(query_bucket("w")); f = filter_period_intersect(e, query_bucket("afk")); m = merge_events_by_keys(f, ["app"]); RETURN = sort_by_duration(m);',
 'e = query_bucket("w"); c = chunk_events_by_key(e, "app"); s = simplify_window_titles(e, "title"); RETURN = limit_events(c, 2);',
 'e = query_bucket("w"); x = categorize(e, [[["A"], {"regex": "a"}]]); RETURN = nosuchfunction(x);',
 'e = query_bucket("w"); x = tag(e, [["t", {"regex": "("}]]); RETURN = x;',
 'b = find_bucket("af"); RETURN = query_bucket_eventcount(b);',
 'e = union_no_overlap(query_bucket("w"), query_bucket("afk")); RETURN = sum_durations(e);',
]
for kind in ["memory","sqlite","peewee"]:
    ds = mk(kind)
    w = ds.create_bucket("w","currentwindow","c","h", data={"k":[1]}); afk = ds.create_bucket("afk","afkstatus","c","h")
    rng = random.Random(2)
    w.insert([Event(timestamp=T0+timedelta(seconds=10*i), duration=rng.choice([0,5,10]), data={"app":rng.choice("ab"),"title":"(1) t%d"%i,"url":"http://www.x.org/p?q=1"}) for i in range(12)])
    afk.insert([Event(timestamp=T0+timedelta(seconds=25*i), duration=15, data={"status":"not-afk"}) for i in range(5)])
    bad=0
    for p in progs:
        for (s,e) in [(T0, T0+timedelta(seconds=200)), (T0+timedelta(seconds=33, microseconds=1500), T0+timedelta(seconds=71, microseconds=999999)), (T0+timedelta(seconds=500), T0+timedelta(seconds=600))]:
            s = s.astimezone(timezone(timedelta(hours=5, minutes=30)))
            before = dump(ds)
            try: r = query("q", p, s, e, ds); st="ok"
            except Exception as ex: st=type(ex).__name__
            if dump(ds)!=before: bad+=1; print(kind,"STORE CHANGED by",p[:50],st)
    # plumbing
    for (s,e) in [(T0+timedelta(seconds=33, microseconds=1500), T0+timedelta(seconds=71, microseconds=999999))]:
        q = query("q",'RETURN = [query_bucket("w"), query_bucket_eventcount("w")];', s, e, ds)
        direct = ds["w"].get(-1, s, e); dc = ds["w"].get_eventcount(s, e)
        ok = [ (x.id,x.timestamp,x.duration,x.data) for x in q[0]] == [(x.id,x.timestamp,x.duration,x.data) for x in direct] and q[1]==dc
        print(kind, "plumbing equal:", ok, len(direct), dc)
    print(kind, "C12 bad", bad)
