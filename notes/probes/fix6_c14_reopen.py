import os, sys, tempfile, shutil, random, json
REPO = os.environ.get("VERIF_REPO", "/repo")
sys.path.insert(0, REPO); sys.path.insert(1, "/verif")
from harness import common, c14
tmp = common.setup_impl_env()
rng = random.Random(0)
cases = [c for c in c14.corpus(rng) if c["kind"] in ("dotless-dir", "cut-title-second-bucket", "edge-text-everywhere", "edge-text-rewritten", "w10")]
work = tempfile.mkdtemp(prefix="c14try-", dir=tmp)
runs = c14.run_cases(cases, work)
for c, r in zip(cases, runs):
    bad = c14.oracle_case(c, r)
    ro = r.get("reopen")
    print(c["kind"], c["new_testing"], "exc", r["mig"]["exc"], "| reopen:", None if ro is None else (ro["exc"], [(k, len(v)) for k, v in ro.get("events", [])], [x for x in ro.get("migration_log", [])][:2]),
          "| pre", c14.in_precondition(c, r))
    for sig, text in bad: print("   ", sig, text[:330].encode("ascii", "backslashreplace").decode())
shutil.rmtree(work, ignore_errors=True)
