import os, sys, tempfile, logging, random
sys.path.insert(0, "/repo")
logging.disable(logging.CRITICAL)
from datetime import datetime, timedelta, timezone
from aw_core.models import Event
from aw_datastore import Datastore
from aw_datastore.storages import PeeweeStorage
tmp = tempfile.mkdtemp()
ds = Datastore(PeeweeStorage, testing=True, filepath=os.path.join(tmp,"p.db"))
A = ds.create_bucket("A","t","c","h"); B = ds.create_bucket("B","t","c","h")
T0 = datetime(2020,1,1,tzinfo=timezone.utc)
# negative clip?
random.seed(3); neg=0; worst=None
for i in range(300):
    s = T0 + timedelta(milliseconds=random.randrange(0,100000)); d = timedelta(microseconds=random.randrange(0,3000))
    e = A.insert(Event(timestamp=s, duration=d, data={}))
    for off in range(-1500, 1501, 100):
        ws = s + d + timedelta(microseconds=off); we = ws + timedelta(seconds=1)
        for g in A.get(-1, ws, we):
            if g.duration < timedelta(0):
                neg+=1; worst = (s.isoformat(), d, ws.isoformat(), g.timestamp.isoformat(), g.duration)
    A.delete(e.id)
print("negative-duration clipped events:", neg, worst)
# tie-break peewee: equal timestamps
ids=[]
for k in range(4):
    ids.append(A.insert(Event(timestamp=T0, duration=k, data={"k":k})).id)
    B.insert(Event(timestamp=T0, duration=k, data={"k":k}))
print("ids", ids, "get order:", [e.id for e in A.get(-1)], "limit1:", A.get(1)[0].id)
A.replace_last(Event(timestamp=T0, duration=9, data={"k":"new"}))
print("after replace_last:", [(e.id, e.data) for e in A.get(-1)])
import sqlite3
c = sqlite3.connect(os.path.join(tmp,"p.db"))
print(c.execute("select typeof(duration), duration, typeof(timestamp), timestamp from eventmodel limit 2").fetchall())
print(c.execute("explain query plan select * from eventmodel where bucket_id=1 order by timestamp desc limit 1").fetchall())
print(c.execute("select sql from sqlite_master").fetchall())
