import os, sys, logging, random, itertools, copy
sys.path.insert(0, "/repo")
logging.disable(logging.CRITICAL)
from datetime import datetime, timedelta, timezone
from aw_core.models import Event
from aw_transform import flood
T0 = datetime(2020,1,1,tzinfo=timezone.utc)
S = timedelta(seconds=1)
def ev(s,e,lab): return Event(timestamp=T0+s*S, duration=(e-s)*S, data={"l":lab})
def iv(e): return ((e.timestamp-T0)/S, (e.timestamp+e.duration-T0)/S)
rng = random.Random(11)
bad=0; N=60000
for t in range(N):
    n = rng.randint(0,5)
    # distinct timestamps, non-overlapping (end_i <= start_{i+1}), zero-length allowed
    starts = sorted(rng.sample(range(0,40,1), n))
    evs=[]
    for i,s in enumerate(starts):
        mx = (starts[i+1]-s) if i+1<n else 6
        e = s + rng.choice([0, rng.randint(0,mx), mx])
        evs.append((s,e,rng.choice("ab")))
    pt = rng.choice([0,1,2,3,5,0.5])
    inp=[ev(*x) for x in evs]; rng.shuffle(inp); inp0=copy.deepcopy(inp)
    out = flood(inp, pulsetime=pt)
    o = sorted((iv(r)[0], iv(r)[1], r.data["l"]) for r in out)
    ok = inp==inp0
    why=[]
    # positive-length, non-overlapping
    if not all(b>a for a,b,_ in o): why.append("nonpos")
    if not all(o[i][1] <= o[i+1][0] for i in range(len(o)-1)): why.append("overlap")
    # use half-unit cells for coverage (pt 0.5) -> grid of 0.5
    def cells(ivs): 
        c=set()
        for a,b in ivs:
            x=a
            while x<b: c.add(x); x+=0.5
        return c
    cin = cells([(a,b) for a,b,_ in evs]); cout = cells([(a,b) for a,b,_ in o])
    if not cin<=cout: why.append("lostcover")
    for lab in "ab":
        if not cells([(a,b) for a,b,l in evs if l==lab]) <= cells([(a,b) for a,b,l in o if l==lab]): why.append("label-lost-"+lab)
    # gaps
    short=set(); 
    for i in range(n-1):
        g0,g1 = evs[i][1], evs[i+1][0]
        if g1-g0 <= pt:
            short |= cells([(g0,g1)])
            if not cells([(g0,g1)]) <= cout: why.append("short-gap-open")
        else:
            if cells([(g0,g1)]) & cout: why.append("long-gap-touched")
    if not (cout - cin) <= short: why.append("new-outside-short")
    if why or not ok:
        bad+=1
        if bad<=6: print("FLOOD bad", evs, "pt",pt, "->", o, why, ok)
print("flood bad:", bad, "of", N)
