import os, sys, tempfile, logging
tmp = tempfile.mkdtemp()
os.environ["XDG_CONFIG_HOME"] = tmp
sys.path.insert(0, "/repo")
logging.disable(logging.CRITICAL)
import tomlkit, json
from aw_core.config import load_config_toml, _merge, _comment_out_toml
from aw_core import dirs
def plain(x):
    if isinstance(x, dict): return {str(k): plain(v) for k,v in x.items()}
    if isinstance(x, list): return [plain(v) for v in x]
    if isinstance(x, bool): return bool(x)
    if isinstance(x, int): return int(x)
    if isinstance(x, float): return float(x)
    if isinstance(x, str): return str(x)
    return repr(x)
def run(app, default, user=None):
    d = dirs.get_config_dir(app); p = os.path.join(d, app+".toml")
    if user is not None: open(p,"w").write(user)
    before = open(p).read() if os.path.exists(p) else None
    try: r = plain(load_config_toml(app, default))
    except Exception as ex: r = ("EXC", type(ex).__name__, str(ex)[:80])
    after = open(p).read()
    return r, (before==after if before is not None else after)
default = '''
# comment
top = 1
[server]
host = "localhost"
port = 5600
[server.tls]
enabled = false
ciphers = ["a", "b"]
[client.inner.deep]
x = 1.5
'''
print(run("a1", default))
print(run("a1", default))  # second load w/ commented file
print(run("a2", default, '[server]\nport = 1\n[server.tls]\nextra = "u"\n[newsec]\nk = [1,2]\n'))
print(run("a3", default, 'server.port = 7\nserver.tls.enabled = true\n'))
print(run("a4", default, '[server.tls]\nenabled = true\n[other]\nz=1\n[server]\nhost="h2"\n'))  # out-of-order
print(run("a5", default, 'server = 5\n'))
print(run("a6", default, 'top = {a = 1}\n[client]\ninner = {deep = {x = 9, y = 2}}\n'))
dotted_default = 'a.b = 1\na.c = 2\n[t]\nx.y = 3\n'
print(run("a7", dotted_default)); print(run("a7", dotted_default))
aot = '[[srv]]\nname="x"\n[[srv]]\nname="y"\n'
print(run("a8", aot)); print(run("a8", aot))
ml = 'arr = [\n  1,\n  2,\n]\ns = """\n[notheader]\n"""\n'
print(run("a9", ml)); print(run("a9", ml))
