#!/bin/bash
# ./run.sh <quick|thorough> <Cxx>   — entry point of every MANIFEST command (cwd /verif)
cd "$(dirname "$0")" || exit 2
tier="${1:-quick}"; prop="${2:?property id}"
export VERIF_TIER="$tier"
export PYTHONHASHSEED=0 PYTHONDONTWRITEBYTECODE=1 AW_CORE_VERIF=1
export VERIF_REPO="${VERIF_REPO:-/repo}"
export PYTHONPATH="$VERIF_REPO:$(pwd)"
mod="harness.$(echo "$prop" | tr 'A-Z' 'a-z')"
# A verdict is "exit 0" or "exit 1 with a VIOLATION line".  A harness process that dies without a verdict
# (an infrastructure hiccup: a killed worker, a full disk, a locked scratch file) is not a verdict: keep its
# output and run the check once more; the second run's status is final.
out="$(mktemp)"
/venv/bin/python -m "$mod" "$tier" 2>&1 | tee "$out"; rc=${PIPESTATUS[0]}
if [ "$rc" -ne 0 ] && ! grep -q '^VIOLATION' "$out"; then
  mkdir -p build/crash-logs && cp "$out" "build/crash-logs/$prop-$tier-$(date +%s).log"
  echo "run.sh: the harness ended with status $rc without a verdict (output kept under build/crash-logs); running it once more" >&2
  /venv/bin/python -m "$mod" "$tier"; rc=$?
fi
rm -f "$out"
exit "$rc"
