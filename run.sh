#!/bin/bash
# ./run.sh <quick|thorough> <Cxx>   — entry point of every MANIFEST command (cwd /verif)
cd "$(dirname "$0")" || exit 2
tier="${1:-quick}"; prop="${2:?property id}"
export VERIF_TIER="$tier"
export PYTHONHASHSEED=0 PYTHONDONTWRITEBYTECODE=1 AW_CORE_VERIF=1
export VERIF_REPO="${VERIF_REPO:-/repo}"
export PYTHONPATH="$VERIF_REPO:$(pwd)"
mod="harness.$(echo "$prop" | tr 'A-Z' 'a-z')"
exec /venv/bin/python -m "$mod" "$tier"
