#!/bin/bash
# ./run.sh <quick|thorough> <Cxx>   — entry point of every MANIFEST command (cwd /verif)
cd "$(dirname "$0")" || exit 2
tier="${1:-quick}"; prop="${2:?property id}"
export VERIF_TIER="$tier"
export PYTHONHASHSEED=0 PYTHONDONTWRITEBYTECODE=1 AW_CORE_VERIF=1
# The library must not depend on the process's local time zone: the checks run in a zone that is not UTC and has
# DST (POSIX TZ string, needs no tz database); VERIF_TZ overrides.
export TZ="${VERIF_TZ:-CET-1CEST,M3.5.0,M10.5.0/3}"
export VERIF_REPO="${VERIF_REPO:-/repo}"
export PYTHONPATH="$VERIF_REPO:$(pwd)"
mod="harness.$(echo "$prop" | tr 'A-Z' 'a-z')"
# Everything a run creates with tempfile (storage files, per-worker directories, fresh interpreters) goes into one
# directory of this run and is removed when the run ends, whatever way the harness processes exit.
run_tmp="$(mktemp -d "${TMPDIR:-/tmp}/awverif-run-XXXXXX")" || exit 2
chmod 755 "$run_tmp"   # C20's fault stream reads a file as an unprivileged uid: the path must stay traversable
export TMPDIR="$run_tmp"
trap 'rm -rf "$run_tmp"' EXIT
# A verdict is "exit 0" or "exit 1 with a VIOLATION line".  A harness process that dies without a verdict
# (an infrastructure hiccup: a killed worker, a full disk, a locked scratch file) is not a verdict: keep its
# output and run the check once more; the second run's status is final.
out="$(mktemp)"
/venv/bin/python -m "$mod" "$tier" 2>&1 | tee "$out"; rc=${PIPESTATUS[0]}
if [ "$rc" -ne 0 ] && ! grep -q '^VIOLATION' "$out"; then
  mkdir -p build/crash-logs && cp "$out" "build/crash-logs/$prop-$tier-$(date +%s).log"
  echo "run.sh: the harness ended with status $rc without a verdict (output kept under build/crash-logs); running it once more" >&2
  /venv/bin/python -m "$mod" "$tier" 2>&1 | tee "$out"; rc=${PIPESTATUS[0]}
  if [ "$rc" -ne 0 ] && ! grep -q '^VIOLATION' "$out"; then
    # The harness cannot complete against this tree at all (typically: the implementation now raises or returns
    # a shape the driver cannot even read).  The correspondence between model and code is then not established,
    # which the protocol reports as a violation without a failing input; the replay names what no longer checks.
    rdir="${VERIF_REPLAY_DIR:-replays}/$prop"; mkdir -p "$rdir"
    rp="$(pwd)/$rdir/harness-died-$(date +%s).json"
    /venv/bin/python - "$out" "$rp" "$prop" "$tier" <<'PY'
import json, sys
out, rp, prop, tier = sys.argv[1:5]
tail = open(out, errors="replace").read()[-4000:]
json.dump({"property": prop, "kind": "no-failing-input-found", "tier": tier,
           "no_longer_checks": ["correspondence: the harness could not complete its run against this tree (twice); "
                                "the tie between model and implementation is not established"],
           "harness_output_tail": tail, "rerun": f"./run.sh {tier} {prop}"}, open(rp, "w"), indent=1)
PY
    echo "VIOLATION property=$prop replay=$rp no-failing-input-found"
    rc=1
  fi
fi
rm -f "$out"
exit "$rc"
