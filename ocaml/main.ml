(* Generic driver: one s-expression of integers per input line, one per output line.
   The model is Model.driver_entry : sexp -> sexp, extracted from Coq with Z kept as
   the extracted inductive; this file only converts decimal text <-> Z. *)
open Model

let rec pos_of_int n =
  if n = 1 then XH
  else if n land 1 = 0 then XO (pos_of_int (n lsr 1))
  else XI (pos_of_int (n lsr 1))
let z_of_int n =
  if n = 0 then Z0 else if n > 0 then Zpos (pos_of_int n) else Zneg (pos_of_int (-n))
let rec int_of_pos = function
  | XH -> 1 | XO p -> 2 * int_of_pos p | XI p -> 2 * int_of_pos p + 1
let int_of_z = function Z0 -> 0 | Zpos p -> int_of_pos p | Zneg p -> - (int_of_pos p)

let parse (s : string) : sexp =
  let n = String.length s in
  let pos = ref 0 in
  let rec skip () = if !pos < n && (s.[!pos] = ' ' || s.[!pos] = '\t') then (incr pos; skip ()) in
  let rec item () =
    skip ();
    if !pos >= n then failwith "eof"
    else if s.[!pos] = '(' then begin
      incr pos;
      let rec items acc =
        skip ();
        if !pos >= n then failwith "unclosed"
        else if s.[!pos] = ')' then (incr pos; List.rev acc)
        else items (item () :: acc) in
      L (items [])
    end else begin
      let start = !pos in
      while !pos < n && s.[!pos] <> ' ' && s.[!pos] <> '(' && s.[!pos] <> ')' do incr pos done;
      A (z_of_int (int_of_string (String.sub s start (!pos - start))))
    end in
  item ()

let rec print buf = function
  | A z -> Buffer.add_string buf (string_of_int (int_of_z z))
  | L l ->
    Buffer.add_char buf '(';
    List.iteri (fun i x -> if i > 0 then Buffer.add_char buf ' '; print buf x) l;
    Buffer.add_char buf ')'

let () =
  let buf = Buffer.create 4096 in
  try while true do
    let line = input_line stdin in
    Buffer.clear buf;
    (match (try Some (parse line) with _ -> None) with
     | Some s -> print buf (driver_entry s)
     | None -> Buffer.add_string buf "(-998)");
    print_endline (Buffer.contents buf)
  done with End_of_file -> ()
