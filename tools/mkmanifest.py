#!/usr/bin/env python3
"""Assemble MANIFEST.json from manifest.d/*.json fragments (one per claimed property) and
manifest.d/_not_applicable.json."""
import glob
import json
import os

root = os.path.dirname(os.path.dirname(os.path.abspath(__file__)))
checks = []
ready = set(json.load(open(os.path.join(root, "manifest.d", "_ready.json"))))
for f in sorted(glob.glob(os.path.join(root, "manifest.d", "C*.json"))):
    c = json.load(open(f))
    pid = c["property_id"]
    if pid not in ready:
        continue
    c.setdefault("quick_cmd", f"./run.sh quick {pid}")
    c.setdefault("thorough_cmd", f"./run.sh thorough {pid}")
    c.setdefault("evidence_file", f"/verif/evidence/{pid}.json")
    c.setdefault("replay_cmd_template", "/venv/bin/python -m harness.replay {path}")
    c.setdefault("engine", "coq-model")
    checks.append({k: v for k, v in c.items() if not k.startswith("_")})
na_path = os.path.join(root, "manifest.d", "_not_applicable.json")
na = json.load(open(na_path)) if os.path.exists(na_path) else []
claimed = {c["property_id"] for c in checks}
na = [x for x in na if x["property_id"] not in claimed]
hooks_path = os.path.join(root, "manifest.d", "_hooks.json")
hooks = json.load(open(hooks_path))
m = {
    "version": 1,
    "setup_cmd": "./setup.sh",
    "hooks": hooks,
    "engines": [{
        "name": "coq-model",
        "path": "/verif/coq",
        "serves_properties": sorted(claimed),
        "kind_free_text": "Coq 8.16.1 development: executable Gallina models (coq/Model), proofs (coq/Proofs), "
                          "property theorems (coq/Props), kernels regenerated from /repo (coq/Gen) with bridge "
                          "lemmas (coq/Bridge); models extracted to OCaml (coq/Extract, ocaml/main.ml) and run "
                          "differentially against /repo by harness/*.py",
    }],
    "checks": checks,
    "not_applicable": na,
    "notes": "Every check: regenerate coq/Gen from /repo, build the property's theorems (full .vo), run model and "
             "implementation on the same generated cases, evaluate the property statement on the implementation. "
             "See DESIGN.md.",
}
json.dump(m, open(os.path.join(root, "MANIFEST.json"), "w"), indent=1)
print(f"{len(checks)} checks, {len(na)} not applicable")
