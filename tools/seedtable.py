#!/usr/bin/env python3
"""Regenerate the seeded-changes table of DESIGN.md section 0.5 from seeded/*/{meta,result}.json."""
import glob
import json
import os
import re

root = os.path.dirname(os.path.dirname(os.path.abspath(__file__)))
rows = []
for d in sorted(glob.glob(os.path.join(root, "seeded", "C*-*"))):
    name = os.path.basename(d)
    meta = json.load(open(os.path.join(d, "meta.json")))
    res_p = os.path.join(d, "result.json")
    verdict = "not run yet"
    if os.path.exists(res_p):
        res = json.load(open(res_p))["results"]
        parts = []
        for prop, r in res.items():
            if r.get("violation_line"):
                det = r.get("detail") or {}
                kind = det.get("kind")
                if kind == "failing-input":
                    how = "failing input (" + (det.get("signature") or "").split(":", 1)[-1][:60] + ")"
                else:
                    nl = (det.get("no_longer_checks") or [""])[0]
                    how = "no-failing-input-found (" + nl[:70].replace("|", "/") + ")"
                parts.append(f"{prop}: caught — {how}")
            else:
                parts.append(f"{prop}: missed")
        verdict = "; ".join(parts)
    summ = re.sub(r"\s+", " ", meta.get("summary", ""))[:150].replace("|", "/")
    rows.append(f"| {name} | {summ} | {verdict} |")
table = "| seed | change | verdict of the quick check(s) |\n|---|---|---|\n" + "\n".join(rows)
p = os.path.join(root, "DESIGN.md")
s = open(p).read()
if "SEEDTABLE" in s:
    s = s.replace("SEEDTABLE", "<!-- seedtable:begin -->\n" + table + "\n<!-- seedtable:end -->")
else:
    s = re.sub(r"<!-- seedtable:begin -->.*?<!-- seedtable:end -->",
               lambda m: "<!-- seedtable:begin -->\n" + table + "\n<!-- seedtable:end -->", s, flags=re.S)
open(p, "w").write(s)
print(len(rows), "seeds")
