#!/usr/bin/env python3
"""Intake and evaluation of seeded regressions.

  seedcheck.py intake <prop> <seed_src_dir> <name>   verify a sub-agent's seed in a fresh scratch worktree
                                                     (tests 156 passed with the patch, demo exits 1 with it and 0
                                                     without) and, if confirmed, keep it as seeded/<name>/
  seedcheck.py run <name> [prop ...]                 run the quick checks of the named properties (default: the
                                                     seed's own property) against a scratch worktree with the
                                                     patch applied (VERIF_REPO), record the outcome in
                                                     seeded/<name>/result.json
While builder agents work against /repo the patched tree is a scratch worktree passed through VERIF_REPO; the
final pass applies the patch to /repo itself (`--in-repo`) and undoes it straight afterwards."""
import json
import os
import re
import shutil
import subprocess
import sys
import tempfile
import time

VERIF = os.path.dirname(os.path.dirname(os.path.abspath(__file__)))
PY = "/venv/bin/python"


def sh(cmd, cwd=None, env=None, timeout=3600):
    p = subprocess.run(cmd, cwd=cwd, shell=True, stdout=subprocess.PIPE, stderr=subprocess.STDOUT, text=True,
                       env=env, timeout=timeout)
    return p.returncode, p.stdout


def scratch():
    d = tempfile.mkdtemp(prefix="seedwt-", dir="/tmp")
    os.rmdir(d)
    rc, out = sh(f"git -C /repo worktree add -q --detach {d} HEAD")
    if rc != 0:
        raise RuntimeError(out)
    return d


def drop(d):
    sh(f"git -C /repo worktree remove --force {d}")
    shutil.rmtree(d, ignore_errors=True)


def clean_env(private=None):
    env = {k: v for k, v in os.environ.items() if not k.startswith("XDG_") and k != "PYTHONPATH"}
    env["PYTHONDONTWRITEBYTECODE"] = "1"
    if private:  # the suite and the demos share ~/.local/share/activitywatch otherwise (concurrent runs lock it)
        for k in ("DATA", "CONFIG", "CACHE"):
            env[f"XDG_{k}_HOME"] = os.path.join(private, f".xdg-{k.lower()}")
    return env


def intake(prop, src, name):
    dst = os.path.join(VERIF, "seeded", name)
    patch = os.path.join(src, "patch.diff")
    demo = os.path.join(src, "demo.py")
    meta = json.load(open(os.path.join(src, "meta.json")))
    wt = scratch()
    ran = []
    try:
        rc, out = sh(f"{PY} {demo}", cwd=wt, env=clean_env(wt))
        ran.append({"cmd": "demo.py on unmodified tree", "exit": rc})
        if rc != 0:
            print(f"REJECT {name}: demo fails on the unmodified tree\n{out[-600:]}")
            return 1
        rc, out = sh(f"git apply {patch}", cwd=wt)
        if rc != 0:
            print(f"REJECT {name}: patch does not apply\n{out[-600:]}")
            return 1
        rc, out = sh(f"{PY} -m pytest -q -p no:cacheprovider -x", cwd=wt, env=clean_env(wt))
        m = re.search(r"(\d+) passed", out)
        ran.append({"cmd": "pytest with patch", "exit": rc, "passed": int(m.group(1)) if m else 0})
        if rc != 0 or not m or int(m.group(1)) != 156:
            print(f"REJECT {name}: test suite does not pass with the patch\n{out[-600:]}")
            return 1
        rc, out = sh(f"{PY} {demo}", cwd=wt, env=clean_env(wt))
        ran.append({"cmd": "demo.py with patch", "exit": rc, "output": out[-400:]})
        if rc != 1:
            print(f"REJECT {name}: demo exits {rc} with the patch (expected 1)\n{out[-600:]}")
            return 1
    finally:
        sh("find . -name __pycache__ -type d -exec rm -rf {} +", cwd=wt)
        drop(wt)
    os.makedirs(dst, exist_ok=True)
    shutil.copy(patch, os.path.join(dst, "patch.diff"))
    shutil.copy(demo, os.path.join(dst, "demo.py"))
    meta.update({"property": prop, "breaks": prop, "confirmed": ran,
                 "confirmed_how": "fresh scratch worktree of /repo HEAD: demo exit 0 unmodified; git apply; "
                                  "pytest 156 passed; demo exit 1"})
    json.dump(meta, open(os.path.join(dst, "meta.json"), "w"), indent=1)
    print(f"KEPT {name}: {meta.get('summary')}")
    return 0


def run(name, props, in_repo=False):
    d = os.path.join(VERIF, "seeded", name)
    meta = json.load(open(os.path.join(d, "meta.json")))
    props = props or [meta["property"]]
    patch = os.path.join(d, "patch.diff")
    results = {}
    if in_repo:
        wt = "/repo"
        rc, out = sh(f"git -C /repo apply {patch}")
        if rc != 0:
            raise RuntimeError(out)
    else:
        wt = scratch()
        rc, out = sh(f"git apply {patch}", cwd=wt)
        if rc != 0:
            drop(wt)
            raise RuntimeError(out)
    try:
        for p in props:
            env = dict(os.environ)
            env["VERIF_REPO"] = wt
            env["VERIF_EVIDENCE_DIR"] = os.path.join(d, "evidence")
            t0 = time.time()
            rc, out = sh(f"./run.sh quick {p}", cwd=VERIF, env=env, timeout=3600)
            vio = [l for l in out.splitlines() if l.startswith("VIOLATION")]
            detail = None
            if vio:
                m = re.search(r"replay=(\S+)", vio[0])
                if m and os.path.exists(m.group(1)):
                    r = json.load(open(m.group(1)))
                    detail = {"kind": r.get("kind"), "signature": r.get("signature"),
                              "description": (r.get("description") or "")[:300],
                              "no_longer_checks": (r.get("no_longer_checks") or r.get("also_broken") or [])[:3]}
            results[p] = {"exit": rc, "violation_line": vio[0] if vio else None, "detail": detail,
                          "wall_s": round(time.time() - t0, 1)}
            print(f"{name} vs {p}: exit {rc} {'CAUGHT ' + vio[0] if vio else 'MISSED'}")
    finally:
        if in_repo:
            sh("git -C /repo checkout -- .")
        else:
            drop(wt)
        # restore the Gen files / bridges for the real tree
        sh(f"{PY} {VERIF}/translate/py2v.py /repo {VERIF}/coq/Gen")
    json.dump({"ran": "quick checks with VERIF_REPO=<scratch worktree with patch applied>" if not in_repo
               else "quick checks with the patch applied to /repo (undone afterwards)",
               "results": results}, open(os.path.join(d, "result.json"), "w"), indent=1)
    return 0


def reverify(names):
    """Re-confirm kept seeds against /repo's current HEAD (fix: commits may have landed since intake)."""
    import concurrent.futures
    names = names or sorted(os.listdir(os.path.join(VERIF, "seeded")))

    def one(name):
        d = os.path.join(VERIF, "seeded", name)
        wt = scratch()
        try:
            env = clean_env()
            env["XDG_DATA_HOME"] = os.path.join(wt, ".xdg-data")
            env["XDG_CONFIG_HOME"] = os.path.join(wt, ".xdg-config")
            env["XDG_CACHE_HOME"] = os.path.join(wt, ".xdg-cache")
            rc0, _ = sh(f"{PY} {d}/demo.py", cwd=wt, env=env)
            rc, out = sh(f"git apply {d}/patch.diff", cwd=wt)
            if rc != 0:
                return name, "patch-does-not-apply", {}
            rc1, out = sh(f"{PY} -m pytest -q -p no:cacheprovider -x", cwd=wt, env=env)
            m = re.search(r"(\d+) passed", out)
            passed = int(m.group(1)) if m else 0
            rc2, _ = sh(f"{PY} {d}/demo.py", cwd=wt, env=env)
            ok = rc0 == 0 and rc1 == 0 and passed == 156 and rc2 == 1
            return name, "ok" if ok else "changed", {"demo_unmodified": rc0, "pytest_exit": rc1, "passed": passed, "demo_patched": rc2}
        finally:
            drop(wt)
    head = sh("git -C /repo log --format=%h -1")[1].strip()
    with concurrent.futures.ThreadPoolExecutor(max_workers=6) as ex:
        for name, status, detail in ex.map(one, names):
            mp = os.path.join(VERIF, "seeded", name, "meta.json")
            meta = json.load(open(mp))
            meta["reverified"] = {"repo_head": head, "status": status, **detail}
            json.dump(meta, open(mp, "w"), indent=1)
            print(name, status, detail)
    return 0


if __name__ == "__main__":
    if sys.argv[1] == "intake":
        sys.exit(intake(sys.argv[2], sys.argv[3], sys.argv[4]))
    if sys.argv[1] == "reverify":
        sys.exit(reverify(sys.argv[2:]))
    if sys.argv[1] == "run":
        args = [a for a in sys.argv[2:] if a != "--in-repo"]
        sys.exit(run(args[0], args[1:], in_repo="--in-repo" in sys.argv))
