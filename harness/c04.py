"""C04 — operations addressed to one bucket never change any other bucket.
The C02 history machinery with the malformed stream switched on (ids of other buckets, dead
ids, missing buckets, replace_last on an empty bucket, re-creating an existing bucket, falsy
update values).  Oracle: every other bucket's dump (metadata + events incl. ids) is identical
before and after each op, whether the op succeeded or raised.  Correspondence: the models of
Model/{Mem,Sqlite,Peewee}Store.v predict every result (error class included) and every dump."""
import sys

from . import common
from . import store_hist as sh
from .common import Check

RULE = ("deterministic corpus of ill-addressed operations (every write op x {foreign, dead, deleted, live} id x "
        "{populated, empty, missing} bucket) then seeded random histories of 1-40 ops over 1-3 buckets, half of "
        "them with the malformed stream on; every history is run on memory, sqlite (temp file) and peewee (temp "
        "file); non-trivial = a run in which a write op was issued while another bucket held events")


def main(argv=None):
    ck = Check("C04", argv)
    common.setup_impl_env()
    ck.run_witnesses(["w05", "w06", "w09", "w16"])
    ck.prove()
    have_driver = ck.driver("ExC02")

    n_random = 800 if ck.tier == "quick" else 40000
    hists = (sh.malformed_boundary_histories() + sh.boundary_histories()[::6]
             + [sh.gen_history(ck.rng, malformed=(i % 4 != 3)) for i in range(n_random)])
    results = sh.run_impl_batch(hists)

    for (sym, univ), r in zip(hists, results):
        for be in sh.BACKENDS:
            run = r[be]
            before = [[] for _ in univ]
            interesting = False
            for j, (op, step) in enumerate(zip(run["ops"], run["steps"])):
                res, after = step[0], step[1:]
                tgt = None if op[0] == 3 else op[1]
                status = "ok" if res[0] == 0 else sh.ERRNAME.get(res[1], "err")
                ck.count(f"{be}:{sh.OPNAME[op[0]]}:{status}")
                others_populated = any(v != [] and v[0][1] for b, v in zip(univ, before) if b != tgt)
                if op[0] in sh.WRITE_CODES and others_populated:
                    interesting = True
                    # which kind of id did the op carry?
                    ids = []
                    if op[0] in (7, 9):
                        ids = [op[2]]
                    elif op[0] == 5 and op[2][0]:
                        ids = op[2][0]
                    elif op[0] == 6:
                        ids = [e[0][0] for e in op[2] if e[0]]
                    for i in ids:
                        here = tgt in univ and i in sh.live_ids(before[univ.index(tgt)])
                        elsewhere = any(i in sh.live_ids(v) for b, v in zip(univ, before) if b != tgt)
                        ck.count("id-" + ("live-here" if here else "foreign" if elsewhere else "dead"))
                changed = [b for b, v0, v1 in zip(univ, before, after) if b != tgt and v0 != v1]
                if changed:
                    b = changed[0]
                    ck.failing_input(f"C04:{be}:{sh.OPNAME[op[0]]}-changes-other-bucket",
                                     f"{be}: {sh.describe(op)} ({status}) changed bucket {b}: "
                                     f"{before[univ.index(b)]} -> {after[univ.index(b)]}",
                                     {"backend": be, "history": [sh.describe(o) for o in run["ops"][:j + 1]],
                                      "wire_ops": run["ops"][:j + 1], "universe": univ,
                                      "other_bucket": b, "before": before[univ.index(b)], "after": after[univ.index(b)],
                                      "how": "harness.store_hist.apply_op on a fresh storage, ops in order"})
                    break
                before = after
            ck.note_case([be, run["ops"]], nontrivial=interesting)
        if len(ck.samples) < 4 and len(r["peewee"]["ops"]) >= 8:
            ck.sample({"backend": "peewee", "history": [sh.describe(o) for o in r["peewee"]["ops"][:12]],
                       "results": [s[0] for s in r["peewee"]["steps"][:12]]})

    if have_driver:
        flat = [(be, univ, r[be]["ops"]) for (sym, univ), r in zip(hists, results) for be in sh.BACKENDS]
        model = sh.run_model_batch("C04", flat)
        k = 0
        for (sym, univ), r in zip(hists, results):
            for be in sh.BACKENDS:
                mo = model[k]
                k += 1
                steps = r[be]["steps"]
                if mo is None or len(mo) != len(steps):
                    ck.disagreement(be, "driver could not decode the history", {"ops": r[be]["ops"]})
                    continue
                for j, (ms, is_) in enumerate(zip(mo, steps)):
                    if ms != is_:
                        ck.disagreement(be, f"op {j} {sh.describe(r[be]['ops'][j])}: model and {be} differ",
                                        {"backend": be, "history": [sh.describe(o) for o in r[be]["ops"][:j + 1]],
                                         "wire_ops": r[be]["ops"][:j + 1], "universe": univ, "model": ms, "impl": is_})
                        break
    ck.assumptions += [
        "strings/data enter the models as labels (0 = the falsy value of its kind); identity time codec",
        "other buckets are observed through the storage API (get_metadata + get_events(-1)), sorted by id",
        "the universe of every history contains a bucket that is never created, so writes to a missing bucket "
        "are observed too",
    ]
    return ck.finish(RULE)


if __name__ == "__main__":
    sys.exit(main())
