"""C04 — operations addressed to one bucket never change any other bucket.
The C02 history machinery with the malformed stream switched on (ids of other buckets, dead
ids, missing buckets, replace_last on an empty bucket, re-creating an existing bucket, falsy
update values).  Oracle: every other bucket's dump (metadata + events incl. ids) is identical
before and after each op, whether the op succeeded or raised.  Correspondence: the models of
Model/{Mem,Sqlite,Peewee}Store.v predict every result (error class included) and every dump."""
import sys

from . import common
from . import store_hist as sh
from . import tieb_stores
from .common import Check

RULE = ("(a) deterministic corpus of ill-addressed operations (every write op x {foreign, dead, deleted, live} id x "
        "{populated, empty, missing} bucket; replace / replace_last / insert / one-element bulk call whose event "
        "ARGUMENT carries an id other than the addressed one: foreign, dead, deleted, another live one; one Event "
        "OBJECT handed to calls on two and three different buckets, first call x second call over insert / bulk / "
        "replace / replace_last, and objects the store handed back passed to a write on another bucket; the caller "
        "changing in place the object it passed to each kind of write / got from each kind of read) on both "
        "layers (storage object; public Datastore / Bucket API), then seeded random histories of 1-40 ops over 1-3 "
        "buckets, three quarters of them with the malformed stream on, half of them passing Event objects again "
        "(30 % of the event arguments), alternating between the layers; every history is run on memory, sqlite "
        "(temp file) and peewee (temp file); non-trivial = a run in which a write op was issued while another bucket held events; (b) histories whose "
        "tail of 2-11 ops (writes to populated buckets interleaved with rejected / raising ops addressed to a missing "
        "bucket or carrying dead ids) is NOT read back op by op - reads commit on sqlite - with one dump at the end, "
        "SqliteStorage in its default lazy-commit mode; (c) scenarios of harness/store_sched.py, judged by the property "
        "statement alone: an engine call - a write statement, a read, the COMMIT - of an event-level or bucket-level "
        "operation fails once (raised before the engine / refused by the engine's authorizer) and the caller carries on "
        "with the same object (peewee, sqlite; seeded sample of the position grid); two storage / Datastore objects on ONE "
        "file used alternately (peewee, sqlite, memory through two Datastores; deterministic + seeded random); two "
        "threads on one storage / Datastore object with thread A suspended inside the 1st..3rd engine call of its "
        "operation (peewee execute_sql; memory: an Event item lookup / copy.deepcopy) while thread B runs whole "
        "operations (the retried delete + insert elsewhere always, seeded sample of the rest)")


def main(argv=None):
    ck = Check("C04", argv)
    common.setup_impl_env()
    ck.run_witnesses(["w05", "w06", "w09", "w16"])
    # the histories also run through Datastore / Bucket: theorems of that layer (Props/C04ds.v) and its tie B
    ck.prove(extra_targets=["Props/C04ds.v"] + tieb_stores.STORES_DS[0], gen_kernels=tieb_stores.STORES_DS[1])   # ties A + B
    have_driver = ck.driver("ExC02ds")     # ExC02 + the Datastore / Bucket layer (case tag 30)

    # every history is a 4-tuple (symbolic ops, universe, None, layer); layer = calls on the storage object, or
    # calls through the public Datastore / Bucket API
    n_random = 800 if ck.tier == "quick" else 40000
    mal = sh.malformed_boundary_histories() + sh.recreate_histories()
    hists = ([(sym, univ, None, "storage") for sym, univ in mal + sh.boundary_histories()[::6]]
             + [(sym, univ, None, "datastore") for sym, univ in mal[1::2]]
             + [(sym, univ, None, layer) for layer in sh.LAYERS
                for sym, univ in sh.carried_id_histories() + sh.reuse_histories() + sh.touch_histories()])
    for i in range(n_random):
        sym, univ = sh.gen_history(ck.rng, malformed=(i % 4 != 3), reuse=0.3 if i % 4 in (0, 3) else 0.0)
        hists.append((sym, univ, None, sh.LAYERS[(i // 4) % 2]))
    results = sh.run_impl_batch(hists)

    for (sym, univ, _q, layer), r in zip(hists, results):
        ck.count(f"layer:{layer}")
        for be in sh.BACKENDS:
            run = r[be]
            passed_to = {}            # provenance of a passed Event object -> bucket it was first handed to
            n_passed = 0              # event arguments handed over so far (= len of store_hist's `passed` list)
            before = [[] for _ in univ]
            interesting = False
            for j, (op, step) in enumerate(zip(run["ops"], run["steps"])):
                res, after = step[0], step[1:]
                tgt = None if op[0] in (3, 13) else op[1]      # 13: the caller changes an object of its own, no call
                status = "ok" if res[0] == 0 else sh.ERRNAME.get(res[1], "err")
                ck.count(f"{be}:{sh.OPNAME[op[0]]}:{status}")
                others_populated = any(v != [] and v[0][1] for b, v in zip(univ, before) if b != tgt)
                if op[0] in sh.WRITE_CODES and others_populated:
                    interesting = True
                    # which kind of id did the op carry?
                    ids = []
                    if op[0] in (7, 9):
                        ids = [op[2]]
                    elif op[0] == 5 and op[2][0]:
                        ids = op[2][0]
                    elif op[0] == 6:
                        ids = [e[0][0] for e in op[2] if e[0]]
                    for i in ids:
                        here = tgt in univ and i in sh.live_ids(before[univ.index(tgt)])
                        elsewhere = any(i in sh.live_ids(v) for b, v in zip(univ, before) if b != tgt)
                        ck.count("id-" + ("live-here" if here else "foreign" if elsewhere else "dead"))
                    if op[0] in (7, 8):
                        # the id the event ARGUMENT of replace / replace_last carries itself
                        c = op[-1][0]
                        if not c:
                            kind = "none"
                        elif op[0] == 7 and c[0] == op[2]:
                            kind = "the-addressed-id"
                        elif tgt in univ and c[0] in sh.live_ids(before[univ.index(tgt)]):
                            kind = "live-here"
                        elif any(c[0] in sh.live_ids(v) for b, v in zip(univ, before) if b != tgt):
                            kind = "foreign"
                        else:
                            kind = "dead"
                        ck.count(f"{sh.OPNAME[op[0]]}:id-carried-by-the-event-argument:{kind}")
                # the same Event OBJECT handed to calls on different buckets
                n_ev = {5: 1, 7: 1, 8: 1}.get(op[0], len(op[2]) if op[0] == 6 else 0)
                base_idx = n_passed
                for k in range(n_ev):
                    prov = (run["objs"][j] or [None] * n_ev)[k]
                    key = ("passed", base_idx + k) if prov is None else tuple(prov)
                    if prov is not None:
                        first = passed_to.get(key)
                        ck.count("event-object-passed-again:" + ("object-the-store-handed-back" if prov[0] == "got" else
                                                                 "to-another-bucket" if first not in (None, tgt) else
                                                                 "to-the-same-bucket"))
                    passed_to.setdefault(key, tgt)
                    passed_to[("passed", base_idx + k)] = passed_to[key]
                n_passed = base_idx + n_ev
                changed = [b for b, v0, v1 in zip(univ, before, after) if b != tgt and v0 != v1]
                if changed:
                    b = changed[0]
                    reused = run["objs"][j]
                    ck.failing_input(f"C04:{be}:{sh.OPNAME[op[0]]}-changes-other-bucket",
                                     f"{be}{'' if layer == 'storage' else ' (through Datastore/Bucket)'}: "
                                     f"{sh.describe(op)} ({status}"
                                     f"{(', the object is the one ' if op[0] == 13 else ', its event argument is the OBJECT ') + 'passed to / returned by an earlier call: ' + str(reused) if reused else ''}"
                                     f") changed bucket {b}: "
                                     f"{before[univ.index(b)]} -> {after[univ.index(b)]}",
                                     {"backend": be, "layer": layer,
                                      "history": [sh.describe(o) for o in run["ops"][:j + 1]],
                                      "wire_ops": run["ops"][:j + 1], "universe": univ,
                                      "object_reuse": run["objs"][:j + 1] if any(run["objs"][:j + 1]) else None,
                                      "other_bucket": b, "before": before[univ.index(b)], "after": after[univ.index(b)],
                                      "how": "harness.store_hist.replay_run(backend, wire_ops, universe, layer, object_reuse): "
                                             "the ops in order on a fresh back end; object_reuse[j][k] = ['passed'|'got', n] "
                                             "means: the k-th event argument of op j is the very Event object that was the "
                                             "n-th one passed to / handed back by the calls so far (no copy); layer "
                                             "'datastore' = every call through aw_datastore.Datastore / Bucket"})
                    break
                before = after
            ck.note_case([be, layer, run["ops"], run["objs"]], nontrivial=interesting)
        if len(ck.samples) < 4 and len(r["peewee"]["ops"]) >= 8:
            ck.sample({"backend": "peewee", "history": [sh.describe(o) for o in r["peewee"]["ops"][:12]],
                       "results": [s[0] for s in r["peewee"]["steps"][:12]]})

    # --- histories whose tail is NOT read back op by op (a read commits on sqlite, so the stream above
    #     never has pending writes when a rejected call arrives): one dump at the end
    n_quiet = 400 if ck.tier == "quick" else 20000
    qhists = sh.quiet_histories(ck.rng, n_quiet)
    qresults = sh.run_impl_batch(qhists)
    for (sym, univ, qf), r in zip(qhists, qresults):
        for be in sh.BACKENDS:
            run = r[be]
            qa = run["quiet_at"]
            ck.note_case([be, "unread-tail", run["ops"]], nontrivial=True)
            ck.count(f"{be}:unread-tail-length-{len(run['ops']) - qa:02d}")
            if qa == 0:
                continue
            start = run["steps"][qa - 1][1:]
            ref = {b: (None if v == [] else sorted(tuple(w[1:]) for w in v[0][1])) for b, v in zip(univ, start)}
            byid = {b: ({} if v == [] else {w[0][0]: tuple(w[1:]) for w in v[0][1]}) for b, v in zip(univ, start)}
            meta0 = {b: (None if v == [] else v[0][0]) for b, v in zip(univ, start)}
            rejected = []
            for op, step in zip(run["ops"][qa:], run["steps"][qa:]):
                res = step[0]
                code = op[0]
                b = None if code == 3 else op[1]
                ck.count(f"{be}:unread:{sh.OPNAME[code]}:" + ("ok" if res[0] == 0 else sh.ERRNAME.get(res[1], "err")))
                if b is None or ref.get(b) is None:
                    rejected.append(sh.describe(op))
                    continue
                if code == 5 and op[2][0] == [] and res[0] == 0:
                    ref[b].append(tuple(op[2][1:]))
                elif code == 6 and res[0] == 0:
                    ref[b].extend(tuple(e[1:]) for e in op[2] if e[0] == [])
                elif code == 7 and op[2] in byid[b]:
                    ref[b].remove(byid[b][op[2]])
                    byid[b][op[2]] = tuple(op[3][1:])
                    ref[b].append(byid[b][op[2]])
                elif code == 9 and op[2] in byid[b]:
                    ref[b].remove(byid[b].pop(op[2]))
                else:
                    rejected.append(sh.describe(op))
            for b, v in zip(univ, run["final"]):
                got = None if v == [] else sorted(tuple(w[1:]) for w in v[0][1])
                exp = None if ref[b] is None else sorted(ref[b])
                gm = None if v == [] else v[0][0]
                if got != exp or gm != meta0[b]:
                    ck.failing_input(f"C04:{be}:unread-tail-changes-other-bucket",
                                     f"{be}: after {len(run['ops']) - qa} ops that were not read back (rejected / "
                                     f"ill-addressed among them: {rejected[:4]}) bucket {b} holds {got} (meta {gm}), "
                                     f"its own operations account for {exp} (meta {meta0[b]})",
                                     {"backend": be, "history": [sh.describe(o) for o in run["ops"]],
                                      "wire_ops": run["ops"], "universe": univ, "unread_from_op": qa,
                                      "bucket": b, "expected_events": exp, "observed_events": got,
                                      "how": "harness.store_hist.run_history(..., quiet_from=...): no read between the ops "
                                             "from unread_from_op on, one dump at the end; SqliteStorage with the default "
                                             "enable_lazy_commit=True"})
                    break

    # --- (c) round 6: the context the streams above never vary (harness/store_sched.py): an engine call that fails
    #     once and a caller that carries on; two objects on one file used alternately; two threads on one object
    try:
        from . import store_sched as ss
        quick = ck.tier == "quick"
        big = 10 ** 9
        scns = (ss.object_scenarios(ck.rng, quick)
                + ss.pick(ck.rng, ss.thread_scenarios(), 170 if quick else big)
                + ss.pick(ck.rng, ss.fault_scenarios(), 260 if quick else big, must=lambda s: False))
        ss.check(ck, "C04", ss.C04_KINDS, scns, "scenario")
    except Exception as ex:  # noqa: BLE001 -- reported, never hidden
        ck.disagreement("scenarios", f"the fault / two-object / two-thread scenarios could not run: {type(ex).__name__}: {ex}",
                        {"kind": "scenario-stream"})

    if have_driver:
        allh = [(h[1], r) for h, r in zip(hists, results)] + [(h[1], r) for h, r in zip(qhists, qresults)]
        flat = [(be, univ, r[be]["ops"], r[be]["layer"]) for univ, r in allh for be in sh.BACKENDS]
        model = sh.run_model_batch("C04", flat)
        k = 0
        for univ, r in allh:
            for be in sh.BACKENDS:
                mo = model[k]
                k += 1
                d = sh.first_difference(mo, r[be])
                if d is not None:
                    j, ms, is_ = d
                    ck.disagreement(be, f"op {j} {sh.describe(r[be]['ops'][j]) if j >= 0 else ''}: model and {be} differ"
                                        + (" (history with an unread tail)" if "final" in r[be] else "")
                                        + (" (through Datastore/Bucket)" if r[be]["layer"] == "datastore" else ""),
                                    {"backend": be, "layer": r[be]["layer"],
                                     "history": [sh.describe(o) for o in r[be]["ops"][:j + 1]],
                                     "wire_ops": r[be]["ops"][:j + 1], "universe": univ,
                                     "object_reuse": r[be]["objs"][:j + 1], "model": ms, "impl": is_})
    ck.assumptions += [
        "strings/data enter the models as labels (0 = the falsy value of its kind); identity time codec",
        "other buckets are observed through the API of the layer the history runs on (get_metadata + get_events(-1), "
        "resp. Bucket.metadata + Bucket.get(-1)), ids included, sorted by id",
        "an Event object passed again is passed as it is (the caller does not touch it between the calls); the model "
        "has no aliasing: it sees the value the object holds at the time of the call",
        "the universe of every history contains a bucket that is never created, so writes to a missing bucket "
        "are observed too",
    ]
    return ck.finish(RULE)


if __name__ == "__main__":
    sys.exit(main())
