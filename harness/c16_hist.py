"""C16 (round 3): the grouping / sorting / filtering transforms under HISTORY, through the QUERY LAYER, on LARGE inputs.

Streams added to harness/c16.py (hook: `c16_hist.run(...)` in main; `run_case` takes live objects from `I.objects`)

  q2        the boundary corpus of every transform, the look-alike corpus and seeded random cases through the
            registered query functions aw_query.functions.functions[name] (merge_events_by_keys,
            chunk_events_by_key (the wrapper's pulsetime, 5.0), sort_by_timestamp, sort_by_duration, limit_events,
            sum_durations, concat, filter_keyvals, exclude_keyvals) and through a query2 statement
            `RETURN = name(arg_a, ...)`; the arguments stay referenced (by this harness and by the program's
            namespace) and are compared before / after: same oracle as the direct calls (c16.run_case).
  session   call sequences in one process on live objects (harness/txhist.py Session): the same list again, new
            ==-equal objects (other ids, look-alike data True / 1 / 1.0), the list edited in between, new list
            objects around the same events, earlier results overwritten, other keys / count / vals (look-alike
            vals too) on the same list; routes direct / registry / program mixed inside a sequence.
  big       one input of >= 10 001 events per transform (nearly sorted where the model sorts by insertion), direct
            and through the registry.
usage: python -m harness.c16_hist judge <session.json>    (used when a failing sequence is minimised)
"""
import copy
import importlib
import sys
import time

from . import common
from . import txhist as TX
from .evutil import BASE

S = 1_000_000
Q2NAME = {"merge": "merge_events_by_keys", "chunk": "chunk_events_by_key", "sort_ts": "sort_by_timestamp",
          "sort_dur": "sort_by_duration", "limit": "limit_events", "sum": "sum_durations", "concat": "concat"}
MODULE = {"merge": "aw_transform.merge_events_by_keys", "chunk": "aw_transform.chunk_events_by_key",
          "sort_ts": "aw_transform.sort_by", "sort_dur": "aw_transform.sort_by", "limit": "aw_transform.sort_by",
          "sum": "aw_transform.sort_by", "concat": "aw_transform.sort_by", "filter": "aw_transform.filter_keyvals"}


HOW = {"direct": "the function of the aw_transform module, called on fresh Event objects built from `events`",
       "registry": "aw_query.functions.functions[<name>](None, {}, events, ...): the registered query function (filter with "
                   "exclude=True is 'exclude_keyvals'; chunk_events_by_key takes no pulsetime there); the list handed in is "
                   "kept and compared with its state before the call",
       "program": "aw_query.query2: the statement `RETURN = <name>(arg_a, ...)` parsed and interpreted with the argument "
                  "objects bound in the namespace; the objects are kept and compared with their state before the call"}


class RoutedImpl:
    """Stands in for c16.Impl (same attribute names): every function is reached through `route`.  With `live`
    (spec list id -> live list) run_case takes the live objects of a call sequence instead of building fresh ones."""

    def __init__(self, I, ql, route, live=None, live_scalars=None):
        self.I, self.ql, self.route = I, ql, route
        self.live_scalars = live_scalars or {}     # "keys" / "vals": the caller's own list object (run_case hands on a copy)
        self.violation = None
        self.Event = I.Event
        self.m = self.c = self.s = self.f = self
        self.last = None
        self.live = live
        self.objects = (lambda evs: live[id(evs)]) if live is not None else None

    def _go(self, name, direct, *args, **kw):
        self.last = None
        if self.route == "direct":
            r = direct(*args, **kw)
        else:
            r = self.ql.call(self.route, name, *args)
        self.last = r
        return r

    def _own(self, name, value):
        """the caller's own object for a list-valued secondary argument, when the sequence keeps one alive"""
        mine = self.live_scalars.get(name)
        return mine if mine is not None and TX.strict_eq(mine, value) else value

    def _kept(self, name, obj, before, what):
        if not TX.strict_eq(obj, before):
            self.violation = f"{what}: {name} is now {TX.typed_repr(obj)}, was {TX.typed_repr(before)}"

    def merge_events_by_keys(self, events, keys):
        keys = self._own("keys", keys)
        before = copy.deepcopy(keys)
        r = self._go("merge_events_by_keys", self.I.m.merge_events_by_keys, events, keys)
        self._kept("keys", keys, before, "merge modified keys")
        return r

    def chunk_events_by_key(self, events, key, pulsetime=5.0):
        if self.route == "direct":
            return self._go(None, self.I.c.chunk_events_by_key, events, key, pulsetime)
        if pulsetime != 5.0:
            raise AssertionError("the registered chunk_events_by_key has no pulsetime argument")
        return self._go("chunk_events_by_key", None, events, key)

    def sort_by_timestamp(self, events):
        return self._go("sort_by_timestamp", self.I.s.sort_by_timestamp, events)

    def sort_by_duration(self, events):
        return self._go("sort_by_duration", self.I.s.sort_by_duration, events)

    def limit_events(self, events, count):
        return self._go("limit_events", self.I.s.limit_events, events, count)

    def sum_durations(self, events):
        return self._go("sum_durations", self.I.s.sum_durations, events)

    def concat(self, events1, events2):
        return self._go("concat", self.I.s.concat, events1, events2)

    def filter_keyvals(self, events, key, vals, exclude=False):
        vals = self._own("vals", vals)
        before = copy.deepcopy(vals)
        if self.route == "direct":
            r = self._go(None, self.I.f.filter_keyvals, events, key, vals, exclude=exclude)
        else:
            r = self._go("exclude_keyvals" if exclude else "filter_keyvals", None, events, key, vals)
        self._kept("vals", vals, before, "filter modified vals")
        return r


def q2_form(case):
    """the case as the query layer can express it (chunk: the wrapper's pulsetime)"""
    if case[0] == "chunk":
        return ("chunk", case[1], 5.0, case[3])
    return case


# --------------------------------------------------------------------------- large inputs


def gen_big(rng, c16, n, full=True):
    """one case of >= n events per transform.  Orders are nearly sorted in the model's sort key (it sorts by insertion)."""
    def ev(t, d, x, i=None):
        return (BASE + t, d, x, i)
    vals = [1, 2, "x", ["x"], ["x", "y"], True, 1.0, "1", None, 0]
    # merge: ~40 groups over two keys, missing keys, list values; every duration 1 ms .. 2 s
    evs = []
    for j in range(n):
        x = {}
        if j % 7:
            x["a"] = copy.deepcopy(vals[(j * 7 + j // 2003) % len(vals)])
        if j % 3:
            x["b"] = copy.deepcopy(vals[(j // 5) % 4])
        evs.append(ev(j * S, (1 + j % 2000) * 1000, x, j if j % 2 else None))
    yield ("merge", ["a", "b"], evs)
    if full:
        yield ("merge", ["b"], [e for e in evs[: n // 2]] + [e for e in evs[: n - n // 2]])
    # chunk: runs of 1..9 equal values, every event has the key; gaps below and above the wrapper's 5 s
    evs, t, j = [], 0, 0
    while len(evs) < n:
        v = copy.deepcopy(vals[j % len(vals)])
        for _ in range(1 + (j * 5) % 9):
            evs.append(ev(t, 1000 * (1 + len(evs) % 50), {"a": copy.deepcopy(v), "c": len(evs)}))
            t += rng.choice([S, 2 * S, 4 * S, 6 * S])
        j += 1
    yield ("chunk", "a", 5.0, evs)
    # sorts: many ties, nearly sorted in the key
    evs = [ev((j // 3) * S, ((7 * j) % 5) * S, {"i": j}, j) for j in range(n)]
    yield ("sort_ts", TX.nearly_sorted(rng, evs, 53))
    evs = [ev(((5 * j) % 11) * S, ((n - j) // 4) * 1000, {"i": j}, j) for j in range(n)]
    yield ("sort_dur", TX.nearly_sorted(rng, evs, 53))
    evs = [ev(j * S, S + j, {"i": j}, j) for j in range(n)]
    for count in ((n - 1, 2000, -1, 10_000) if full else (10_000, -1)):
        yield ("limit", count, evs)
    yield ("sum", [ev(j * S, 1000 * (1 + j % 977), {"i": j}) for j in range(n)])
    yield ("concat", evs, [ev(j * S, 2 * S, {"i": -j}) for j in range(n // 4)])
    evs = [ev(j * S, 1000, ({"a": copy.deepcopy(vals[j % len(vals)])} if j % 11 else {"b": 1}), j) for j in range(n)]
    yield ("filter", "a", [1, ["x"], "1"], False, evs)
    yield ("filter", "a", [2, ["x", "y"], None], True, evs)


# --------------------------------------------------------------------------- sessions


def session_setup(rng, c16):
    kind = rng.choice(["merge", "merge", "chunk", "chunk", "sort_ts", "sort_dur", "limit", "sum", "concat", "filter", "filter"])
    evs, pool = c16.rand_events(rng)
    if not evs:
        evs, pool = c16.rand_events(rng)
    base = {"events": evs}
    if kind == "concat":
        base = {"events1": c16.rand_events(rng, 4)[0], "events": evs}
    if kind == "merge":
        sc = [[rng.choice(c16.KEYS) for _ in range(rng.choice([0, 1, 1, 2, 2, 3]))]]
    elif kind == "chunk":
        sc = [rng.choice(c16.KEYS), 5.0]
    elif kind == "limit":
        sc = [rng.randrange(-4, 7)]
    elif kind == "filter":
        sc = [rng.choice(c16.KEYS), [copy.deepcopy(rng.choice(pool + c16.VALUES[:3])) for _ in range(rng.choice([0, 1, 1, 2, 3]))], rng.random() < 0.5]
    else:
        sc = []
    datas = [{k: copy.deepcopy(rng.choice(pool)) for k in rng.sample(c16.KEYS, rng.choice([1, 2]))} for _ in range(4)]
    return kind, base, sc, datas


def other_scalars(rng, c16, kind, sc):
    """the same events under other secondary arguments (look-alike ones too).  A list-valued argument (keys, vals) is
    either replaced by a new list or - the caller's own list object - edited in place."""
    old = sc
    sc = copy.deepcopy(sc)
    inplace = rng.random() < 0.5
    if kind == "merge":
        ks = sc[0]
        sc[0] = rng.choice([list(reversed(ks)), ks + [rng.choice(c16.KEYS)], ks[:-1], [rng.choice(c16.KEYS)]])
        if inplace:
            old[0][:] = sc[0]
            sc[0] = old[0]
    elif kind == "chunk":
        sc[0] = rng.choice(c16.KEYS)
        sc[1] = rng.choice([5.0, 5.0, 5, 1, 0, 60])
    elif kind == "limit":
        sc[0] = rng.choice([sc[0] + 1, sc[0] - 1, -sc[0], 0, bool(sc[0]) if sc[0] in (0, 1) else sc[0] + 2])
        sc[0] = int(sc[0])
    elif kind == "filter":
        r = rng.random()
        if r < 0.4:
            sc[1] = [TX.twin_value(v) for v in sc[1]]
        elif r < 0.7:
            sc[2] = not sc[2]
        else:
            sc[1] = sc[1][1:] + [rng.choice(c16.VALUES[:6])]
        if inplace:
            old[1][:] = sc[1]
            sc[1] = old[1]
    else:
        return None
    return sc


def make_case(kind, sc, S_):
    ev = S_.specs("events")
    if kind == "concat":
        return ("concat", S_.specs("events1"), ev), None
    return (kind, *copy.deepcopy(sc), ev), None


def live_map(case, S_):
    m = {id(case[-1]): S_.lists["events"]}
    if case[0] == "concat":
        m[id(case[1])] = S_.lists["events1"]
    return m


def call_descr(kind, route, sc):
    """what TX.generic_call needs to repeat the call (lists first, then positional scalars)"""
    if kind == "filter":
        if route == "direct":
            return {"route": route, "module": MODULE[kind], "name": "filter_keyvals", "kind": kind}, {"key": sc[0], "vals": sc[1], "exclude": sc[2]}
        return {"route": route, "module": MODULE[kind], "name": "exclude_keyvals" if sc[2] else "filter_keyvals", "kind": kind, "exclude": sc[2]}, \
            {"key": sc[0], "vals": sc[1]}
    names = {"merge": ["keys"], "chunk": ["key", "pulsetime"], "limit": ["count"]}.get(kind, [])
    scal = dict(zip(names, sc))
    if kind == "chunk" and route != "direct":
        scal.pop("pulsetime")
    return {"route": route, "module": MODULE[kind], "name": Q2NAME[kind], "kind": kind}, scal


def case_of_step(st, args):
    """the c16 case tuple of a logged step (for the judge): specs are read off the rebuilt live objects"""
    kind = st["call"]["kind"]
    sc = st["scalars"]
    specs = [[TX.spec_of(o) for o in a] for a in args]
    if kind == "concat":
        return ("concat", specs[0], specs[1]), {id(specs[0]): args[0], id(specs[1]): args[1]}
    if kind == "merge":
        case = ("merge", sc["keys"], specs[0])
    elif kind == "chunk":
        case = ("chunk", sc["key"], sc.get("pulsetime", 5.0), specs[0])
    elif kind == "limit":
        case = ("limit", sc["count"], specs[0])
    elif kind == "filter":
        case = ("filter", sc["key"], sc["vals"], st["call"].get("exclude", sc.get("exclude", False)), specs[0])
    else:
        case = (kind, specs[0])
    return case, {id(specs[0]): args[0]}


# --------------------------------------------------------------------------- running


class Runner:
    def __init__(self, ck, c16, I, lab, have_driver):
        self.ck, self.c16, self.I, self.lab, self.have_driver = ck, c16, I, lab, have_driver
        self.ql = TX.QueryLayer()
        self.pending = []
        self.minimised = False

    def one(self, case, route, stream, live=None, replay=None, shrink=None, live_scalars=None, impl=None, allow=(), model=True, lab=None):
        """-> (first failed clause or None, the routed implementation used)
        round 5 (harness/c16_edge.py): `impl` = a prepared stand-in (container kinds, fault), `allow` = exception classes the
        stream's fault rule accepts, `model=False` = numbers beyond the driver's integers (oracle only), `lab` = labels that
        also cover nested values"""
        ck, c16 = self.ck, self.c16
        kind = case[0]
        RI = impl or RoutedImpl(self.I, self.ql, route, live, live_scalars)
        ck.count("stream:" + stream)
        ck.count("route:" + route)
        ck.count(f"{stream}:{kind}")
        try:
            wire, outview, bad, nontrivial, canon = c16.run_case(case, RI, lab or self.lab, ck)
        except Exception as ex:  # the statement says these functions return
            if allow and isinstance(ex, tuple(allow)) and getattr(RI, "raised", None) is ex:
                ck.count(f"{stream}:raises {type(ex).__name__} (allowed by the fault rule)")
                return None, RI
            d = replay() if replay else dict(c16.describe(case), route=route)
            ck.failing_input(f"C16:{kind} raises", f"[{stream}/{route}] {kind} raises {type(ex).__name__}: {ex}", d)
            return f"{kind} raises", RI
        ck.note_case([route, canon] if len(case[-1]) < 100 else [route, kind, len(case[-1]), stream], nontrivial=nontrivial)
        d = None
        bad = bad or RI.violation
        if bad:
            d = replay() if replay else dict(c16.describe(case), route=route, impl_output_view=outview)
            d.setdefault("how_called", HOW[route])
            if live is None and self.alone(case, route) != bad.split(":")[0]:
                bad += TX.HISTORY_NOTE
            elif shrink and (not ck.violations or (live is not None and not self.minimised)):
                self.minimised = self.minimised or live is not None
                bad, d = shrink(bad, d)
            ck.failing_input("C16:" + bad.split(":")[0], f"[{stream}/{route}] " + bad, d)
        if model:
            self.pending.append((case if len(case[-1]) < 100 else (kind, "... %d events" % len(case[-1])), route, stream,
                                 common.sx(wire), outview, replay))
        return bad, RI

    def alone(self, case, route):
        """the head of the verdict of the same case run once more on fresh objects"""
        RI = RoutedImpl(self.I, self.ql, route)
        try:
            b = self.c16.run_case(case, RI, self.lab, common.Check("C16", ["quick"]))[2] or RI.violation
        except Exception:  # noqa: BLE001
            return None
        return None if b is None else b.split(":")[0]

    def compare_with_model(self):
        if not (self.have_driver and self.pending):
            return
        model = common.run_driver("C16", [w for (_, _, _, w, _, _) in self.pending])
        for (case, route, stream, w, io, replay), mo in zip(self.pending, model):
            if mo != io:
                d = replay() if replay else (dict(self.c16.describe(case), route=route) if len(case) > 2 or not isinstance(case[1], str)
                                             else {"kind": case[0], "events": case[1], "route": route})
                if isinstance(io, list) and isinstance(mo, list) and len(io) > 20:
                    k = next((i for i, (a, b) in enumerate(zip(mo, io)) if a != b), min(len(mo), len(io)))
                    what = f"first difference at output {k}: model {str(mo[k:k + 1])[:200]} impl {str(io[k:k + 1])[:200]} (lengths {len(mo)} / {len(io)})"
                else:
                    what = f"model {str(mo)[:300]} impl {str(io)[:300]}"
                self.ck.disagreement("group", f"[{stream}/{route}] {case[0]}: {what}", d)


def run(ck, c16, I, lab, have_driver, cases):
    rng = ck.rng
    quick = ck.tier == "quick"
    R = Runner(ck, c16, I, lab, have_driver)
    TX.make_room(ck)

    t_q2 = time.time()
    # -- q2: the corpus through the query layer.  Every sort / limit / sum / concat case, a share of the others.
    share = 6 if quick else 2
    k = 0
    for j, case in enumerate(cases):
        kind = case[0]
        if kind in ("merge", "chunk", "filter") and (j * 7919) % share:
            continue
        k += 1
        R.one(q2_form(case), ("registry", "program")[k % 2], "q2")

    # -- sessions
    t_sess = time.time()
    n_sessions = 260 if quick else 8000
    for _ in range(n_sessions):
        kind, base, sc, datas = session_setup(rng, c16)
        S_ = TX.Session(I.Event, base, pool=datas)
        plan = S_.plan(rng, rng.choice([6, 8, 10]))
        for pos in sorted(rng.sample(range(1, len(plan)), min(2, len(plan) - 1))):
            plan.insert(pos, "other_scalars")
        for name in plan:
            if name == "other_scalars":
                was = copy.deepcopy(sc)
                new = other_scalars(rng, c16, kind, sc)
                if new is None or TX.strict_eq(new, was):
                    continue
                sc, what = new, f"the same objects, other secondary arguments {TX.typed_repr(new)}"
            else:
                what = S_.step(name, rng)
                if what is None:
                    continue
            routed_ok = not (kind == "chunk" and sc[1] != 5.0)
            route = rng.choice(TX.ROUTES) if routed_ok else "direct"
            call, scal = call_descr(kind, route, sc)
            S_.record(name, what, call, scal)
            n_log = len(S_.log)
            case, _ = make_case(kind, sc, S_)

            def shrink(bad, d, S_=S_, n_log=n_log):
                steps, ok = TX.minimise_session(S_.log[:n_log], "harness.c16_hist", bad.split(":")[0])
                return bad, TX.session_replay(steps, ok)
            bad, RI = R.one(case, route, "session", live=live_map(case, S_), replay=lambda S_=S_, n_log=n_log: S_.replay(n_log),
                            shrink=shrink, live_scalars={"keys": sc[0]} if kind == "merge" else {"vals": sc[1]} if kind == "filter" else None)
            S_.results.append(RI.last)
            ck.count("session-step:" + name)
            if bad:
                break

    # -- big
    t_big = time.time()
    n = TX.BIG_N + rng.randrange(0, 200) if quick else 20_011
    for j, case in enumerate(gen_big(rng, c16, n, full=not quick)):
        ck.count("len>=%d" % TX.BIG_N)
        # quick: every large input through the registered function (which calls the anchored one), a third of them
        # (drawn from the seed) directly as well
        routes = (["registry"] + (["direct"] if rng.random() < 0.34 else [])) if quick else list(TX.ROUTES)
        for route in routes:
            R.one(case, route, "big", replay=lambda case=case, route=route: big_replay(c16, case, route))
    try:
        from . import c16_edge          # round 5: containers, data dict types, numeric extremes, faults
        c16_edge.run(R, cases)
    except Exception as ex:  # noqa: BLE001    a tree on which the edge streams cannot even run: the tie is not established
        import traceback
        ck.disagreement("edge streams", f"harness/c16_edge.py could not complete against this tree: {type(ex).__name__}: {str(ex)[:200]}",
                        {"traceback": traceback.format_exc()[-1500:]})
    t_model = time.time()
    R.compare_with_model()
    TX.prefer_session_failure(ck)
    t_end = time.time()
    ck.coverage["round3"] = {
        "q2": f"{k} corpus cases through the registered query functions (registry / query2 statement alternating)",
        "session": f"{n_sessions} call sequences on live objects, routes mixed",
        "big": f"one input of >= {TX.BIG_N} events per transform (merge, chunk, sort_ts, sort_dur, limit x2, sum, concat, filter, exclude; "
               "thorough: more and through all three routes)",
        "wall_s": {"q2": round(t_sess - t_q2, 1), "session": round(t_big - t_sess, 1), "big": round(t_model - t_big, 1),
                   "model": round(t_end - t_model, 1)}}


def big_replay(c16, case, route):
    d = c16.describe(case)
    d["route"] = route
    d["n_events"] = len(case[-1])
    return d


def session_judge(Event):
    from . import c16
    ck = common.Check("C16", ["quick"])
    I = c16.Impl()
    lab = c16.Lab()
    ql = TX.QueryLayer()

    def judge(st, args):
        case, live = case_of_step(st, args)
        RI = RoutedImpl(I, ql, st["call"]["route"], live)
        try:
            return c16.run_case(case, RI, lab, ck)[2] or RI.violation
        except Exception as ex:  # noqa: BLE001
            return f"{case[0]} raises: {type(ex).__name__}"
    return judge


if __name__ == "__main__":
    if len(sys.argv) >= 3 and sys.argv[1] == "judge":
        sys.exit(TX.judge_main(sys.argv[2], session_judge))
    if len(sys.argv) >= 3 and sys.argv[1] == "replay":
        sys.exit(TX.replay_main(sys.argv[2]))
    print(__doc__)
