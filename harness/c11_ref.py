"""C11's independent reference evaluator over the generated AST (the oracle): what a program's text denotes.

Written from the documented behaviour of the built-ins, independently of aw_query: no token scanner, no
namespace capture, no registry.  It is a pure function of (program, contents of the datastore the query is
asked of): nothing survives from one call of ref_run to the next, so it is also the yardstick for SESSIONS
(every query of a session is compared with the reference run on that query alone).

Two readings of "the value of a variable" exist once a built-in annotates the events it is handed in place
(categorize, tag) while another variable still refers to the same events:
  alias=False  values are immutable; categorize/tag return annotated COPIES;
  alias=True   Python's object semantics: query_bucket makes fresh events on every call, categorize/tag
               annotate the events they are given, limit_events / concat / sort_by_* / filter_keyvals / echo /
               list literals hand on the very same event objects.
A program on which the two readings give different values says something the property text does not decide
(`c = a; a = categorize(a, ..); RETURN = c`); the check skips it (counted).  Where they agree - in
particular whenever every occurrence of a call is its own application, as the statement says - the value is
what the implementation must return."""
import re
from datetime import datetime, timedelta, timezone

from .c17_impl import QNAME, T_END, T_START

US = timedelta(microseconds=1)


class RefError(Exception):
    def __init__(self, cls):
        self.cls = cls


class RefEvent:
    __slots__ = ("ts", "dur", "data")

    def __init__(self, ts, dur, data):
        self.ts, self.dur, self.data = ts, dur, data


class Env:
    """contents: {bucket id: [(offset from T_START in us, duration in us, data)]} of the datastore asked;
    hosts: {bucket id: hostname in the bucket's metadata} (default: "h1", what Impl.create_bucket gives)"""

    def __init__(self, contents, alias, hosts=None):
        self.contents, self.alias = contents, alias
        self.hosts = hosts if hosts is not None else {b: "h1" for b in contents}


def _instant(s):
    """An ISO 8601 instant as the generators write them (YYYY-MM-DDTHH:MM:SS[.ffffff]+00:00) -> us from T_START"""
    if not isinstance(s, str):
        raise RefError("Other")
    m = re.fullmatch(r"(\d{4})-(\d\d)-(\d\d)T(\d\d):(\d\d):(\d\d)(?:\.(\d{1,6}))?\+00:00", s)
    if not m:
        raise RefError("Unparseable")
    y, mo, d, h, mi, sec = (int(x) for x in m.groups()[:6])
    frac = int((m.group(7) or "0").ljust(6, "0"))
    return (datetime(y, mo, d, h, mi, sec, frac, tzinfo=timezone.utc) - T_START) // US


def _window(env, ns, name, on_unparseable):
    if name not in env.contents:
        raise RefError("FunctionError")
    try:
        return _instant(ns["STARTTIME"]), _instant(ns["ENDTIME"])
    except RefError:
        raise RefError(on_unparseable)


def _in_window(ev, start, end):
    # the generators keep every window edge at least a minute away from every event edge (the millisecond
    # rounding of Bucket.get and the storages' treatment of edges are other properties' business)
    return start <= ev[0] + ev[1] and ev[0] <= end


def r_query_bucket(env, ns, name):
    start, end = _window(env, ns, name, "FunctionError")
    evs = [e for e in env.contents[name] if _in_window(e, start, end)]
    evs = sorted(evs, key=lambda e: e[0], reverse=True)        # newest first; timestamps are distinct
    return [RefEvent(o, d, dict(data)) for o, d, data in evs]


def r_query_bucket_eventcount(env, ns, name):
    start, end = _window(env, ns, name, "Other")
    return len([e for e in env.contents[name] if _in_window(e, start, end)])


def r_find_bucket(env, ns, filter_str, hostname=None):
    """find_bucket(filter[, hostname]): the id of the bucket whose id contains `filter` (and, when a hostname is
    written, whose metadata carries that hostname).  The documented behaviour does not say WHICH of several
    matching buckets is meant (the first one the datastore happens to list), so the reference answers only when
    the match is unique; a hostname that is not a non-empty string is outside the documented behaviour."""
    if hostname is not None and not (isinstance(hostname, str) and hostname):
        raise RefError("Other")
    found = [b for b in env.contents if filter_str in b and (hostname is None or env.hosts.get(b) == hostname)]
    if not found:
        raise RefError("FunctionError")
    if len(found) > 1:
        raise RefError("Other")
    return found[0]


def _rule(rule):
    """{"type": "regex", "regex": R[, "ignore_case": b][, "select_keys": [k]]} -> predicate on an event"""
    if not isinstance(rule, dict):
        raise RefError("Other")
    rx = rule.get("regex")
    pat = re.compile(rx, re.IGNORECASE if rule.get("ignore_case", False) else 0) if rx else None
    keys = rule.get("select_keys")

    def match(e):
        vals = [e.data.get(k) for k in keys] if keys else list(e.data.values())
        return pat is not None and any(isinstance(v, str) and pat.search(v) for v in vals)
    return match


def _classes(classes):
    out = []
    for c in classes:
        if not isinstance(c, list) or len(c) != 2:
            raise RefError("Other")
        out.append((c[0], _rule(c[1])))
    return out


def _annotate(env, events, key, value_of):
    out = []
    for e in events:
        if not isinstance(e, RefEvent):
            raise RefError("Other")
        if not env.alias:
            e = RefEvent(e.ts, e.dur, dict(e.data))
        e.data[key] = value_of(e)
        out.append(e)
    return out


def r_categorize(env, ns, events, classes):
    cl = _classes(classes)

    def pick(e):
        best = ["Uncategorized"]
        for cat, match in cl:
            if match(e) and len(cat) >= len(best):     # the deepest category, the later one on a tie
                best = cat
        return best
    return _annotate(env, events, "$category", pick)


def r_tag(env, ns, events, classes):
    cl = _classes(classes)
    return _annotate(env, events, "$tags", lambda e: [t for t, match in cl if match(e)])


def _events(l):
    for e in l:
        if not isinstance(e, RefEvent):
            raise RefError("Other")
    return l


def r_filter(exclude):
    def f(env, ns, events, key, vals):
        keep = lambda e: (key in e.data and e.data[key] in vals) != exclude
        return [e for e in _events(events) if keep(e)]
    return f


# name -> (parameter types, or None for variadic; function(env, namespace, *values)); "?t" = an optional
# parameter (has a default: may be left out, and its type is not checked at the call)
REF = {
    "find_bucket": (["str", "?str"], r_find_bucket),
    "nop": ([], lambda env, ns: 1),
    "echo": (None, lambda env, ns, *a: list(a)),
    "limit_events": (["list", "int"], lambda env, ns, l, n: l[:n]),
    "concat": (["list", "list"], lambda env, ns, a, b: a + b),
    "sort_by_timestamp": (["list"], lambda env, ns, l: sorted(_events(l), key=lambda e: e.ts)),
    "sort_by_duration": (["list"], lambda env, ns, l: sorted(_events(l), key=lambda e: e.dur, reverse=True)),
    "filter_keyvals": (["list", "str", "list"], r_filter(False)),
    "exclude_keyvals": (["list", "str", "list"], r_filter(True)),
    "sum_durations": (["list"], lambda env, ns, l: timedelta(microseconds=sum(e.dur for e in _events(l)))),
    "query_bucket": (["str"], r_query_bucket),
    "query_bucket_eventcount": (["str"], r_query_bucket_eventcount),
    "categorize": (["list", "list"], r_categorize),
    "tag": (["list", "list"], r_tag),
}
# built-ins the generators call on EMPTY lists only (their result there is [] whatever they do otherwise)
EMPTY_ONLY = {"flood": ["list"], "merge_events_by_keys": ["list", "list"], "period_union": ["list", "list"]}
for _n, _t in EMPTY_ONLY.items():
    REF[_n] = (_t, lambda env, ns, *a: [])


def py_isinstance(v, t):
    return {"list": isinstance(v, list), "str": isinstance(v, str), "int": isinstance(v, int)}[t]


def arity(name):
    """(least, most) number of written arguments the built-in takes; most = None for a variadic one"""
    types = REF[name][0]
    if types is None:
        return 0, None
    return len([t for t in types if not t.startswith("?")]), len(types)


def ref_eval(t, ns, env):
    k = t[0]
    if k == "int":
        return int(t[1])
    if k == "str":
        return t[2]
    if k == "var":
        if t[1] not in ns:
            raise RefError("InterpretError")
        return ns[t[1]]
    if k == "list":
        return [ref_eval(x, ns, env) for x in t[1]]
    if k == "dict":
        return {key: ref_eval(v, ns, env) for (_, key), v in t[1]}
    name, args = t[1], t[2]
    if name not in REF:
        raise RefError("InterpretError")
    vals = [ref_eval(a, ns, env) for a in args]
    types, fn = REF[name]
    if types is not None:
        for ty, v in zip(types, vals):
            if not ty.startswith("?") and not py_isinstance(v, ty):
                raise RefError("FunctionError")
        least, most = arity(name)
        if not least <= len(vals) <= most:
            raise RefError("InterpretError")
    return fn(env, ns, *vals)


def ref_run(prog, contents=None, alias=False, ctx=None, hosts=None):
    """The value the program text denotes when asked of a datastore holding `contents` under the query name
    and period ctx = (name, start, end as offsets from T_START in us); raises RefError(class)."""
    env = Env(contents or {}, alias, hosts)
    name, start, end = ctx or (QNAME, 0, (T_END - T_START) // US)
    ns = {"True": True, "False": False, "true": True, "false": False, "NAME": name,
          "STARTTIME": (T_START + start * US).isoformat(), "ENDTIME": (T_START + end * US).isoformat()}
    for name, e in prog:
        ns[name] = ref_eval(e, ns, env)
    if "RETURN" not in ns:
        raise RefError("ParseError")
    return ns["RETURN"]


def canon_ref(v):
    """Same canonical form as harness/c17_session.canon gives for the implementation's values."""
    if v is None or type(v) in (bool, int, str):
        return [type(v).__name__, v]
    if type(v) is list:
        return ["list", [canon_ref(x) for x in v]]
    if type(v) is dict:
        return ["dict", [[canon_ref(k), canon_ref(x)] for k, x in v.items()]]
    if isinstance(v, RefEvent):
        return ["event", v.ts, v.dur, canon_ref(v.data)]
    if isinstance(v, timedelta):
        return ["timedelta", v // US]
    raise TypeError(f"reference value of type {type(v)}")


def denotation(prog, contents=None, ctx=None, hosts=None):
    """("value", canonical value) | ("error", class) | ("ambiguous", None): see the module docstring."""
    outs = []
    for alias in (False, True):
        try:
            outs.append(("value", canon_ref(ref_run(prog, contents, alias, ctx, hosts))))
        except RefError as e:
            outs.append(("error", e.cls))
    return outs[0] if outs[0] == outs[1] else ("ambiguous", None)
