"""Replay one C01 scenario file (replays/C01/scenario-*.json) against $VERIF_REPO (default /repo):
runs the recorded inserts on the recorded back end through Datastore / Bucket and prints every
clause of the property statement that fails.  Exit 1 when the property is violated.
usage: PYTHONPATH=<repo>:/verif python -m harness.c01_replay <scenario.json>"""
import json
import shutil
import sys
import tempfile

from . import common
from . import c01


def main():
    obj = json.load(open(sys.argv[1]))
    common.setup_impl_env()
    if "own_pass_data_json" in obj:
        tmp = tempfile.mkdtemp(prefix="awc01-replay-")
        try:
            from . import edgevals
            data = (edgevals.untag(obj["own_pass_data_classes"]) if obj.get("own_pass_data_classes") is not None
                    else json.loads(obj["own_pass_data_json"]))
            fails = c01.own_pass(obj["backend"], tmp, 0, [data])
        finally:
            shutil.rmtree(tmp, ignore_errors=True)
        print(f"backend {obj['backend']}, mutate-and-reread pass on data {obj['own_pass_data_json'][:300]}, repo {common.REPO}")
        for what, text, *_ in fails:
            print("FAILS:", text)
        if not fails:
            print("property holds on this input")
        return 1 if fails else 0
    steps = c01.steps_from_file(obj)
    tmp = tempfile.mkdtemp(prefix="awc01-replay-")
    try:
        r = c01.run_scenario(obj["backend"], steps, tmp, 0, collect=False)
    finally:
        shutil.rmtree(tmp, ignore_errors=True)
    print(f"backend {obj['backend']}, scenario {obj['scenario']}, {len(steps)} step(s), repo {common.REPO}")
    last = obj["steps"][-1]
    print("last step:", json.dumps(last)[:600])
    if not r["fails"]:
        print("property holds on this scenario")
        return 0
    for clause, text, si in r["fails"]:
        print(f"FAILS at step {si} [{clause}]: {text}")
    return 1


if __name__ == "__main__":
    sys.exit(main())
