"""C13 — events normalise to UTC milliseconds and survive JSON round trips.

Correspondence of Model/PyFloat.v, Model/IsoTime.v, Model/EventModel.v and Model/Codec.v with
the real interpreter / aw_core.models / aw_datastore.storages.sqlite, and the property
statement evaluated on the implementation.  The models carry binary64 floats, so they are not
extracted: every case is evaluated inside Coq (harness/floatcases.py)."""
import copy
import json
import math
import re
import sys
from datetime import datetime, timedelta, timezone
from fractions import Fraction

from . import common
from . import floatcases as fc
from . import tieb_stores
from .common import Check

RULE = ("deterministic boundary corpus (instants at the epoch, 2020, the 2^51 us boundary of 2041, leap "
        "day, end of 2099; every millisecond-residue edge of the microsecond field; offsets -14h..+14h "
        "incl. odd minutes, second and sub-millisecond offsets; datetimes, naive datetimes and ISO-8601 "
        "strings with Z / +HH:MM / -HH:MM / no zone, 0..9 fraction digits; timedelta / int / float "
        "durations incl. halves of a microsecond and their float neighbours, negative, huge, nan/inf) "
        "then seeded random cases; plus a float stream (fromtimestamp, timedelta(seconds=f), int(f), "
        "int/int, x.timestamp()*1e6 on float.hex literals near halves, 2^51..2^53, subnormals) and a "
        "codec stream (real _event_to_us/_rows_to_events); the real _timestamp_parse is run on all 10^6 "
        "microsecond values; HISTORIES (harness/c13_hist.py): ~190 hand-written + 250 (thorough 8000) seeded sessions, "
        "each a sequence of constructions / attribute assignments / _timestamp_parse calls / JSON and Event(**event) "
        "rebuilds in one fresh process with every live event re-observed after every step, timestamps as wall-clock "
        "fields + fold in zones with offset changes (6 synthetic PEP 495 zones, 8 tz database zones, every transition of "
        "4 years): both fold readings of repeated and of skipped wall times with ONE tzinfo object, interval edges, "
        "the same instant written 8 ways, constructor defaults, data with 10 001 keys; FAULTS the caller survives "
        "(~75 hand-written sessions + seeded): a callee of an Event method (iso8601.parse_date, json.dumps, "
        "JSONEncoder.encode, the dict copy, the caller's tzinfo.utcoffset, the naive-timestamp warning) raises once "
        "(MemoryError / RecursionError / KeyboardInterrupt / ValueError / TypeError / OSError) inside the constructor, "
        "the setters, _timestamp_parse, to_json_dict, to_json_str, Event(**json), Event(**event), and the natural "
        "failures (5001-digit integer, data nested beyond the recursion limit, bytes / set values, tuple keys, a cycle; "
        "nan / inf / str / Fraction durations; unparsable and out-of-range timestamps), then the same call again, "
        "every live event re-observed against what it was given last; TWO THREADS (~130 hand-written sessions + "
        "seeded; harness/twothreads.py): thread A suspended inside the callee while thread B runs a complete "
        "operation (every string-parsing entry point x every string-parsing entry point with the same / different "
        "strings, every serialising entry point x serialising the same / another event, assigning, constructing), the "
        "live events observed while A is suspended and afterwards, with and without the observations in between; "
        "non-trivial = distinct case in which the ms floor changed the instant, the "
        "offset was non-zero, or the duration went through a float conversion; for a history observation: after a later "
        "step than the first")

IMPORTS = ("From Coq Require Import String.\n"
           "From AwVerif Require Import Base.Prelude Model.PyFloat Model.PyFloatWire Model.IsoTime "
           "Model.EventModel Model.Codec Model.EventWire.")

EPOCH = datetime(1970, 1, 1, tzinfo=timezone.utc)
US = timedelta(microseconds=1)
Y2100 = 4102444800 * 10**6
TD_BOUND = 2**33 * 10**6          # bound of the proved duration round trip (about 272 years)

DATA = [{}, {"app": "a"}, {"title": "x \"quoted\" \\ back", "n": 1}, {"u": "h\u00e9llo \u2603 \U0001f600"},
        {"nested": {"l": [1, 2.5, None, True, {"k": "v"}], "f": 1e-7}}, {"n": 1.0}, {"big": 2**60, "neg": -0.0}]
IDS = [None, None, 0, 7, 2**40, -3]

US_FIELDS = [0, 1, 499, 500, 501, 999, 1000, 1001, 1499, 1999, 2000, 123456, 499999, 500000, 500500,
             998999, 999000, 999001, 999499, 999500, 999998, 999999]
OFFSETS_MIN = [-840, -720, -570, -210, -61, -1, 0, 1, 59, 330, 345, 765, 840]
BASES = [0, 951782400 * 10**6 + 86399 * 10**6, 1_600_000_000_000_000, 1582934400 * 10**6 + 43200 * 10**6,
         2**51 - 10**6, 2**51, Y2100 - 10**6]
FLOAT_DURS = [0.0, -0.0, 0.1, 1 / 3, 1.5, 0.5e-6, 1.5e-6, 2.5e-6, -0.5e-6, -1.5e-6, -2.5e-6, 1.0000005, 1.0000015,
              2.0000005, 0.9999995, 0.9999994999999999, 1e-7, 5e-324, 123456.789012, 2592000.000001,
              1e9 + 0.000001, 4503599627.370495, 4503599627.370497, 8589934591.999999, 8589934592.000002,
              -86400.5, -0.999999, 1e15, -1e15, 86399999999999.98, float("nan"), float("inf"), -float("inf")]
INT_DURS = [0, 1, -5, 60, 2592000, 86399999999999, 86400000000000, -86399999913600, -86399999913601, 10**14]
TD_DURS = [0, 1, -1, 999, 1000, 10**6, 30 * 86400 * 10**6, 30 * 86400 * 10**6 + 1, -1500000, TD_BOUND - 1,
           TD_BOUND + 1, 2**53 + 1, 86399999999999999999, -86399999913600000000]


def dt(us):
    return EPOCH + timedelta(microseconds=us)


def us_of_dt(d):
    return (d - EPOCH) // US


def coq_str(s):
    assert '"' not in s and all(32 <= ord(c) < 127 for c in s)
    return f'(str "{s}"%string)'


def iso_text(local_us, off_min, digits, zone_form, sep="T", extra=""):
    """ISO-8601 text of the local fields of (local_us), with `digits` fraction digits (extra digits appended
    beyond the 6th), and the zone written as Z / +HH:MM / nothing."""
    d = dt(local_us)
    s = d.strftime("%Y-%m-%d") + sep + d.strftime("%H:%M:%S")
    frac = f"{d.microsecond:06d}" + extra
    if digits > 0:
        s += "." + frac[:digits]
    if zone_form == "Z":
        s += "Z"
    elif zone_form == "hm":
        sign = "-" if off_min < 0 else "+"
        s += f"{sign}{abs(off_min) // 60:02d}:{abs(off_min) % 60:02d}"
    return s


# ---------------------------------------------------------------------------
# event cases: (spec, python objects, coq term)
#   spec = {"instant": Fraction us (exact given instant), "off": offset us, "kind": ..., "dur": (...)}


def ts_variants(utc_us, off_us, rng, forms):
    """Yield (ts_spec, ts_obj, ts_term).  utc_us/off_us integers."""
    local = utc_us + off_us
    for form in forms:
        if form == "dt":
            tz = timezone(timedelta(microseconds=off_us)) if off_us else rng.choice([timezone.utc, timezone(timedelta(0))])
            obj = dt(local).replace(tzinfo=tz)
            yield ({"instant": Fraction(utc_us), "off": off_us, "form": "dt"}, obj,
                   f"(TsDt {fc.coq_z(utc_us)} {fc.coq_z(off_us)})")
        elif form == "naive":
            obj = dt(local).replace(tzinfo=None)
            yield ({"instant": Fraction(local), "off": 0, "form": "naive"}, obj, f"(TsNaive {fc.coq_z(local)})")
        elif form.startswith("str"):
            if off_us % 60_000_000:
                continue
            off_min = off_us // 60_000_000
            _, zone, digits = form.split(":")
            digits = int(digits)
            if zone in ("Z", "none") and off_us != 0:
                continue
            extra = "".join(rng.choice("0123456789") for _ in range(max(0, digits - 6)))
            sep = " " if rng.random() < 0.1 else "T"
            text = iso_text(local, off_min, digits, zone, sep, extra)
            # the exact instant the text denotes
            frac_digits = (f"{local % 10**6:06d}" + extra)[:digits]
            exact_local = (local - local % 10**6) + (Fraction(int(frac_digits), 10 ** digits) * 10**6 if digits else 0)
            yield ({"instant": exact_local - off_us, "off": off_us, "form": form, "text": text}, text,
                   f"(TsStr {coq_str(text)})")


def dur_variant(kind, v):
    if kind == "td":
        return ({"kind": "td", "us": v}, timedelta(microseconds=v), f"(DurTd {fc.coq_z(v)})")
    if kind == "int":
        return ({"kind": "int", "s": v}, v, f"(DurInt {fc.coq_z(v)})")
    return ({"kind": "float", "x": v}, v, f"(DurFloat {fc.coq_float(v)})")


STR_FORMS = ["str:Z:0", "str:Z:3", "str:Z:6", "str:hm:0", "str:hm:1", "str:hm:6", "str:hm:9", "str:none:6", "str:none:0"]


def rand_float_dur(rng):
    k = rng.random()
    if k < 0.3:
        n = rng.randrange(-10**8, 10**8)
        x = (2 * n + 1) / 2e6
        return rng.choice([x, math.nextafter(x, math.inf), math.nextafter(x, -math.inf)])
    if k < 0.6:
        b = rng.choice([10, 20, 30, 40, 45, 50, 51, 52, 53])
        return rng.randrange(-2**b, 2**b) / 10**6
    if k < 0.8:
        return rng.uniform(-3e6, 3e6)
    return rng.choice([-1, 1]) * math.ldexp(rng.random(), rng.randrange(-60, 47))


def gen_event_cases(rng, n_random):
    cases = []

    def add(ts, du, idx=None):
        i = IDS[(len(cases) if idx is None else idx) % len(IDS)]
        x = DATA[len(cases) % len(DATA)]
        cases.append((i, ts, du, x))

    # boundary corpus: every us field edge x every offset, as datetime and in one string form
    n = 0
    for base in BASES:
        for usf in US_FIELDS:
            for off_min in OFFSETS_MIN:
                utc = base - base % 10**6 + usf
                n += 1
                forms = ["dt", STR_FORMS[n % len(STR_FORMS)]]
                for ts in ts_variants(utc, off_min * 60_000_000, rng, forms):
                    add(ts, dur_variant("td", TD_DURS[n % 6]))
    # every residue mod 1000 around a second boundary, two zones
    for r in range(1000):
        for off_min, base in ((345, 1_600_000_000_000_000), (-210, 2**51 - 2**51 % 10**6)):
            usf = (r * 1000 + (r * 7) % 1000) % 10**6
            for ts in ts_variants(base + usf, off_min * 60_000_000, rng, ["dt"]):
                add(ts, dur_variant("td", 10**6))
    # second-level and sub-millisecond offsets (datetime only), naive datetimes
    for off_us in (1172 * 10**6, -(3 * 3600 + 17) * 10**6, 1, -1, 999, 1000, 500, 37 * 60_000_000 + 250):
        for usf in (0, 1, 999, 1000, 999999):
            for ts in ts_variants(1_600_000_000_000_000 + usf, off_us, rng, ["dt"]):
                add(ts, dur_variant("td", 0))
    for usf in US_FIELDS:
        for ts in ts_variants(1_600_000_000_000_000 + usf, 0, rng, ["naive"]):
            add(ts, dur_variant("td", 5))
    # durations
    t0 = next(ts_variants(1_600_000_000_123_000, 0, rng, ["dt"]))
    for k, lst in (("float", FLOAT_DURS), ("int", INT_DURS), ("td", TD_DURS)):
        for v in lst:
            add(t0, dur_variant(k, v))
    for nn in list(range(0, 40)) + [10**6 - 1, 10**6, 2**31, 2**40]:
        for sgn in (1, -1):
            x = sgn * (2 * nn + 1) / 2e6
            for y in (x, math.nextafter(x, math.inf), math.nextafter(x, -math.inf)):
                add(t0, dur_variant("float", y))
    # malformed / out-of-subset-but-rejected strings
    for text in ("2020-13-01T00:00:00Z", "2021-02-29T00:00:00Z", "2020-01-01T24:00:00Z", "2020-01-01T00:60:00Z",
                 "2020-01-01T00:00:60Z", "2020-01-01T00:00:00+24:00", "2020-01-01T00:00:00.Z", "2020-01-01T00:00:00+0a:00",
                 "0000-01-01T00:00:00Z", "2020-01-01T00:00:00+23:59", "2020-01-01T00:00:00-23:59", "2020-01-01T00:00:00+10:99",
                 "2020-02-29T23:59:59.999999+14:00", "0001-01-01T00:00:00+01:00", "9999-12-31T23:59:59.999999-00:01",
                 "garbage", "", "2020-01-01T00:00:00.123456789012Z"):
        spec = {"instant": None, "off": 0, "form": "str:raw", "text": text}
        add((spec, text, f"(TsStr {coq_str(text)})"), dur_variant("td", 1))
    # seeded random
    for _ in range(n_random):
        utc = rng.randrange(0, Y2100)
        if rng.random() < 0.3:
            utc = utc - utc % 1000 + rng.choice([0, 0, 1, 999, 500])
        off_min = rng.randrange(-840, 841) if rng.random() < 0.8 else rng.choice(OFFSETS_MIN)
        off_us = off_min * 60_000_000
        r = rng.random()
        if r < 0.45:
            forms = ["dt"]
            if rng.random() < 0.08:
                off_us += rng.choice([1, -1, 500, 999, 30_000_000, 1_000_000])
        elif r < 0.5:
            forms, off_us = ["naive"], 0
        else:
            forms = [rng.choice(STR_FORMS)]
            if forms[0].split(":")[1] in ("Z", "none"):
                off_us = 0
        k = rng.random()
        if k < 0.35:
            du = dur_variant("td", rng.choice([rng.randrange(0, 30 * 86400 * 10**6), rng.randrange(-10**7, 10**7),
                                               rng.randrange(-2**55, 2**55)]))
        elif k < 0.5:
            du = dur_variant("int", rng.choice([rng.randrange(0, 3 * 10**6), rng.randrange(-10**5, 10**5)]))
        else:
            du = dur_variant("float", rand_float_dur(rng))
        for ts in ts_variants(utc, off_us, rng, forms):
            add(ts, du, idx=rng.randrange(len(IDS)))
    return cases


def enc_event_impl(e, labels):
    i = e.id
    return ([1, i] if i is not None else [0]) + [us_of_dt(e.timestamp), e.duration // US, labels.label(e.data)]


def enc_text(s):
    return [len(s)] + [ord(c) for c in s]


ISO_SHAPE = re.compile(r"^\d{4}-\d\d-\d\dT\d\d:\d\d:\d\d(\.\d{3}000)?\+00:00$")


def run_event_impl(case, Event, validator, labels):
    """Returns (wire, observations) where wire mirrors EventWire.run_event_case and observations are the
    implementation-only facts the oracle needs."""
    i, (tspec, tobj, _), (dspec, dobj, _), x = case
    obs = {}
    try:
        e = Event(id=i, timestamp=tobj, duration=dobj, data=copy.deepcopy(x))
    except Exception as ex:
        return fc.res_wire_err(ex), {"error": type(ex).__name__}
    obs["event"] = e
    obs["utc"] = e.timestamp.utcoffset() == timedelta(0)
    obs["is_td"] = isinstance(e.duration, timedelta)
    wire = [0] + enc_event_impl(e, labels)
    try:
        text = e.to_json_str()
        d = json.loads(text)
        obs["json"] = d
        obs["schema_errors"] = [er.message for er in validator.iter_errors(d)]
        wire += [0] + ([1, d["id"]] if d["id"] is not None else [0]) + enc_text(d["timestamp"]) \
            + fc.float_wire(d["duration"]) + [labels.label(d["data"])]
        try:
            e2 = Event(**d)
            obs["e2"] = e2
            wire += [0] + enc_event_impl(e2, labels)
        except Exception as ex:
            obs["e2_error"] = type(ex).__name__
            wire += fc.res_wire_err(ex)
    except Exception as ex:
        obs["json_error"] = type(ex).__name__
        wire += fc.res_wire_err(ex)
    try:
        e3 = Event(**e)
        obs["e3"] = e3
        wire += [0] + enc_event_impl(e3, labels)
    except Exception as ex:
        obs["e3_error"] = type(ex).__name__
        wire += fc.res_wire_err(ex)
    return wire, obs


def oracle_event(case, obs):
    """The property statement, computed independently with exact integer / rational arithmetic.
    Returns (signature, message) or None."""
    i, (tspec, _, _), (dspec, _, _), x = case
    if "error" in obs:
        # inside the property's domain construction must succeed
        in_domain = (tspec["instant"] is not None and 0 <= tspec["instant"] < Y2100 and
                     ((dspec["kind"] == "td") or
                      (dspec["kind"] == "int" and abs(dspec["s"]) < 86399999913600) or
                      (dspec["kind"] == "float" and math.isfinite(dspec["x"]) and abs(dspec["x"]) < 86399999913600)))
        if in_domain:
            return ("C13:construct", f"valid event input raised {obs['error']}")
        return None
    e = obs["event"]
    if "held_type" in obs:
        # whatever it was built from and whatever has been called on it since: an event that exists holds these two
        return ("C13:held-type", "the event does not hold an aware datetime and a timedelta: " + obs["held_type"])
    if "held_changed" in obs:
        return ("C13:held-changed", obs["held_changed"])
    if tspec["instant"] is None:
        return None
    inst, off = tspec["instant"], tspec["off"]
    # domain of the timestamp clauses: 1970..2100, |offset| <= 14 h, offset a whole number of milliseconds
    in_time_domain = 0 <= inst < Y2100 and abs(off) <= 14 * 3600 * 10**6 and off % 1000 == 0
    if in_time_domain:
        want = (inst.numerator // inst.denominator) // 1000 * 1000       # floor to the millisecond
        got = us_of_dt(e.timestamp)
        if got != want:
            return ("C13:normalise", f"timestamp {got} is not the given instant {inst} floored to ms ({want})")
        if not obs["utc"]:
            return ("C13:normalise-utc", "timestamp is not UTC-aware")
    if not obs["is_td"]:
        return ("C13:duration-type", "duration is not a timedelta")
    k = e.duration // US
    if dspec["kind"] == "td" and k != dspec["us"]:
        return ("C13:duration", f"timedelta {dspec['us']} us became {k}")
    if dspec["kind"] == "int" and k != dspec["s"] * 10**6:
        return ("C13:duration", f"{dspec['s']} s became {k} us")
    if dspec["kind"] == "float":
        exact = Fraction(dspec["x"]) * 10**6
        if abs(k - exact) > Fraction(1, 2) + Fraction(1, 2**30):
            return ("C13:duration", f"{dspec['x'].hex()} s became {k} us (exact {float(exact)})")
    if not in_time_domain:
        return None
    if obs.get("unencodable"):
        # the data given is not JSON data for this interpreter (harness/c13_hist.py: mat_data): the JSON clauses say
        # nothing; rebuilding from the event itself must still give an equal event
        if "e3" not in obs:
            return ("C13:rebuild", f"Event(**event) raised {obs.get('e3_error')}")
        e3 = obs["e3"]
        try:
            same = e3.id == e.id and e3.timestamp == e.timestamp and e3.duration == e.duration and (e3.data is e.data or e3.data == e.data)
        except RecursionError:
            same = e3.id == e.id and e3.timestamp == e.timestamp and e3.duration == e.duration
        return None if same else ("C13:rebuild", "Event(**event) differs from the event")
    # JSON form
    if "json" not in obs:
        return ("C13:json", f"to_json_str / json.loads raised {obs.get('json_error')}")
    d = obs["json"]
    if obs["schema_errors"]:
        return ("C13:schema", f"JSON form does not validate: {obs['schema_errors'][:2]}")
    if not (isinstance(d, dict) and isinstance(d.get("timestamp"), str) and ISO_SHAPE.match(d["timestamp"])
            and type(d.get("duration")) is float and isinstance(d.get("data"), dict)):
        return ("C13:json-shape", f"unexpected JSON shape {d}")
    if abs(k) < TD_BOUND:
        if "e2" not in obs:
            return ("C13:json-roundtrip", f"Event(**json) raised {obs.get('e2_error')}")
        e2 = obs["e2"]
        if not (e2 == e and e2.id == e.id and e2.duration // US == k and us_of_dt(e2.timestamp) == us_of_dt(e.timestamp)):
            return ("C13:json-roundtrip", f"Event(**json) = {dict(e2)} differs from {dict(e)}")
    if "e3" not in obs:
        return ("C13:rebuild", f"Event(**event) raised {obs.get('e3_error')}")
    e3 = obs["e3"]
    if not (e3 == e and e3.id == e.id):
        return ("C13:rebuild", f"Event(**event) = {dict(e3)} differs from {dict(e)}")
    return None


# ---------------------------------------------------------------------------
# float stream: Model/PyFloat.v against the interpreter


def rand_float(rng):
    k = rng.random()
    if k < 0.25:
        b = rng.choice([1, 5, 10, 20, 30, 31, 32, 33, 34, 40, 45, 50, 51, 52, 53, 54, 60, 63, 64, 66, 70])
        return rng.randrange(-2**b, 2**b) / 10**6
    if k < 0.4:
        return (2 * rng.randrange(-10**7, 10**7) + 1) / 2e6
    if k < 0.5:
        x = (2 * rng.randrange(-10**7, 10**7) + 1) / 2e6
        return math.nextafter(x, rng.choice([-math.inf, math.inf]))
    if k < 0.6:
        return rng.choice([-1, 1]) * math.ldexp(rng.random(), rng.randrange(-1080, 80))
    if k < 0.7:
        e = rng.randrange(48, 56)
        return rng.choice([-1, 1]) * (2.0 ** e + rng.randrange(-64, 64) * 2.0 ** (e - 52))
    if k < 0.8:
        return rng.choice([-1, 1]) * (rng.randrange(0, 2**33) + rng.choice(
            [0.5, 0.25, 0.75, 1 - 2**-20, 2**-20, 0.9999995, 0.0000005, 0.4999995]))
    if k < 0.9:
        return rng.uniform(-3e11, 3e11)
    return rng.choice([0.0, -0.0, float("nan"), float("inf"), -float("inf"), 5e-324, -5e-324, 1.7976931348623157e308,
                       0.5, -0.5, 1.5, 2.5, -1.5, -2.5, 0.9999995, 253402300799.5, 253402300800.0, -62135596800.0,
                       -62135596800.5, 86399999999999.98, 1e19, -1e19, 2.0**63, -2.0**63, 2.0**62, 8.64e13, -8.64e13])


def py_res(f, enc):
    try:
        return fc.res_wire_ok(enc(f()))
    except Exception as ex:
        return fc.res_wire_err(ex)


def gen_float_stream(rng, n):
    """(term, expected wire, description)"""
    out = []
    fixed = FLOAT_DURS + [253402300799.9999, 253402300800.0, -62135596800.0, -62135596800.5, 0.9999995,
                          -0.0000005, -0.0000015, 1e16, 6e16, 1e19, 9.3e18, 2.0**52, 2.0**52 + 1, 2.0**53, -2.0**53 - 2]
    xs = fixed + [rand_float(rng) for _ in range(n)]
    for x in xs:
        h = x.hex() if math.isfinite(x) else repr(x)
        if not (6e16 < abs(x) < 7e16):     # errno / "year out of range" changeover of the platform gmtime: not modelled
            out.append((f"enc_res enc_Z (fromtimestamp_us {fc.coq_float(x)})",
                        py_res(lambda: us_of_dt(datetime.fromtimestamp(x, timezone.utc)), lambda v: [v]), ("fromtimestamp", h)))
        out.append((f"enc_res enc_Z (td_us_of_float_seconds {fc.coq_float(x)})",
                    py_res(lambda: timedelta(seconds=x) // US, lambda v: [v]), ("timedelta(seconds=)", h)))
        out.append((f"enc_res enc_Z (int_of_float {fc.coq_float(x)})", py_res(lambda: int(x), lambda v: [v]), ("int()", h)))
    for _ in range(n):
        b = rng.choice([10, 30, 50, 52, 53, 54, 60, 64, 70, 200, 1100])
        a = rng.randrange(-2**b, 2**b)
        c = rng.choice([10**6, 1000, 10**6, 3, -7, 2**60 + 1, 0, 10**30])
        out.append((f"enc_res enc_float (fdiv_int_int {fc.coq_z(a)} {fc.coq_z(c)})", py_res(lambda: a / c, fc.float_wire), ("int/int", a, c)))
        u = rng.choice([rng.randrange(0, Y2100), rng.randrange(2**51 - 10**7, 2**51 + 10**7), rng.randrange(0, 2**53)])
        out.append((f"enc_res enc_float (sqlite_float_param {fc.coq_z(u)})",
                    py_res(lambda: dt(u).timestamp() * 1000000, fc.float_wire), ("timestamp()*1000000", u)))
        k = rng.choice([rng.randrange(-2**56, 2**56), rng.randrange(-10**9, 10**9)])
        out.append((f"enc_res enc_float (total_seconds_of_us {fc.coq_z(k)})",
                    py_res(lambda: timedelta(microseconds=k).total_seconds(), fc.float_wire), ("total_seconds", k)))
        usf = rng.randrange(0, 10**6)
        if rng.random() < 0.5:
            usf = usf - usf % 1000 + rng.choice([0, 1, 999])
        ms = 1 + int(usf / 1000)
        out.append((f"enc_res enc_Z (ms_floor_float {usf}) ++ enc_res enc_Z (bucket_start_us {usf}) ++ enc_res enc_pairZ (bucket_end_parts {usf})",
                    [0, int(usf / 1000) * 1000, 0, 1000 * int(usf / 1000), 0, int(ms / 1000), (1000 * ms) % 1000000], ("ms-expr", usf)))
    return out


# ---------------------------------------------------------------------------
# codec stream: Model/Codec.v against the real sqlite.py helpers (no database involved; the C01 check
# owns the real stores)


def gen_codec_cases(rng, n):
    cases = [(2250122380221000, 2141079079834), (0, 0), (1000, 1), (2**51 - 2**51 % 1000 - 1000, 2000), (Y2100 - 1000, 999),
             (2**52 - 2**52 % 1000 - 1000, 999), (1_600_000_000_123_000, 30 * 86400 * 10**6)]
    for _ in range(n):
        ts = rng.choice([rng.randrange(0, Y2100), rng.randrange(2**51 - 10**9, 2**51 + 10**9), rng.randrange(0, 2**52)])
        ts -= ts % 1000
        dur = rng.choice([rng.randrange(0, 30 * 86400 * 10**6), rng.randrange(0, 10**7), rng.randrange(0, 2**51)])
        cases.append((ts, dur))
    return cases


def main(argv=None):
    ck = Check("C13", argv)
    common.setup_impl_env()
    # a process-local zone that is not UTC, so that any code path that falls back to the system zone
    # (naive datetimes, fromtimestamp without tz) is observable
    import os
    import time
    os.environ["TZ"] = "Asia/Kathmandu"
    time.tzset()
    from aw_core.models import Event, _timestamp_parse
    from aw_core.schema import get_json_schema
    import aw_datastore.storages.sqlite as sq
    import jsonschema

    # Proofs/PyFloatExhaustive.v: the axiom-free exhaustive proof of the ms floor (10^6 values in the kernel's vm);
    # built and kernel-checked by coqc here, kept out of Props/C13.v's dependencies because coqchk has no vm
    proved = ck.prove(extra_targets=["Proofs/Codec.v", "Proofs/PyFloatExhaustive.v", "Model/EventWire.v"]
                      + tieb_stores.EVENT_CODEC[0], gen_kernels=tieb_stores.EVENT_CODEC[1])   # ties A + B
    rng = ck.rng
    thorough = ck.tier == "thorough"
    schema = get_json_schema("event")
    vcls = jsonschema.validators.validator_for(schema)
    vcls.check_schema(schema)
    validator = vcls(schema, format_checker=jsonschema.FormatChecker())
    labels = common.Labels()
    # histories (harness/c13_hist.py): the pristine snapshot is taken here, before anything of aw_core has been called
    from . import c13_hist
    hist_runner = c13_hist.make_runner(sys.modules[__name__], Event, _timestamp_parse, validator)

    # ---- (0) the real _timestamp_parse on all 10^6 microsecond values, two zones
    for tz, base in ((timezone(timedelta(minutes=345)), datetime(2020, 9, 13, 18, 11, 40)),
                     (timezone(timedelta(hours=-14)), datetime(2041, 4, 21, 1, 59, 59))):
        b = base.replace(tzinfo=tz)
        step = 1 if (thorough or tz.utcoffset(None) > timedelta(0)) else 7
        for us in range(0, 10**6, step):
            r = _timestamp_parse(b.replace(microsecond=us))
            if r.microsecond != us - us % 1000 or r.replace(microsecond=0) != b:
                ck.failing_input("C13:ms-floor", f"_timestamp_parse: microsecond {us} became {r.microsecond}",
                                 {"call": "_timestamp_parse", "datetime": b.replace(microsecond=us).isoformat()})
                break
            ck.evaluations += 1
        ck.count("ms-floor-exhaustive", 10**6 // step)

    # ---- (4) histories: sequences of constructions / assignments / round trips in one process, look-alike timestamps.
    # Each session runs in a process forked from the pristine snapshot, so its findings are self-contained scripts; they
    # are looked for before the single cases below, which all share this process
    hterms, hwires, hdescs = c13_hist.run(ck, hist_runner)
    hist_runner.close()

    # ---- (1) event cases
    cases = gen_event_cases(rng, 60000 if thorough else 2500)
    impl = []
    terms = []
    for case in cases:
        i, (tspec, tobj, tterm), (dspec, dobj, dterm), x = case
        wire, obs = run_event_impl(case, Event, validator, labels)
        impl.append(wire)
        terms.append(f"run_event_case {fc.coq_optz(i)} {tterm} {dterm} {labels.label(x)}")
        bad = oracle_event(case, obs)
        ck.count("ts:" + tspec["form"].split(":")[0])
        ck.count("dur:" + dspec["kind"])
        ck.count("raises" if "error" in obs else "ok")
        moved = "event" in obs and tspec["instant"] is not None and us_of_dt(obs["event"].timestamp) != tspec["instant"]
        nontrivial = moved or tspec["off"] != 0 or dspec["kind"] == "float"
        ck.note_case([i, tspec.get("text", [str(tspec["instant"]), tspec["off"]]), sorted(dspec.items(), key=str),
                      labels.label(x)], nontrivial=nontrivial)
        if moved and tspec["off"] and dspec["kind"] == "float" and "json" in obs:
            ck.sample({"timestamp_in": tspec.get("text", tobj.isoformat() if hasattr(tobj, "isoformat") else str(tobj)),
                       "duration_in": dspec, "json": obs["json"]}, limit=4)
        if bad:
            ck.failing_input(bad[0], bad[1], {"call": "Event(id, timestamp, duration, data)", "id": i,
                                              "timestamp": tspec.get("text", str(tobj)), "offset_us": tspec["off"],
                                              "duration": {k: (v.hex() if isinstance(v, float) else v) for k, v in dspec.items()},
                                              "data": x})
    # ---- (2) float stream, (3) codec stream
    fstream = gen_float_stream(rng, 30000 if thorough else 1200)
    ccases = gen_codec_cases(rng, 20000 if thorough else 1500)
    cimpl = []
    cterms = []
    for ts, dur in ccases:
        def run():
            e = Event(timestamp=dt(ts), duration=timedelta(microseconds=dur), data={})
            s, en = sq._event_to_us(e)
            if (s, en) != (ts, ts + dur):
                raise AssertionError("encode is not exact")
            back = sq._rows_to_events([(1, s, en, "{}")])[0]
            return [us_of_dt(back.timestamp), back.duration // US]
        w = py_res(run, lambda v: v)
        cimpl.append(w)
        cterms.append(f"run_sqlite_codec {fc.coq_z(ts)} {fc.coq_z(dur)} ++ run_peewee_dur {fc.coq_z(dur)} ++ run_peewee_ts {fc.coq_z(ts)}")
        f = timedelta(microseconds=dur).total_seconds()
        w2 = [0] + fc.float_wire(f) + py_res(lambda: timedelta(seconds=f) // US, lambda v: [v])
        text = str(dt(ts))
        w3 = enc_text(text) + py_res(lambda: us_of_dt(Event(timestamp=text).timestamp), lambda v: [v])
        cimpl[-1] = w + w2 + w3
        ck.evaluations += 1
        ck.count("codec")
        # oracle (C01's codec clause, for the unchanged helper functions): exact round trip below 2^52
        if ts + dur < 2**52 and w != [0, ts, dur]:
            ck.failing_input("C13:sqlite-codec", f"sqlite helpers: ({ts},{dur}) read back as {w}", {"ts_us": ts, "dur_us": dur})

    if proved:
        try:
            model = fc.run_cases("C13", IMPORTS, terms + [t for t, _, _ in fstream] + cterms + hterms, tag="ev")
        except Exception as ex:  # noqa
            ck.broken.append("in-Coq evaluation of the cases failed: " + str(ex)[:400])
            model = None
        if model is not None:
            m_ev = model[:len(terms)]
            m_fl = model[len(terms):len(terms) + len(fstream)]
            m_co = model[len(terms) + len(fstream):len(terms) + len(fstream) + len(cterms)]
            for term, mo, io, desc in zip(hterms, model[len(terms) + len(fstream) + len(cterms):], hwires, hdescs):
                if mo != io:
                    ck.disagreement("event-history", f"{desc}: {term[:300]}: model {mo[:40]} impl {io[:40]}",
                                    {"term": term, "model": mo, "impl": io, "history": desc})
            for case, term, mo, io in zip(cases, terms, m_ev, impl):
                if mo != io:
                    ck.disagreement("event", f"{term[:300]}: model {mo[:40]} impl {io[:40]}",
                                    {"term": term, "model": mo, "impl": io})
            for (term, want, desc), mo in zip(fstream, m_fl):
                ck.evaluations += 1
                ck.count("float:" + desc[0])
                if mo != want:
                    ck.disagreement("pyfloat", f"{desc}: model {mo} interpreter {want}", {"term": term, "model": mo, "impl": want})
            for term, mo, io in zip(cterms, m_co, cimpl):
                if mo != io:
                    ck.disagreement("codec", f"{term}: model {mo[:30]} impl {io[:30]}", {"term": term, "model": mo, "impl": io})
    # ---- the JSON text layer: Model/Json.v, Props/C01Json.v vs json.dumps / json.loads / to_json_str (harness/jsonmodel.py)
    from . import jsonmodel
    jsonmodel.json_check(ck)
    ck.trusted += ["in-Coq evaluation route: harness/floatcases.py writes cases files, coqc evaluates them with vm_compute "
                   "(kernel primitive floats = hardware binary64), textual normal forms parsed back",
                   "oracles (not modelled): iso8601.parse_date outside the YYYY-MM-DD[T ]HH:MM:SS[.f][Z|+-HH:MM] subset, "
                   "json.dumps/json.loads (float repr round trip, string escaping), jsonschema"]
    ck.assumptions += ["event data compared through harness-assigned labels (one per Python == class)",
                       "the ms-floor clause of the oracle applies to offsets that are whole milliseconds (every tz database "
                       "zone and every ISO-8601 offset); sub-millisecond utcoffsets are run for correspondence only",
                       "the JSON round-trip clause of the oracle applies to |duration| < 2^33 * 10^6 us (~272 years), the "
                       "bound of the proved theorem; longer durations are run for correspondence only",
                       "schema validity and the JSON text layer are tested, not proved (C13_json_shape covers the timestamp "
                       "text and the finiteness of the duration number)"]
    return ck.finish(RULE)


if __name__ == "__main__":
    sys.exit(main())
