"""C11 — a query means what its text says.  Programs are generated from the reference grammar
(Model/QueryRef.v), printed under random layouts, run through aw_query.query2.query, through the
extracted model (driver ExC17) and through an independent Python reference evaluator over the
generated AST (the oracle)."""
import itertools
import sys
from datetime import timedelta

from . import common
from .common import Check
from .c17_impl import HarnessBroken, Impl, Unsupported, QNAME, T_END, T_START, show_outcome

RULE = ("every token kind in every argument position (all 216 kind triples of a 3-argument call, each kind "
        "nested in call / list / dict-value position), the defect-13 witnesses, what the model's wf admits beyond "
        "that (a 4300-digit literal, names that look like built-ins / predefined names / underscores only, dict "
        "in dict to depth 12, call/list/dict chains to depth 14, rebinding chains), two programs under every "
        "single ASCII white-space character at every slot, then seeded random programs (depth <= 5 wide or "
        "<= 14 narrow, 0-3 arguments, 1-8 statements with rebinding and aliasing, random names, strings "
        "containing brackets, commas, both quotes, backslashes, '=', ':' and non-ASCII text, dict literals with "
        "distinct keys, the built-ins that are pure on literals plus echo), each under two random layouts "
        "(blanks from all ten ASCII white-space characters); non-trivial = distinct program text containing a "
        "call, a list or a dict")

# every ASCII character str.strip() removes (Model/PyStr.v is_space): \t \n \x0b \x0c \r \x1c-\x1f and the space
BLANKS = ["", "", " ", " ", "  ", "\n", "\t", " \n ", "\r\n", "\x0c", "\n\n  ", "\r", "\x0b", "\x1c", "\x1d", "\x1e",
          "\x1f", " \t\r\n\x0c\x0b\x1c\x1f "]
STR_ALPHA = list("abz09 ()[]{},:=\"'\\_-.") + ["é", "→", "\n", "\t"]
NAMES = ["x", "y", "z", "events", "_a1", "Q", "n0"]
# names the grammar admits ([A-Za-z_][A-Za-z0-9_]*) that look like something else: built-in names, prefixes and
# extensions of the predefined names, underscores only, digits inside
ODD_NAMES = ["echo", "nop", "limit_events", "true1", "True_", "RETURNS", "RETURN_", "RETUR", "NAME2", "_", "__", "_0",
             "a_1_b", "e", "E9", "x1x", "xx", "X", "in", "None", "not", "l0l"]
NAME_FIRST = "abcxyzABCXYZ_"
NAME_REST = NAME_FIRST + "0123456789"


def g_name(rng):
    r = rng.random()
    if r < 0.55:
        return rng.choice(NAMES)
    if r < 0.8:
        return rng.choice(ODD_NAMES)
    return rng.choice(NAME_FIRST) + "".join(rng.choice(NAME_REST) for _ in range(rng.choice([0, 1, 2, 3, 6])))
PREDEF = ["true", "false", "True", "False", "NAME", "STARTTIME", "ENDTIME"]


class RefError(Exception):
    def __init__(self, cls):
        self.cls = cls


# The reference evaluator's own table of built-ins: (parameter types or None for variadic, function).
# Independent of aw_query.functions: written from the documented behaviour on literal arguments.
def _empty(*lists):
    def f(*a):
        return []
    return f


REF = {
    "nop": ([], lambda: 1),
    "echo": (None, lambda *a: list(a)),
    "limit_events": (["list", "int"], lambda l, n: l[:n]),
    "concat": (["list", "list"], lambda a, b: a + b),
    "sort_by_timestamp": (["list"], _empty()),
    "sort_by_duration": (["list"], _empty()),
    "flood": (["list"], _empty()),
    "merge_events_by_keys": (["list", "list"], _empty()),
    "filter_keyvals": (["list", "str", "list"], _empty()),
    "exclude_keyvals": (["list", "str", "list"], _empty()),
    "period_union": (["list", "list"], _empty()),
    "sum_durations": (["list"], lambda l: timedelta(0)),
}
EMPTY_ONLY = {"sort_by_timestamp", "sort_by_duration", "flood", "merge_events_by_keys", "filter_keyvals",
              "exclude_keyvals", "period_union", "sum_durations"}


def py_isinstance(v, t):
    return {"list": isinstance(v, list), "str": isinstance(v, str), "int": isinstance(v, int)}[t]


def ref_eval(t, ns):
    k = t[0]
    if k == "int":
        return int(t[1])
    if k == "str":
        return t[2]
    if k == "var":
        if t[1] not in ns:
            raise RefError("InterpretError")
        return ns[t[1]]
    if k == "list":
        return [ref_eval(x, ns) for x in t[1]]
    if k == "dict":
        return {key: ref_eval(v, ns) for (_, key), v in t[1]}
    name, args = t[1], t[2]
    if name not in REF:
        raise RefError("InterpretError")
    vals = [ref_eval(a, ns) for a in args]
    types, fn = REF[name]
    if types is not None:
        for ty, v in zip(types, vals):
            if not py_isinstance(v, ty):
                raise RefError("FunctionError")
        if len(vals) != len(types):
            raise RefError("InterpretError")
    return fn(*vals)


def ref_run(prog):
    ns = {"True": True, "False": False, "true": True, "false": False, "NAME": QNAME,
          "STARTTIME": T_START.isoformat(), "ENDTIME": T_END.isoformat()}
    for name, e in prog:
        ns[name] = ref_eval(e, ns)
    if "RETURN" not in ns:
        raise RefError("ParseError")
    return ns["RETURN"]


def deep_eq(a, b):
    if type(a) is not type(b):
        return False
    if isinstance(a, list):
        return len(a) == len(b) and all(deep_eq(x, y) for x, y in zip(a, b))
    if isinstance(a, dict):
        return list(a.keys()) == list(b.keys()) and all(deep_eq(a[k], b[k]) for k in a)
    return a == b


# -- printing (mirrors Model/QueryRef.v: print) ----------------------------------------------

def escape(q, s):
    return s.replace(q, "\\" + q)


def p_term(t, bl):
    k = t[0]
    if k == "int":
        return t[1]
    if k == "str":
        return t[1] + escape(t[1], t[2]) + t[1]
    if k == "var":
        return t[1]
    if k == "call":
        return t[1] + "(" + p_inner([p_term(a, bl) for a in t[2]], bl) + ")"
    if k == "list":
        return "[" + p_inner([p_term(a, bl) for a in t[1]], bl) + "]"
    return "{" + p_inner([q + escape(q, key) + q + bl() + ":" + bl() + p_term(v, bl) for (q, key), v in t[1]], bl) + "}"


def p_inner(parts, bl):
    if not parts:
        return bl()
    out = bl() + parts[0]
    for x in parts[1:]:
        out += bl() + "," + bl() + x
    return out + bl()


def p_prog(prog, bl):
    return "".join(bl() + n + bl() + "=" + bl() + p_term(e, bl) + bl() + ";" for n, e in prog) + bl()


# -- generation ------------------------------------------------------------------------------

def g_str(rng):
    n = rng.choice([0, 1, 1, 2, 3, 5, 8])
    s = "".join(rng.choice(STR_ALPHA) for _ in range(n))
    while s.endswith("\\"):
        s = s[:-1] + rng.choice("ab\"'")
    return ("str", rng.choice("\"'"), s)


def g_int(rng):
    if rng.random() < 0.03:      # beyond the driver's 63-bit text glue: oracle only
        return ("int", rng.choice([str(2 ** 61), str(2 ** 63), str(2 ** 64 + 1), str(rng.randrange(10 ** 40))]))
    return ("int", rng.choice(["0", "1", "2", "7", "10", "007", "42", "000", "0" * 30 + "5", str(2 ** 61 - 1),
                               str(rng.randrange(10 ** 6)), str(rng.randrange(10 ** 17)), str(rng.randrange(2 ** 61))]))


def g_term(rng, depth, bound):
    leafy = depth <= 0 or rng.random() < 0.25
    r = rng.random()
    if leafy:
        if r < 0.35:
            return g_int(rng)
        if r < 0.65:
            return g_str(rng)
        if r < 0.95:
            return ("var", rng.choice(bound + PREDEF if rng.random() < 0.97 else ["undefined_v"]))
        return ("call", "nop", [])
    if r < 0.4:
        return g_call(rng, depth, bound)
    if r < 0.7:
        return ("list", [g_term(rng, depth - 1, bound) for _ in range(rng.choice([0, 1, 2, 3]))])
    keys = []
    ents = []
    for _ in range(rng.choice([0, 1, 2, 3])):
        _, q, s = g_str(rng)
        if s in keys:
            continue
        keys.append(s)
        ents.append(((q, s), g_term(rng, depth - 1, bound)))
    return ("dict", ents)


def g_list_literal(rng, depth, bound):
    return ("list", [g_term(rng, depth - 1, bound) for _ in range(rng.choice([0, 1, 2, 3]))])


def g_call(rng, depth, bound):
    r = rng.random()
    if r < 0.5:
        return ("call", "echo", [g_term(rng, depth - 1, bound) for _ in range(rng.choice([0, 1, 2, 3]))])
    if r < 0.6:
        return ("call", "nop", [])
    if r < 0.72:
        return ("call", "limit_events", [g_list_literal(rng, depth, bound), g_int(rng)])
    if r < 0.84:
        return ("call", "concat", [g_list_literal(rng, depth, bound), g_list_literal(rng, depth, bound)])
    if r < 0.94:
        name = rng.choice(sorted(EMPTY_ONLY))
        return ("call", name, [("list", []) if ty == "list" else g_str(rng) for ty in REF[name][0]])
    if r < 0.97:     # wrong count or wrong type: the reference predicts the error class
        name = rng.choice(["limit_events", "concat", "nop"])
        return ("call", name, [g_term(rng, 0, bound) for _ in range(rng.choice([0, 1, 2, 3]))])
    return ("call", "no_such_function", [g_term(rng, depth - 1, bound) for _ in range(rng.choice([0, 1]))])


def g_deep(rng, depth, bound):
    """a narrow, deep term: every level is a call / list / dict with one nested child (and sometimes a leaf beside it)"""
    if depth <= 0:
        return g_term(rng, 0, bound)
    child = g_deep(rng, depth - 1, bound)
    side = [g_term(rng, 0, bound)] if rng.random() < 0.4 else []
    kids = side + [child] if rng.random() < 0.5 else [child] + side
    r = rng.random()
    if r < 0.35:
        return ("call", "echo", kids)
    if r < 0.65:
        return ("list", kids)
    ents, keys = [], []
    for kid in kids:
        _, q, s = g_str(rng)
        if s in keys:
            s = s + "k" + str(len(keys))
        keys.append(s)
        ents.append(((q, s), kid))
    return ("dict", ents)


def g_prog(rng):
    n = rng.choice([1, 1, 2, 3, 4, 4, 6, 8])
    bound = []
    prog = []
    for i in range(n):
        name = "RETURN" if i == n - 1 else (g_name(rng) if rng.random() < 0.9 else "RETURN")
        if rng.random() < 0.12:
            e = g_deep(rng, rng.choice([6, 8, 10, 12]), list(bound))
        else:
            e = g_term(rng, rng.choice([1, 2, 3, 4, 5]), list(bound))
        if bound and rng.random() < 0.2:
            e = ("var", rng.choice(bound))          # aliasing
        prog.append((name, e))
        if name not in bound:
            bound.append(name)
    return prog


KIND_REP = {
    "int": ("int", "12"), "str": ("str", '"', "a,(b]"), "var": ("var", "true"), "call": ("call", "nop", []),
    "list": ("list", [("int", "1"), ("int", "2")]), "dict": ("dict", [(('"', "k"), ("int", "3"))]),
}


def corpus():
    kinds = list(KIND_REP)
    for a, b, c in itertools.product(kinds, repeat=3):
        yield [("RETURN", ("call", "echo", [KIND_REP[a], KIND_REP[b], KIND_REP[c]]))]
    for a, b in itertools.product(kinds, repeat=2):
        yield [("RETURN", ("list", [KIND_REP[a], ("call", "echo", [KIND_REP[b], KIND_REP[a]]), KIND_REP[b]]))]
        yield [("RETURN", ("dict", [(("'", "p"), KIND_REP[a]), (('"', "q"), ("list", [KIND_REP[b]])), (('"', "r"), KIND_REP[b])]))]
        yield [("x", KIND_REP[a]), ("y", ("var", "x")), ("x", KIND_REP[b]), ("RETURN", ("call", "echo", [("var", "x"), ("var", "y")]))]
    # the witnesses of defect 13
    yield [("RETURN", ("call", "echo", [("list", [("int", "1")]), ("int", "2"), ("int", "3")]))]
    yield [("RETURN", ("call", "echo", [("list", [("int", "1"), ("int", "2")]), ("list", [("int", "3"), ("int", "4")]), ("int", "5")]))]
    yield [("RETURN", ("call", "echo", [("dict", [(('"', "a"), ("int", "1"))]), ("int", "2"), ("int", "3")]))]
    yield [("RETURN", ("call", "echo", [("call", "nop", []), ("int", "2"), ("int", "3")]))]
    for s in ['a"b', "a'b", "\\\"", "\\'", "a\\b", "=", "(", ")]}", ",", ":", "[(", 'x\\"y', "é→", ' " ', "''", '""']:
        for q in "\"'":
            yield [("RETURN", ("call", "echo", [("str", q, s), ("list", [("str", q, s)]), ("dict", [((q, s), ("str", q, s))])]))]


def corpus_more():
    """what Model/QueryRef.v's wf admits beyond the first corpus: the digit limit, odd names, dict in dict, deep chains"""
    yield [("RETURN", ("int", "9" * 4300))]                       # sys.get_int_max_str_digits() digits exactly
    yield [("RETURN", ("list", [("int", "0" * 4299 + "7"), ("int", "1" + "0" * 60)]))]
    for n in ODD_NAMES:
        yield [(n, ("list", [("int", "1"), ("str", "'", n)])), ("RETURN", ("call", "echo", [("var", n), ("var", n)]))]
        yield [(n, ("int", "1")), (n, ("list", [("var", n), ("var", n)])), ("RETURN", ("dict", [(('"', n), ("var", n))]))]
    d = ("int", "0")
    for i in range(12):
        d = ("dict", [(("'", "k%d" % i), d), (('"', "j"), ("list", [("int", str(i))]))])
    yield [("RETURN", d)]
    c = ("str", '"', "x")
    for i in range(14):
        c = [("call", "echo", [c]), ("list", [c]), ("dict", [(('"', "a,b:c"), c)])][i % 3]
    yield [("RETURN", c)]
    yield [("a", ("dict", [(('"', ""), ("dict", [(("'", ""), ("dict", []))]))])), ("b", ("var", "a")), ("a", ("int", "1")),
           ("RETURN", ("list", [("var", "a"), ("var", "b")]))]
    # rebinding chains: the value seen is always the latest one
    yield [("x", ("int", "1")), ("y", ("var", "x")), ("x", ("list", [("var", "x"), ("var", "y")])), ("y", ("var", "x")),
           ("x", ("dict", [(("'", "x"), ("var", "x")), (("'", "y"), ("var", "y"))])), ("RETURN", ("call", "echo", [("var", "x"), ("var", "y")]))]
    yield [("RETURN", ("int", "1")), ("x", ("var", "RETURN")), ("RETURN", ("list", [("var", "x"), ("var", "RETURN")])),
           ("RETURN", ("call", "echo", [("var", "RETURN"), ("var", "x")]))]


LAYOUT_GRID_PROGS = [
    [("x", ("list", [("int", "1"), ("str", '"', "a b")])), ("RETURN", ("call", "echo", [("var", "x"), ("dict", [(("'", "k"), ("call", "nop", [])), (('"', "l"), ("list", []))]), ("int", "3")]))],
    [("RETURN", ("dict", [(('"', "a"), ("dict", [(("'", "b"), ("list", [("call", "echo", []), ("dict", [])]))])), (('"', "c"), ("var", "true"))]))],
]
SINGLE_BLANKS = [" ", "\t", "\n", "\x0b", "\x0c", "\r", "\x1c", "\x1d", "\x1e", "\x1f", "\r\n"]


def depth_of(t):
    k = t[0]
    if k in ("int", "str", "var"):
        return 0
    kids = t[2] if k == "call" else (t[1] if k == "list" else [v for _, v in t[1]])
    return 1 + max([depth_of(x) for x in kids], default=0)


def features(prog):
    """what of the grammar a program exercises (for the evidence's input distribution)"""
    out = set()

    def walk(t, inside_dict):
        k = t[0]
        if k == "int":
            if len(t[1]) > 18:
                out.add("int:more-than-18-digits")
            if len(t[1]) > 1 and t[1][0] == "0":
                out.add("int:leading-zero")
        elif k == "str":
            strf(t[1], t[2])
        elif k == "var":
            namef(t[1])
        elif k == "call":
            out.add("call:%d-args" % len(t[2]))
            for a in t[2]:
                walk(a, False)
        elif k == "list":
            for a in t[1]:
                walk(a, False)
        else:
            if inside_dict:
                out.add("dict:directly-inside-dict")
            for (q, key), v in t[1]:
                strf(q, key)
                walk(v, True)

    def strf(q, s):
        other = "'" if q == '"' else '"'
        if q in s:
            out.add("str:own-quote-inside")
        if other in s:
            out.add("str:other-quote-inside")
        if "\\" in s:
            out.add("str:backslash-inside")
        if any(c in s for c in "()[]{}"):
            out.add("str:bracket-inside")
        if any(c in s for c in ",:="):
            out.add("str:separator-inside")

    def namef(n):
        if n in ODD_NAMES:
            out.add("name:odd")
        elif n not in NAMES and n not in PREDEF and n != "RETURN":
            out.add("name:random")

    for n, e in prog:
        namef(n)
        walk(e, False)
    return out


def main(argv=None):
    ck = Check("C11", argv)
    common.setup_impl_env()
    impl = Impl()
    for n in REF:
        if n not in impl.sigs:
            raise HarnessBroken(f"built-in {n} is not registered")
    ck.run_witnesses(["w13"])
    ck.prove(extra_targets=["Bridge/BridgeQuery.v"],
             gen_kernels=["query_header", "QString.check", "QInteger.check", "QFunction.check", "QDict.check",
                          "QList.check", "QVariable.check", "qtypes", "_parse_token", "parse_methods", "parse",
                          "create_namespace", "get_return", "_verify_variable_is_type", "q2_typecheck",
                          "q2_function", "interpreter_text", "query_footer"])  # tie B: translate/k_query.py
    have_driver = ck.driver("ExC17")

    quick = ck.tier == "quick"
    progs = [("corpus", p, None) for p in corpus()] + [("corpus", p, None) for p in corpus_more()]
    for p in LAYOUT_GRID_PROGS:         # every white-space character alone at every slot
        for b in SINGLE_BLANKS:
            progs.append(("layout-grid", p, [lambda b=b: b]))
    for _ in range(2500 if quick else 150000):
        progs.append(("random", g_prog(ck.rng), None))

    compact = lambda: ""
    wire, expect = [], []
    seen = set()
    for stream, prog, fixed_layouts in progs:
        try:
            want = ("value", ref_run(prog))
        except RefError as e:
            want = ("error", e.cls)
        outs = []
        layouts = fixed_layouts if fixed_layouts is not None else \
                  [compact, lambda: ck.rng.choice(BLANKS)] if stream == "corpus" else \
                  [lambda: ck.rng.choice(BLANKS), lambda: ck.rng.choice(BLANKS)]
        feats = features(prog)
        depth = max(depth_of(e) for _, e in prog)
        for bl in layouts:
            text = p_prog(prog, bl)
            if text in seen:
                continue
            seen.add(text)
            ck.count("depth=%02d" % depth)
            for f in feats:
                ck.count(f)
            for b in SINGLE_BLANKS[:-1]:
                if b in text:
                    ck.count("blank:%r" % b)
            r = impl.run(text)
            kind, payload = r["outcome"]
            got = ("value", payload) if kind == "value" else (kind, payload)
            outs.append(got)
            ck.count("stream:" + stream)
            ck.count("outcome:" + (kind if kind != "error" else payload))
            ck.count("statements=%d" % len(prog))
            ck.note_case(text, nontrivial=any(c in text for c in "([{"))
            ok = (got[0] == want[0] and (deep_eq(got[1], want[1]) if got[0] == "value" else got[1] == want[1]))
            if not ok:
                ck.failing_input("C11:value-differs-from-text",
                                 f"{text!r} evaluates to {got[1]!r}, its text denotes {want[1]!r}",
                                 {"query": text, "implementation": repr(got[1]), "reference": repr(want[1]),
                                  "ast": repr(prog), "call": "aw_query.query2.query('q-name', query, 2020-01-01Z, 2020-01-02Z, Datastore(MemoryStorage))"})
            if len(ck.samples) < 6 and stream == "random" and kind == "value" and len(text) > 40:
                ck.sample({"query": text, "value": repr(payload)[:200]})
            try:
                case, log, wantw = impl.model_case(text, r)
            except Unsupported as e:
                ck.count("outside-model:" + str(e)[:40])
                continue
            wire.append(case)
            expect.append((stream, text, log, wantw))
        if len(outs) == 2 and not (outs[0][0] == outs[1][0] and (deep_eq(outs[0][1], outs[1][1]) if outs[0][0] == "value" else outs[0][1] == outs[1][1])):
            ck.failing_input("C11:layout-changes-result", f"two layouts of one program give {outs[0][1]!r} and {outs[1][1]!r}",
                             {"ast": repr(prog), "results": [repr(o[1]) for o in outs]})

    if have_driver and wire:
        model = common.run_driver("C11", wire)
        for (stream, text, log, wantw), mo in zip(expect, model):
            if mo == [-999] or mo == [-998] or len(mo) != 3:
                ck.disagreement("query", f"driver rejected the case for {text!r}", {"query": text, "model": mo})
                continue
            out, mlog, exh = mo
            if out != wantw or mlog != log or exh != 0:
                what = (f"{text!r}: model {show_outcome(out)} / implementation {show_outcome(wantw)}"
                        if out != wantw else f"{text!r}: built-in body calls differ")
                ck.disagreement("query", what, {"query": text, "stream": stream, "model_outcome": show_outcome(out),
                                                 "impl_outcome": show_outcome(wantw), "model_calls": mlog, "impl_calls": log})
    ck.assumptions += [
        "the reference evaluator's table of built-ins (nop, echo, limit_events, concat and the transforms on empty lists) is "
        "written from their documented behaviour on literal arguments, independently of aw_query.functions",
        "built-in bodies are an oracle for the model (replayed from the implementation's recorded calls)",
        "string literals: no ';' and no trailing backslash in the content; non-ASCII only inside string literals",
        "integer values beyond 2^61 are compared with the reference evaluator only (driver text glue); CPython's "
        "recursion limit not modelled (depth <= 14)",
    ]
    return ck.finish(RULE)


if __name__ == "__main__":
    try:
        sys.exit(main())
    except HarnessBroken as e:
        print(f"VIOLATION property=C11 replay=none no-failing-input-found (harness cannot read the registry: {e})")
        sys.exit(1)
