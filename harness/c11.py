"""C11 — a query means what its text says.  Programs are generated from the reference grammar
(Model/QueryRef.v), printed under random layouts, run through aw_query.query2.query, through the
extracted model (driver ExC17) and through an independent Python reference evaluator over the
generated AST (the oracle)."""
import itertools
import sys
import time

from . import common
from .common import Check
from .c11_ref import EMPTY_ONLY as REF_EMPTY_ONLY, REF, arity, denotation
from .c17 import ENVS, HUNG, SPECIAL_CHARS, leave, rejection_block, report_blackbox_streams, report_harness_state
from .c17_impl import (B1_EVENTS, HOUR, MINUTE, HarnessBroken, Impl, Unsupported, QNAME, T_END, T_START, blackbox_skip,
                       show_outcome)
from .c17_session import Session, canon, minimise, show_canon, unroll

RULE = ("every token kind in every argument position (all 216 kind triples of a 3-argument call, each kind "
        "nested in call / list / dict-value position), the defect-13 witnesses, what the model's wf admits beyond "
        "that (a 4300-digit literal, names that look like built-ins / predefined names / underscores only, dict "
        "in dict to depth 12, call/list/dict chains to depth 14, rebinding chains), two programs under every "
        "single ASCII white-space character at every slot, then seeded random programs (depth <= 5 wide or "
        "<= 14 narrow, 0-3 arguments, 1-8 statements with rebinding and aliasing, random names, strings "
        "containing brackets, commas, both quotes, backslashes, '=', ':' and non-ASCII text, dict literals with "
        "distinct keys, the built-ins that are pure on literals plus echo), each under two random layouts "
        "(blanks from all ten ASCII white-space characters); HISTORY and CONTEXT: the identical call text again "
        "after its variable arguments were rebound (every call shape x every nesting, and as a mutation of the random "
        "programs), identical literal-argument calls with an in-place built-in (categorize, tag) applied to one "
        "occurrence or STARTTIME / ENDTIME rebound in between (on buckets with events; the reference evaluator is read "
        "both with immutable values and with Python's object semantics, programs on which the two differ are skipped), "
        "RETURN assigned early / several times / followed by further and by failing statements, SESSIONS of several "
        "queries in one process (a failing query first, the same call texts afterwards with other values; one text "
        "asked of two datastores with different contents alive at once; a text asked three times), 10 001-element "
        "lists; every built-in the reference evaluator knows with EVERY admissible number of written arguments (least .. most of "
        "the frozen registry: optional parameters supplied and left out; echo with 0-3), arguments of the declared types from a "
        "pool (bucket ids / id fragments, hostnames, event lists), literal and through variables, the call bare / in a list / in a "
        "dict / as an argument / assigned and repeated, against two datastores whose buckets carry different hostnames; "
        "every query of a session is compared with the reference and the model run on that query alone; "
        "string contents with every line-boundary / white-space / zero-width / normalisation-sensitive code point (CR LF, CR, VT, "
        "FF, FS-US, NEL, LS, PS, NBSP, BOM, NUL, lone surrogates, combining sequences, ..) in every literal position; every second "
        "program's second layout under a process-level setting a host may have made (logging at DEBUG with a formatting handler, "
        "lowered recursion limit, warnings as errors, other local time zones, no int-digit limit); a third of the session queries "
        "on worker threads that stay alive; well-formed programs after runs of hundreds of rejected queries whose error sits "
        "inside nested elements; "
        "non-trivial = distinct program text containing a call, a list or a dict")

# every ASCII character str.strip() removes (Model/PyStr.v is_space): \t \n \x0b \x0c \r \x1c-\x1f and the space
BLANKS = ["", "", " ", " ", "  ", "\n", "\t", " \n ", "\r\n", "\x0c", "\n\n  ", "\r", "\x0b", "\x1c", "\x1d", "\x1e",
          "\x1f", " \t\r\n\x0c\x0b\x1c\x1f "]
STR_ALPHA = list("abz09 ()[]{},:=\"'\\_-.") + ["é", "→", "\n", "\t"]
NAMES = ["x", "y", "z", "events", "_a1", "Q", "n0"]
# names the grammar admits ([A-Za-z_][A-Za-z0-9_]*) that look like something else: built-in names, prefixes and
# extensions of the predefined names, underscores only, digits inside
ODD_NAMES = ["echo", "nop", "limit_events", "true1", "True_", "RETURNS", "RETURN_", "RETUR", "NAME2", "_", "__", "_0",
             "a_1_b", "e", "E9", "x1x", "xx", "X", "in", "None", "not", "l0l"]
NAME_FIRST = "abcxyzABCXYZ_"
NAME_REST = NAME_FIRST + "0123456789"


def g_name(rng):
    r = rng.random()
    if r < 0.55:
        return rng.choice(NAMES)
    if r < 0.8:
        return rng.choice(ODD_NAMES)
    return rng.choice(NAME_FIRST) + "".join(rng.choice(NAME_REST) for _ in range(rng.choice([0, 1, 2, 3, 6])))
PREDEF = ["true", "false", "True", "False", "NAME", "STARTTIME", "ENDTIME"]


# built-ins the random stream calls on empty lists only (the reference evaluator: harness/c11_ref.py)
EMPTY_ONLY = {"sort_by_timestamp", "sort_by_duration", "flood", "merge_events_by_keys", "filter_keyvals",
              "exclude_keyvals", "period_union", "sum_durations"}


# -- printing (mirrors Model/QueryRef.v: print) ----------------------------------------------

def escape(q, s):
    return s.replace(q, "\\" + q)


def p_term(t, bl, memo=None):
    """memo: {id(term): text} - a term OBJECT that occurs several times in a program / a session is printed
    once and its text reused, so that the occurrences are character for character the same call text."""
    if memo is not None and id(t) in memo:
        return memo[id(t)]
    k = t[0]
    if k == "int":
        out = t[1]
    elif k == "str":
        out = t[1] + escape(t[1], t[2]) + t[1]
    elif k == "var":
        out = t[1]
    elif k == "call":
        out = t[1] + "(" + p_inner([p_term(a, bl, memo) for a in t[2]], bl) + ")"
    elif k == "list":
        out = "[" + p_inner([p_term(a, bl, memo) for a in t[1]], bl) + "]"
    else:
        out = "{" + p_inner([q + escape(q, key) + q + bl() + ":" + bl() + p_term(v, bl, memo) for (q, key), v in t[1]], bl) + "}"
    if memo is not None and k in ("call", "list", "dict"):
        memo[id(t)] = out
    return out


def p_inner(parts, bl):
    if not parts:
        return bl()
    out = bl() + parts[0]
    for x in parts[1:]:
        out += bl() + "," + bl() + x
    return out + bl()


def p_prog(prog, bl, memo=None):
    return "".join(bl() + n + bl() + "=" + bl() + p_term(e, bl, memo) + bl() + ";" for n, e in prog) + bl()


# -- generation ------------------------------------------------------------------------------

def g_str(rng):
    n = rng.choice([0, 1, 1, 2, 3, 5, 8])
    # a fifth of the characters from the code points some text routine treats specially (c17.SPECIAL_CHARS: the
    # line boundaries of str.splitlines, white space beyond ASCII, zero-width / format characters, NUL, lone
    # surrogates, what normalisation or case folding rewrites): inside a literal each stands for itself
    s = "".join(rng.choice(STR_ALPHA) if rng.random() < 0.8 else rng.choice(SPECIAL_CHARS) for _ in range(n))
    while s.endswith("\\"):
        s = s[:-1] + rng.choice("ab\"'")
    return ("str", rng.choice("\"'"), s)


def g_int(rng):
    if rng.random() < 0.03:      # beyond the driver's 63-bit text glue: oracle only
        return ("int", rng.choice([str(2 ** 61), str(2 ** 63), str(2 ** 64 + 1), str(rng.randrange(10 ** 40))]))
    return ("int", rng.choice(["0", "1", "2", "7", "10", "007", "42", "000", "0" * 30 + "5", str(2 ** 61 - 1),
                               str(rng.randrange(10 ** 6)), str(rng.randrange(10 ** 17)), str(rng.randrange(2 ** 61))]))


def g_term(rng, depth, bound):
    leafy = depth <= 0 or rng.random() < 0.25
    r = rng.random()
    if leafy:
        if r < 0.35:
            return g_int(rng)
        if r < 0.65:
            return g_str(rng)
        if r < 0.95:
            return ("var", rng.choice(bound + PREDEF if rng.random() < 0.97 else ["undefined_v"]))
        return ("call", "nop", [])
    if r < 0.4:
        return g_call(rng, depth, bound)
    if r < 0.7:
        return ("list", [g_term(rng, depth - 1, bound) for _ in range(rng.choice([0, 1, 2, 3]))])
    keys = []
    ents = []
    for _ in range(rng.choice([0, 1, 2, 3])):
        _, q, s = g_str(rng)
        if s in keys:
            continue
        keys.append(s)
        ents.append(((q, s), g_term(rng, depth - 1, bound)))
    return ("dict", ents)


def g_list_literal(rng, depth, bound):
    return ("list", [g_term(rng, depth - 1, bound) for _ in range(rng.choice([0, 1, 2, 3]))])


def g_call(rng, depth, bound):
    r = rng.random()
    if r < 0.46:
        return ("call", "echo", [g_term(rng, depth - 1, bound) for _ in range(rng.choice([0, 1, 2, 3]))])
    if r < 0.5:      # the built-in with an optional parameter: with and without it
        return ("call", "find_bucket", [("str", rng.choice("\"'"), rng.choice(["b1", "b", "1", "", "b2", "zz"]))]
                + ([("str", rng.choice("\"'"), rng.choice(["h1", "h1", "h2"]))] if rng.random() < 0.6 else []))
    if r < 0.6:
        return ("call", "nop", [])
    if r < 0.72:
        return ("call", "limit_events", [g_list_literal(rng, depth, bound), g_int(rng)])
    if r < 0.84:
        return ("call", "concat", [g_list_literal(rng, depth, bound), g_list_literal(rng, depth, bound)])
    if r < 0.94:
        name = rng.choice(sorted(EMPTY_ONLY))
        return ("call", name, [("list", []) if ty == "list" else g_str(rng) for ty in REF[name][0]])
    if r < 0.97:     # wrong count or wrong type: the reference predicts the error class
        name = rng.choice(["limit_events", "concat", "nop", "find_bucket"])
        return ("call", name, [g_term(rng, 0, bound) for _ in range(rng.choice([0, 1, 2, 3]))])
    return ("call", "no_such_function", [g_term(rng, depth - 1, bound) for _ in range(rng.choice([0, 1]))])


def g_deep(rng, depth, bound):
    """a narrow, deep term: every level is a call / list / dict with one nested child (and sometimes a leaf beside it)"""
    if depth <= 0:
        return g_term(rng, 0, bound)
    child = g_deep(rng, depth - 1, bound)
    side = [g_term(rng, 0, bound)] if rng.random() < 0.4 else []
    kids = side + [child] if rng.random() < 0.5 else [child] + side
    r = rng.random()
    if r < 0.35:
        return ("call", "echo", kids)
    if r < 0.65:
        return ("list", kids)
    ents, keys = [], []
    for kid in kids:
        _, q, s = g_str(rng)
        if s in keys:
            s = s + "k" + str(len(keys))
        keys.append(s)
        ents.append(((q, s), kid))
    return ("dict", ents)


def g_prog(rng):
    n = rng.choice([1, 1, 2, 3, 4, 4, 6, 8])
    bound = []
    prog = []
    for i in range(n):
        name = "RETURN" if i == n - 1 else (g_name(rng) if rng.random() < 0.9 else "RETURN")
        if rng.random() < 0.12:
            e = g_deep(rng, rng.choice([6, 8, 10, 12]), list(bound))
        else:
            e = g_term(rng, rng.choice([1, 2, 3, 4, 5]), list(bound))
        if bound and rng.random() < 0.2:
            e = ("var", rng.choice(bound))          # aliasing
        prog.append((name, e))
        if name not in bound:
            bound.append(name)
    return prog


KIND_REP = {
    "int": ("int", "12"), "str": ("str", '"', "a,(b]"), "var": ("var", "true"), "call": ("call", "nop", []),
    "list": ("list", [("int", "1"), ("int", "2")]), "dict": ("dict", [(('"', "k"), ("int", "3"))]),
}


def corpus():
    kinds = list(KIND_REP)
    for a, b, c in itertools.product(kinds, repeat=3):
        yield [("RETURN", ("call", "echo", [KIND_REP[a], KIND_REP[b], KIND_REP[c]]))]
    for a, b in itertools.product(kinds, repeat=2):
        yield [("RETURN", ("list", [KIND_REP[a], ("call", "echo", [KIND_REP[b], KIND_REP[a]]), KIND_REP[b]]))]
        yield [("RETURN", ("dict", [(("'", "p"), KIND_REP[a]), (('"', "q"), ("list", [KIND_REP[b]])), (('"', "r"), KIND_REP[b])]))]
        yield [("x", KIND_REP[a]), ("y", ("var", "x")), ("x", KIND_REP[b]), ("RETURN", ("call", "echo", [("var", "x"), ("var", "y")]))]
    # the witnesses of defect 13
    yield [("RETURN", ("call", "echo", [("list", [("int", "1")]), ("int", "2"), ("int", "3")]))]
    yield [("RETURN", ("call", "echo", [("list", [("int", "1"), ("int", "2")]), ("list", [("int", "3"), ("int", "4")]), ("int", "5")]))]
    yield [("RETURN", ("call", "echo", [("dict", [(('"', "a"), ("int", "1"))]), ("int", "2"), ("int", "3")]))]
    yield [("RETURN", ("call", "echo", [("call", "nop", []), ("int", "2"), ("int", "3")]))]
    for s in ['a"b', "a'b", "\\\"", "\\'", "a\\b", "=", "(", ")]}", ",", ":", "[(", 'x\\"y', "é→", ' " ', "''", '""']:
        for q in "\"'":
            yield [("RETURN", ("call", "echo", [("str", q, s), ("list", [("str", q, s)]), ("dict", [((q, s), ("str", q, s))])]))]
    # every special code point alone, between letters, doubled and after a backslash: as a statement's value, a list
    # entry, a dict key and value, a call argument, through a variable
    for c in SPECIAL_CHARS:
        for i, s in enumerate([c, "a" + c + "b", c + c + "z", "x\\" + c]):
            q = "\"'"[i % 2]
            yield [("RETURN", ("call", "echo", [("str", q, s), ("list", [("str", q, s)]), ("dict", [((q, s), ("str", q, s))])]))]
            yield [("t", ("str", q, s)), ("RETURN", ("call", "concat", [("list", [("var", "t")]), ("list", [("dict", [(('"', "k"), ("var", "t"))])])]))]
        yield [("RETURN", ("str", "'", "line one" + c + "line (two), \"x\" = [3]"))]


def corpus_more():
    """what Model/QueryRef.v's wf admits beyond the first corpus: the digit limit, odd names, dict in dict, deep chains"""
    yield [("RETURN", ("int", "9" * 4300))]                       # sys.get_int_max_str_digits() digits exactly
    yield [("RETURN", ("list", [("int", "0" * 4299 + "7"), ("int", "1" + "0" * 60)]))]
    for n in ODD_NAMES:
        yield [(n, ("list", [("int", "1"), ("str", "'", n)])), ("RETURN", ("call", "echo", [("var", n), ("var", n)]))]
        yield [(n, ("int", "1")), (n, ("list", [("var", n), ("var", n)])), ("RETURN", ("dict", [(('"', n), ("var", n))]))]
    d = ("int", "0")
    for i in range(12):
        d = ("dict", [(("'", "k%d" % i), d), (('"', "j"), ("list", [("int", str(i))]))])
    yield [("RETURN", d)]
    c = ("str", '"', "x")
    for i in range(14):
        c = [("call", "echo", [c]), ("list", [c]), ("dict", [(('"', "a,b:c"), c)])][i % 3]
    yield [("RETURN", c)]
    yield [("a", ("dict", [(('"', ""), ("dict", [(("'", ""), ("dict", []))]))])), ("b", ("var", "a")), ("a", ("int", "1")),
           ("RETURN", ("list", [("var", "a"), ("var", "b")]))]
    # rebinding chains: the value seen is always the latest one
    yield [("x", ("int", "1")), ("y", ("var", "x")), ("x", ("list", [("var", "x"), ("var", "y")])), ("y", ("var", "x")),
           ("x", ("dict", [(("'", "x"), ("var", "x")), (("'", "y"), ("var", "y"))])), ("RETURN", ("call", "echo", [("var", "x"), ("var", "y")]))]
    yield [("RETURN", ("int", "1")), ("x", ("var", "RETURN")), ("RETURN", ("list", [("var", "x"), ("var", "RETURN")])),
           ("RETURN", ("call", "echo", [("var", "RETURN"), ("var", "x")]))]



# -- history and context -------------------------------------------------------------------------
# The statement: a call applies the named built-in to the values its arguments have WHERE IT STANDS, every
# time it stands there.  Streams below repeat one call text (the same term object, printed once) with
# something changed in between: its variables rebound, the value of the other occurrence annotated in place,
# the query window rebound, an earlier query (failed or not) of the same process having contained it.

def S(s, q='"'):
    return ("str", q, s)


def I(n):
    return ("int", str(n))


def V(n):
    return ("var", n)


def C(name, *args):
    return ("call", name, list(args))


def L(*items):
    return ("list", list(items))


def D(*pairs):
    return ("dict", [(('"', k), v) for k, v in pairs])


def g_listval(rng, lo=0):
    return L(*[I(rng.randrange(lo, lo + 50)) for _ in range(rng.choice([2, 3, 4]))])


# call shapes over one or two list-valued variables, and what a call may be nested in
CALL_SHAPES = [
    lambda v, w: C("echo", V(v)),
    lambda v, w: C("echo", I(5), V(v), V(w)),
    lambda v, w: C("limit_events", V(v), I(2)),
    lambda v, w: C("concat", V(v), V(w)),
    lambda v, w: C("echo", L(V(v)), D(("k", V(w)))),
    lambda v, w: C("limit_events", C("concat", V(w), V(v)), I(3)),
    lambda v, w: L(V(v), D(("k", V(w)))),                  # no call at all: a list / dict text over variables
    lambda v, w: D(("p", V(v)), ("q", L(V(w), V(v)))),
]
NESTINGS = [
    lambda t, v: t,
    lambda t, v: L(t),
    lambda t, v: D(("k", L(t))),
    lambda t, v: C("echo", t, V(v)),
    lambda t, v: C("concat", t, L(I(99))),
]
FAILING = [(C("query_bucket", S("no-such-bucket")), "FunctionError"), (V("undefined_v"), "InterpretError"),
           (C("concat", I(1), I(2)), "FunctionError"), (C("nop", I(1)), "InterpretError"),
           (C("no_such_function"), "InterpretError")]


def repeat_prog(shape, nesting, vals, names=("x", "y"), rounds=2, direct=False):
    """x = vals[0]; y = vals[1]; r0 = T; x = vals[2]; y = ..; r1 = T; ..; RETURN = [r0, r1, ..(, T)] with T one
    term object.  Returns (program, T)."""
    v, w = names
    t = nesting(shape(v, w), v)
    vals = list(vals)
    prog = [(v, vals.pop(0)), (w, vals.pop(0))]
    outs = []
    for i in range(rounds):
        prog.append(("r%d" % i, t))
        outs.append(V("r%d" % i))
        if i + 1 < rounds or direct:
            for name in (v, w):
                if vals:
                    prog.append((name, vals.pop(0)))
    prog.append(("RETURN", L(*(outs + ([t] if direct else [])))))
    return prog, t


def g_repeat(rng):
    names = tuple(rng.sample(NAMES, 2))
    rounds = rng.choice([2, 2, 3])
    vals = [g_listval(rng, 100 * i) for i in range(2 * rounds + 2)]
    if rng.random() < 0.3:                  # the new value is computed from the old one / from an earlier result
        vals[2] = rng.choice([L(V(names[0]), I(1)), V("r0"), C("concat", V(names[0]), V(names[1]))])
    return repeat_prog(rng.choice(CALL_SHAPES), rng.choice(NESTINGS), vals, names, rounds, rng.random() < 0.4)[0]


def vars_of(t, out=None):
    out = [] if out is None else out
    k = t[0]
    if k == "var":
        if t[1] not in out:
            out.append(t[1])
    elif k in ("call", "list"):
        for a in (t[2] if k == "call" else t[1]):
            vars_of(a, out)
    elif k == "dict":
        for _, v in t[1]:
            vars_of(v, out)
    return out


def with_repeat(rng, prog):
    """Any program: one of its expressions that contains a call over variables is evaluated a second time
    (same term object) after some of those variables were rebound."""
    cands = [(n, e) for n, e in prog[:-1] if e[0] in ("call", "list", "dict") and [v for v in vars_of(e) if v not in PREDEF]]
    if not cands:
        return None
    n, e = rng.choice(cands)
    used = [v for v in vars_of(e) if v not in PREDEF]
    out = list(prog[:-1])
    if n != "RETURN":
        out.append(("rp_first", V(n)))
    for v in used:
        if rng.random() < 0.8:
            out.append((v, g_term(rng, rng.choice([0, 1, 2]), [])))
    out.append(("rp_again", e))
    out.append(("RETURN", L(*([V("rp_first")] if n != "RETURN" else []), V("rp_again"), prog[-1][1])))
    return out


# buckets with events: "b1" of the first datastore (c17_impl.B1_EVENTS: 0:00-0:10, 1:00-1:20, 2:00-2:30) and a
# "b1" with other content in a second datastore; window edges stay >= 5 minutes away from every event edge
A1_EVENTS = [(45 * MINUTE, 5 * MINUTE, {"app": "a0", "title": "other"}), (105 * MINUTE, 5 * MINUTE, {"app": "zz", "title": "t1"})]
WINDOW_EDGES = ["2020-01-01T00:30:00+00:00", "2020-01-01T01:40:00+00:00", "2020-01-01T00:05:00+00:00",
                "2020-01-01T03:00:00+00:00", "2019-12-31T12:00:00+00:00", "2020-01-01T00:30:00.500000+00:00",
                "2020-01-01T02:15:00+00:00"]


def rule(rx, **more):
    return D(("type", S("regex")), ("regex", S(rx)), *more.items())


CATEGORY_RULES = [
    L(L(L(S("Work")), rule("a0"))),
    L(L(L(S("A")), rule("t[01]")), L(L(S("A"), S("B")), rule("a1")), L(L(S("C")), rule("^t"))),
    L(L(L(S("T")), rule("T1", ignore_case=V("true"))), L(L(S("K")), D(("regex", S("a")), ("select_keys", L(S("title")))))),
    L(),
]
TAG_RULES = [
    L(L(S("t"), rule("a1"))),
    L(L(S("zero"), rule("0")), L(S("any"), rule(".")), L(S("none"), rule("nomatch"))),
    L(),
]
IN_PLACE = [("categorize", CATEGORY_RULES), ("tag", TAG_RULES)]


def sources(bucket="b1"):
    """literal-argument calls: the same text denotes a fresh application every time it stands somewhere"""
    return [C("query_bucket", S(bucket)), C("query_bucket", S(bucket, "'"))]


def corpus_history():
    # 1. the identical call text again after its variables were rebound: every shape x every nesting
    for shape in CALL_SHAPES:
        for nest in NESTINGS:
            vals = [L(I(1), I(2), I(3)), L(I(4), I(5)), L(I(7), I(8), I(9)), L(I(6))]
            yield repeat_prog(shape, nest, vals)[0]
    yield repeat_prog(CALL_SHAPES[2], NESTINGS[0], [L(I(1), I(2), I(3)), L(), L(I(7), I(8), I(9)), L(), L(S("a"), S("b"), S("c")), L(I(0)), L(I(4), I(5), I(6))],
                      rounds=3, direct=True)[0]
    # 2. identical literal-argument calls; an in-place built-in applied to one occurrence, the other one observed
    for fn, rules in IN_PLACE:
        for r in rules[:2]:
            for src in sources():
                yield [("a", src), ("c", src), ("a", C(fn, V("a"), r)), ("RETURN", V("c"))]
                yield [("a", src), ("c", src), ("a", C(fn, V("a"), r)), ("RETURN", L(V("a"), V("c"), src))]
                yield [("RETURN", D(("done", C(fn, src, r)), ("raw", src)))]
                yield [("a", C(fn, src, r)), ("RETURN", C("echo", src, V("a"), src))]
                yield [("a", C("limit_events", src, I(2))), ("c", src), ("x", C(fn, V("c"), r)), ("RETURN", L(V("a"), src))]
    for fn, rules in IN_PLACE:            # both, one after the other, on different occurrences
        yield [("a", C("categorize", sources()[0], CATEGORY_RULES[1])), ("c", C("tag", sources()[0], TAG_RULES[1])),
               ("RETURN", L(V("a"), V("c"), sources()[0]))]
    # 3. identical literal-argument calls with the query window rebound in between
    for src in sources() + [C("query_bucket_eventcount", S("b1"))]:
        for name in ("STARTTIME", "ENDTIME"):
            for edge in WINDOW_EDGES[:4]:
                yield [("a", src), (name, S(edge)), ("c", src), ("RETURN", L(V("a"), V("c")))]
        yield [("a", src), ("STARTTIME", S(WINDOW_EDGES[0])), ("c", src), ("ENDTIME", S(WINDOW_EDGES[1])), ("e", src),
               ("STARTTIME", S(WINDOW_EDGES[4])), ("RETURN", L(V("a"), V("c"), V("e"), src))]
    for lit in (C("echo", I(1), S("s")), C("nop"), C("echo"), C("limit_events", L(I(1), I(2)), I(1))):
        yield [("a", lit), ("c", lit), ("a", C("concat", V("a"), V("c")) if lit[1] != "nop" else L(V("a"))), ("RETURN", L(V("a"), V("c"), lit))]
    # 4. RETURN assigned early / more than once / followed by further statements, also failing ones
    yield [("RETURN", I(1)), ("x", I(2))]
    yield [("x", I(1)), ("RETURN", V("x")), ("x", I(2))]
    yield [("x", L(I(1))), ("RETURN", C("echo", V("x"))), ("x", L(I(2))), ("y", C("echo", V("x")))]
    yield [("RETURN", I(1)), ("RETURN", I(2)), ("z", V("RETURN")), ("RETURN", L(V("z"), V("RETURN"))), ("z", I(0))]
    for bad, _ in FAILING:
        yield [("RETURN", I(1)), ("y", bad)]
        yield [("RETURN", I(1)), ("y", I(2)), ("RETURN", bad)]
        yield [("x", bad), ("RETURN", I(1))]
    # 5. larger than any plausible chunk / cache constant
    big = L(*[I(i) for i in range(10001)])
    yield [("x", big), ("RETURN", C("limit_events", V("x"), I(10000)))]
    yield [("x", I(0))] + [("x", L(V("x")))] * 3 + [("y%d" % (i % 50), I(i)) for i in range(10001)] + [("RETURN", L(V("x"), V("y49")))]


# -- every admissible argument count -------------------------------------------------------------
# The statement: a call applies the named built-in to the values of ALL of its arguments.  A built-in may admit
# several argument counts (a parameter with a default, a variadic one); a call with any admissible count is a
# well-formed program and denotes the application to exactly the written arguments.
ARG_POOL = {
    "list": [L(), L(I(1), I(2), I(3)), C("query_bucket", S("b1"))],
    "str": [S("b1"), S("h1", "'"), S("b"), S("h2"), S("app")],        # bucket ids, fragments of ids, hostnames, a data key
    "int": [I(2), I(0)],
}
CALL_NESTINGS = [
    lambda t: [("RETURN", t)],
    lambda t: [("RETURN", L(t))],
    lambda t: [("RETURN", D(("k", L(t)), ("l", I(1))))],
    lambda t: [("RETURN", C("echo", t, I(1)))],
    lambda t: [("v", t), ("RETURN", L(V("v"), t))],
    lambda t: [("RETURN", C("query_bucket_eventcount", t))],
]


def via_variables(t):
    """f(a, b) -> a0 = a; a1 = b; RETURN = f(a0, a1): the same arguments arriving through variables"""
    return [("a%d" % i, a) for i, a in enumerate(t[2])] + [("RETURN", C(t[1], *[V("a%d" % i) for i in range(len(t[2]))]))]


def corpus_arity(cap=12):
    """(program, beyond_least): every built-in of the reference evaluator x every admissible number of written
    arguments x argument values from ARG_POOL by declared type (all combinations where the count exceeds the
    least one, i.e. an optional parameter is supplied; otherwise at most `cap`, evenly spread)."""
    k = 0
    for name in sorted(REF):
        types, _ = REF[name]
        least, most = arity(name)
        for n in range(least, (3 if most is None else most) + 1):
            pools = []
            for i in range(n):
                ty = "int" if types is None and i % 2 else "str" if types is None else types[i].lstrip("?")
                pools.append([L()] if ty == "list" and name in REF_EMPTY_ONLY else ARG_POOL[ty])
            combos = list(itertools.product(*pools))
            beyond = n > least and types is not None
            if not beyond and len(combos) > cap:
                combos = [combos[(j * len(combos)) // cap] for j in range(cap)]
            # programs that denote a value (on the first datastore as the run starts) before those that denote an error
            combos.sort(key=lambda args: denotation([("RETURN", C(name, *args))], {"b1": list(B1_EVENTS)})[0] != "value")
            for args in combos:
                t = C(name, *args)
                k += 1
                for j, nest in enumerate(CALL_NESTINGS):
                    if beyond or j == k % len(CALL_NESTINGS):
                        yield nest(t), beyond
                if n and (beyond or k % 3 == 0):
                    yield via_variables(t), beyond


def ref_matches_registry(impl):
    """The reference evaluator's own table of parameter types against the frozen registry (a harness consistency
    check: both are specifications, they must say the same)."""
    for name in sorted(REF):
        kinds = [k for k in impl.sigs[name][0] if k not in (0, 1)]
        want = None if 8 in kinds else [{2: "list", 3: "str", 4: "int", 5: "float", 7: "?"}.get(k, "any") for k in kinds]
        have = REF[name][0] if REF[name][0] is None else [t[0] if t.startswith("?") else t for t in REF[name][0]]
        if want != have:
            raise HarnessBroken(f"reference evaluator and frozen registry disagree about {name}: {have} / {want}")


def g_events_prog(rng, bucket="b1"):
    """Statements over event lists: literal-argument sources, in-place and sharing built-ins, aliases, the query
    window rebound; the same source term object throughout."""
    src = rng.choice(sources(bucket))
    if rng.random() < 0.15:
        src = C("query_bucket", V("bname"))
    prog = [("bname", S(bucket))] if src[2][0][0] == "var" else []
    evs = []

    def ev():
        return V(rng.choice(evs)) if evs and rng.random() < 0.6 else src

    for _ in range(rng.randrange(2, 8)):
        r = rng.random()
        name = rng.choice(["a", "c", "e1", "events"])
        if r < 0.25:
            e = src
        elif r < 0.5:
            fn, rules = rng.choice(IN_PLACE)
            e = C(fn, ev(), rng.choice(rules))
        elif r < 0.65:
            e = rng.choice([lambda: C("limit_events", ev(), I(rng.randrange(0, 4))), lambda: C("sort_by_timestamp", ev()),
                            lambda: C("sort_by_duration", ev()), lambda: C("concat", ev(), ev()),
                            lambda: C("filter_keyvals", ev(), S("app"), L(S("a0"), S("zz"))),
                            lambda: C("exclude_keyvals", ev(), S("title"), L(S("t1")))])()
        elif r < 0.82:
            prog.append((rng.choice(["STARTTIME", "ENDTIME"]), S(rng.choice(WINDOW_EDGES))))
            continue
        elif r < 0.9 and evs:
            e = V(rng.choice(evs))
        else:
            prog.append(("n", C(rng.choice(["query_bucket_eventcount", "query_bucket_eventcount", "sum_durations"]),
                                S(bucket) if rng.random() < 0.7 else ev())))
            continue
        prog.append((name, e))
        if name not in evs:
            evs.append(name)
    r = rng.random()
    if r < 0.35 and evs:
        ret = V(rng.choice(evs))
    elif r < 0.6:
        ret = L(*[V(n) for n in evs], src)
    elif r < 0.8:
        fn, rules = rng.choice(IN_PLACE)
        ret = D(("done", C(fn, src, rng.choice(rules))), ("raw", src), ("kept", L(*[V(n) for n in evs])))
    else:
        ret = C("echo", src, *[V(n) for n in evs])
    return prog + [("RETURN", ret)]


def g_return_prog(rng):
    """RETURN assigned somewhere in the middle (perhaps several times), further statements after it: rebinding
    what RETURN was computed from, reading RETURN back, failing."""
    prog = g_prog(rng)
    bound = [n for n, _ in prog]
    for _ in range(rng.choice([1, 1, 2, 3])):
        r = rng.random()
        if r < 0.45:
            prog.append((rng.choice(bound + NAMES), g_term(rng, rng.choice([0, 1, 2]), list(bound))))
        elif r < 0.6:
            prog.append((g_name(rng), V("RETURN")))
        elif r < 0.8:
            prog.append(("RETURN", rng.choice([L(V("RETURN"), I(1)), C("echo", V("RETURN")), g_term(rng, 1, list(bound))])))
        else:
            prog.append((rng.choice(["zz", "RETURN"]), rng.choice(FAILING)[0]))
    return prog


# query name and period (offsets from 2020-01-01T00:00Z in us) other than the default ones; period edges keep
# >= 5 minutes from every event edge
CTXS = [["other-name", -12 * HOUR, 100 * MINUTE], ["q-name", 30 * MINUTE, 3 * HOUR], ["n3", 5 * MINUTE, 24 * HOUR],
        ["", 135 * MINUTE, 40 * HOUR]]


def corpus_sessions():
    """[(datastore name, program[, context]) | op] run one after the other in the process; one print memo per session."""
    # the predefined names NAME / STARTTIME / ENDTIME are the asked query's own, whatever was asked before
    t = C("echo", V("NAME"), V("STARTTIME"), L(V("ENDTIME")))
    src = sources()[0]
    for bad, _ in FAILING[:2]:
        yield [("main", [("RETURN", C("echo", t, bad))], CTXS[0]), ("main", [("RETURN", t)], CTXS[1]), ("main", [("RETURN", L(t, src))]),
               ("A", [("zz", L(t, src, bad))], CTXS[2]), ("A", [("RETURN", L(src, t))], CTXS[3]), ("main", [("RETURN", L(src, t))], CTXS[0])]
    q = [("a", src), ("n", C("query_bucket_eventcount", S("b1"))), ("RETURN", L(V("a"), V("n"), t))]
    yield [("main", q, c) for c in CTXS] + [("main", q), ("A", q)] + [("A", q, c) for c in CTXS]
    vals = lambda k: [L(I(k + 1), I(k + 2), I(k + 3)), L(I(k + 4), I(k + 5)), L(I(k + 7), I(k + 8), I(k + 9)), L(I(k + 6))]
    for i, shape in enumerate(CALL_SHAPES):
        nest = NESTINGS[i % len(NESTINGS)]
        for bad, _ in FAILING[:3] if i else FAILING:
            good, t = repeat_prog(shape, nest, vals(0))
            # a query that fails half-way after having evaluated T, then queries containing the same text
            failing = [("x", L(I(41), I(42), I(43))), ("y", L(I(44))), ("r0", t), ("zz", bad), ("RETURN", V("r0"))]
            after = [("x", L(I(10), I(20), I(30))), ("y", L(I(50), I(60))), ("RETURN", t)]
            yield [("main", failing), ("main", after)]
            yield [("main", good), ("main", failing), ("main", after), ("main", good)]
            # the failure inside the very statement that contains T, after T
            yield [("main", failing[:2] + [("RETURN", C("echo", t, bad))]), ("main", after), ("A", failing[:2] + [("zz", L(t, bad))]), ("A", after)]
    for fn, rules in IN_PLACE:
        src = sources()[0]
        q = [("a", src), ("c", C(fn, src, rules[0])), ("RETURN", L(V("a"), V("c")))]
        yield [("main", q), ("A", q), ("main", q)]                    # one text, two datastores alive at once
        half = [("a", src), ("c", C(fn, V("a"), rules[1])), ("zz", FAILING[1][0]), ("RETURN", V("c"))]
        yield [("main", half), ("main", [("RETURN", src)]), ("A", half), ("A", [("a", src), ("RETURN", V("a"))])]
    q = [("a", sources()[0]), ("STARTTIME", S(WINDOW_EDGES[0])), ("c", sources()[0]), ("RETURN", L(V("a"), V("c")))]
    yield [("A", q), ("main", q), ("A", q), ("main", q)]
    # nothing a query assigned is there for the next one: variables, RETURN, the query window, shadowed names
    yield [("main", [("leak", L(I(1))), ("RETURN", V("leak"))]), ("main", [("RETURN", V("leak"))]), ("main", [("x", I(1))]),
           ("main", [("RETURN", C("echo", V("leak")))]), ("A", [("y", V("RETURN"))])]
    yield [("main", [("STARTTIME", S(WINDOW_EDGES[1])), ("ENDTIME", S(WINDOW_EDGES[6])), ("true", I(0)), ("RETURN", sources()[0])]),
           ("main", [("RETURN", L(sources()[0], V("true"), V("STARTTIME"), V("ENDTIME")))]),
           ("main", [("RETURN", C("query_bucket_eventcount", S("b1")))])]
    # what a bucket holds changes between two askings of one text (deleted and re-created, another bucket added)
    for fn, rules in IN_PLACE:
        src = C("query_bucket", S("h1"))
        q = [("a", src), ("n", C("query_bucket_eventcount", S("h1"))), ("RETURN", L(C(fn, V("a"), rules[1]), V("n"), src))]
        yield [["create", "A", "h1", [list(e) for e in B1_EVENTS]], ("A", q), ("main", q), ["delete", "A", "h1"], ("A", q),
               ["create", "A", "h1", [list(e) for e in A1_EVENTS]], ("A", q), ["create", "main", "h1", [list(e) for e in B1_EVENTS[:1]]],
               ("main", q), ("A", q), ["delete", "A", "h1"], ["delete", "main", "h1"], ("main", q)]
    yield [("main", [("RETURN", C("query_bucket", S("b2")))]), ("A", [("RETURN", C("query_bucket_eventcount", S("b2")))]),
           ("main", [("RETURN", C("query_bucket_eventcount", S("b2")))])]      # "b2" exists in A only
    # a bucket named by (fragment of its id, hostname): created under another hostname, deleted, re-created
    fb = [("RETURN", L(C("find_bucket", S("hb"), S("h2")), C("query_bucket_eventcount", C("find_bucket", S("hb-"), S("h2", "'")))))]
    fb1 = [("x", C("find_bucket", S("hb"))), ("RETURN", C("query_bucket", V("x")))]
    yield [("A", fb), ["create", "A", "hb-1", [list(e) for e in B1_EVENTS], "h1"], ("A", fb), ("A", fb1),
           ["create", "A", "hb-2", [list(e) for e in A1_EVENTS], "h2"], ("A", fb), ("main", fb), ["delete", "A", "hb-1"], ("A", fb), ("A", fb1),
           ["delete", "A", "hb-2"], ("A", fb), ["create", "main", "hb-1", [list(e) for e in B1_EVENTS[:2]], "h2"], ("main", fb), ("A", fb), ("main", fb1),
           ["delete", "main", "hb-1"], ("main", fb)]


def g_session(rng):
    return [q if isinstance(q, list) or rng.random() < 0.5 else q + (rng.choice(CTXS),) for q in g_session_plain(rng)]


def g_session_plain(rng):
    r = rng.random()
    if r < 0.45:
        names = tuple(rng.sample(NAMES, 2))
        shape, nest = rng.choice(CALL_SHAPES), rng.choice(NESTINGS)
        prog, t = repeat_prog(shape, nest, [g_listval(rng, 100 * i) for i in range(4)], names)
        qs = []
        for _ in range(rng.choice([2, 3, 4])):
            k = rng.random()
            head = [(names[0], g_listval(rng, 500)), (names[1], g_listval(rng, 600))]
            if k < 0.2:
                qs.append(head + [("r0", t), (rng.choice(["zz", "RETURN"]), rng.choice(FAILING)[0]), ("RETURN", V("r0"))])
            elif k < 0.4:
                bad = rng.choice(FAILING)[0]
                qs.append(head + [("RETURN", rng.choice([C("echo", t, bad), L(t, bad), D(("k", t), ("l", bad))]))])
            elif k < 0.8:
                qs.append(head + [("RETURN", rng.choice([t, L(t, t), C("echo", V(names[0]), t), L(t, V("NAME"), V("STARTTIME"))]))])
            else:
                qs.append(prog)
        return [(rng.choice(["main", "main", "A"]), q) for q in qs]
    if r < 0.85:
        q = g_events_prog(rng)
        qs = [q]
        if rng.random() < 0.5:
            qs.insert(0, q[:max(1, len(q) // 2)] + [("zz", rng.choice(FAILING)[0])] + q[len(q) // 2:])
        if rng.random() < 0.5:
            qs.append(g_events_prog(rng))
        return [(rng.choice(["main", "A"]), x) for x in qs for _ in range(rng.choice([1, 1, 2]))]
    q = g_prog(rng)
    if r < 0.93:
        return [("main", q), (rng.choice(["main", "A"]), with_repeat(rng, q) or q), ("main", q)]
    cut = rng.randrange(0, len(q))          # reads what only the earlier query assigned / assigns no RETURN
    return [("main", q), ("main", q[cut:]), ("main", q[:cut] or q), ("main", q)]


LAYOUT_GRID_PROGS = [
    [("x", ("list", [("int", "1"), ("str", '"', "a b")])), ("RETURN", ("call", "echo", [("var", "x"), ("dict", [(("'", "k"), ("call", "nop", [])), (('"', "l"), ("list", []))]), ("int", "3")]))],
    [("RETURN", ("dict", [(('"', "a"), ("dict", [(("'", "b"), ("list", [("call", "echo", []), ("dict", [])]))])), (('"', "c"), ("var", "true"))]))],
]
SINGLE_BLANKS = [" ", "\t", "\n", "\x0b", "\x0c", "\r", "\x1c", "\x1d", "\x1e", "\x1f", "\r\n"]


def depth_of(t):
    k = t[0]
    if k in ("int", "str", "var"):
        return 0
    kids = t[2] if k == "call" else (t[1] if k == "list" else [v for _, v in t[1]])
    return 1 + max([depth_of(x) for x in kids], default=0)


def features(prog):
    """what of the grammar a program exercises (for the evidence's input distribution)"""
    out = set()

    def walk(t, inside_dict):
        k = t[0]
        if k == "int":
            if len(t[1]) > 18:
                out.add("int:more-than-18-digits")
            if len(t[1]) > 1 and t[1][0] == "0":
                out.add("int:leading-zero")
        elif k == "str":
            strf(t[1], t[2])
        elif k == "var":
            namef(t[1])
        elif k == "call":
            out.add("call:%d-args" % len(t[2]))
            for a in t[2]:
                walk(a, False)
        elif k == "list":
            for a in t[1]:
                walk(a, False)
        else:
            if inside_dict:
                out.add("dict:directly-inside-dict")
            for (q, key), v in t[1]:
                strf(q, key)
                walk(v, True)

    def strf(q, s):
        other = "'" if q == '"' else '"'
        if q in s:
            out.add("str:own-quote-inside")
        if other in s:
            out.add("str:other-quote-inside")
        if "\\" in s:
            out.add("str:backslash-inside")
        if any(c in s for c in "()[]{}"):
            out.add("str:bracket-inside")
        if any(c in s for c in ",:="):
            out.add("str:separator-inside")

    def namef(n):
        if n in ODD_NAMES:
            out.add("name:odd")
        elif n not in NAMES and n not in PREDEF and n != "RETURN":
            out.add("name:random")

    for n, e in prog:
        namef(n)
        walk(e, False)
    return out


def main(argv=None):
    ck = Check("C11", argv)
    try:
        rc = run_check(ck)
    except HarnessBroken as e:
        # the harness itself cannot work on this tree (unreadable specification, ...): a broken tie with a replay
        # file that names what no longer checks, like every other one
        ck.disagreement("harness", f"the harness cannot establish the tie on this tree: {e}", {"harness": str(e)})
        rc = ck.finish(RULE)
    leave(rc)           # a worker thread stuck in a query must not keep the process alive (harness/c17.py)
    return rc


# Process-level settings (harness/c17_impl.py `environment`) a program's meaning must not depend on.  Not the lowered
# int-digit limit: a literal of more digits than the limit is outside the well-formed programs (Model/QueryRef.v wf).
C11_ENVS = [e for e in ENVS if e.get("int_digits") != 640]


def corpus_rejections():
    """Well-formed programs with nested elements after long runs of REJECTED queries whose error sits inside nested
    elements (parse, name, arity, type, bucket errors: harness/c17.py rejection_block) - three times over."""
    good = [
        [("x", L(I(1), L(I(2), D(("a", L(I(3), S("]"))))))), ("RETURN", C("concat", V("x"), L(C("nop"))))],
        [("RETURN", D(("k", C("limit_events", C("concat", L(I(1), I(2)), L(I(3))), I(2)))))],
        [("RETURN", C("echo", KIND_REP["list"], KIND_REP["dict"], KIND_REP["call"]))],
        [("a", L(S("a,(b]"), L())), ("b", V("a")), ("a", I(1)), ("RETURN", L(V("a"), V("b"), D(("k", L(V("b"))))))],
        [("RETURN", L(L(L(L(I(1))))))],
        [("RETURN", C("echo", C("echo", C("echo", L(D(("k", C("nop"))))))))],
        [("RETURN", C("query_bucket_eventcount", C("find_bucket", S("b1"))))],
        [("RETURN", I(1))],
    ]
    items = []
    for burst in range(3):
        items.append(["repeat", 8, rejection_block(40, 40 * burst)])
        items += [("main", p) for p in good]
    yield items


def run_check(ck):
    common.setup_impl_env()
    impl = Impl()
    for n in REF:
        if n not in impl.sigs:
            raise HarnessBroken(f"built-in {n} is not registered")
    ref_matches_registry(impl)
    ck.prove(extra_targets=["Bridge/BridgeQuery.v", "Bridge/BridgeQueryInterp.v"],
             gen_kernels=["query_header", "QString.check", "QInteger.check", "QFunction.check", "QDict.check",
                          "QList.check", "QVariable.check", "qtypes", "_parse_token", "parse_methods", "parse",
                          "create_namespace", "get_return", "_verify_variable_is_type", "q2_typecheck",
                          "q2_function", "query_footer",                         # tie B: translate/k_query.py
                          "interp_header", "registry_sites", "interpret_methods", "interpret_stmt", "query_run",
                          "interp_footer"])                  # tie B, interpreter side: translate/k_query_interp.py
    have_driver = ck.driver("ExC17")

    quick = ck.tier == "quick"
    report_harness_state(ck, impl)      # interface differences from corpus/c17_registry.json; black-box mode
    bb_compared, bb_skipped = {}, {}
    # a second datastore alive beside the first: a bucket of the same name with other content, and one more
    sess = Session(impl)
    setup_ops = [["datastore", "A", "memory"], ["create", "A", "b1", [list(e) for e in A1_EVENTS]],
                 ["create", "A", "b2", [[30 * MINUTE, MINUTE, {"app": "only-in-A"}]], "h2"]]
    for op in setup_ops:
        sess.apply(op)

    def contents(dsname):
        return impl.contents_of(sess.dss[dsname])

    def hosts(dsname):
        return impl.hosts_of(sess.dss[dsname])

    progs = [("corpus", p, None) for p in corpus()] + [("corpus", p, None) for p in corpus_more()]
    progs += [("corpus-history", p, None) for p in corpus_history()]
    arity_progs = list(corpus_arity())
    progs += [("corpus-arity", p, None) for p, _ in arity_progs]
    for p in LAYOUT_GRID_PROGS:         # every white-space character alone at every slot
        for b in SINGLE_BLANKS:
            progs.append(("layout-grid", p, [lambda b=b: b]))
    for _ in range(2500 if quick else 150000):
        progs.append(("random", g_prog(ck.rng), None))
    for _ in range(300 if quick else 20000):
        progs.append(("random-repeat", g_repeat(ck.rng), None))
        p = with_repeat(ck.rng, g_prog(ck.rng))
        if p:
            progs.append(("random-repeat", p, None))
        progs.append(("random-return", g_return_prog(ck.rng), None))
    for _ in range(400 if quick else 30000):
        progs.append(("random-events", g_events_prog(ck.rng), None))

    compact = lambda: ""
    rnd = lambda: ck.rng.choice(BLANKS)
    wire, expect = [], []
    seen = set()
    minimised = []

    def widest(t):
        k = t[0]
        kids = t[2] if k == "call" else t[1] if k == "list" else [v for _, v in t[1]] if k == "dict" else []
        return max([len(kids)] + [widest(x) for x in kids])

    spent = {}

    def ask(stream, prog, text, dsname="main", history=None, ctx=None, opts=None):
        t0 = time.process_time()
        try:
            return ask1(stream, prog, text, dsname, history, ctx, opts)
        finally:
            spent[stream] = spent.get(stream, 0.0) + time.process_time() - t0

    def ask1(stream, prog, text, dsname="main", history=None, ctx=None, opts=None):
        """One query: the reference on this program alone (datastore contents as they are), the
        implementation in this process as it is by now, the model on this text alone.
        opts: {"thread": worker thread the query runs on, "env": process-level settings while it runs} - neither is
        something the reference or the model knows about."""
        opts = opts or {}
        want = denotation(prog, contents(dsname), ctx, hosts(dsname))
        r = impl.run(text, ds=sess.dss[dsname], ctx=ctx, thread=opts.get("thread"), env=opts.get("env"))
        kind, payload = r["outcome"]
        got = ("value", canon(impl, payload)) if kind == "value" else (kind, payload)
        if r.get("thread"):
            ck.count("thread:" + r["thread"])
        if opts.get("env"):
            ck.count("env:" + ",".join(sorted(opts["env"])))
        ck.count("stream:" + stream)
        ck.count("outcome:" + (kind if kind != "error" else payload))
        ck.count("statements=%d" % min(len(prog), 9))
        ck.note_case(text if history is None else [text, dsname, len(history)], nontrivial=any(c in text for c in "([{"))
        short = text if len(text) < 400 else text[:200] + f" ...({len(text)} characters)... " + text[-80:]
        op = ["query", dsname, text, {"value": want[1]} if want[0] == "value" else {"class": want[1]} if want[0] == "error" else {}]
        if ctx or opts:
            op.append(list(ctx) if ctx else None)
        if opts:
            op.append(opts)
        if want[0] == "ambiguous" or (want[0] == "error" and want[1] in ("Other", "Unparseable")):
            ck.count("reference-silent:" + (want[0] if want[0] == "ambiguous" else "outside the documented behaviour"))
            op[3] = {}
        elif got != want:
            show = lambda o: (show_canon(o[1]) if o[0] == "value" else str(o[1]))[:600]
            verb = lambda o, v="evaluates to": v if o[0] == "value" else ("raises" if o[0] == "error" else "ends in")
            if kind == "timeout":
                show = lambda o, show=show: "no answer within the time limit" if o[0] == "timeout" else show(o)
            replay = {"query": text, "implementation": show(got), "reference": show(want), "ast": repr(prog)[:4000], "datastore": dsname,
                      "context": ctx or "query name 'q-name', period 2020-01-01Z .. 2020-01-02Z",
                      "call": "aw_query.query2.query(name, query, start, end, datastore); values in the "
                              "canonical form of harness/c17_session.canon (events as [offset from 2020-01-01Z, duration, data] in us)"}
            if opts:
                replay["options"] = opts
            if history is None and opts:        # re-runnable with its options: a session of one query
                replay["session"] = setup_ops + [op]
                replay["rerun"] = ("save replay.session as {\"ops\": [...]} and run /venv/bin/python -m harness.c17_session <file> "
                                   "(exit 1 = the last query misses its expectation)")
            if history is not None:
                ops = setup_ops + history + [op]
                if not minimised and not ck.violations:
                    minimised.append(1)
                    ops, confirmed = minimise(ops, droppable=lambda o: o[0] == "query")
                    replay["session_reproduces_in_a_fresh_process"] = confirmed
                replay["session"] = ops
                replay["rerun"] = ("save replay.session as {\"ops\": [...]} and run /venv/bin/python -m harness.c17_session <file> "
                                   "(exit 1 = the last query misses its expectation)")
            where = "" if history is None else f" (query {len(history) + 1} of a session, datastore {dsname})"
            ck.failing_input("C11:value-differs-from-text",
                             f"{ascii(short)}: the implementation {verb(got)} {show(got)[:300]}, its text {verb(want, 'denotes')} {show(want)[:300]}{where}", replay)
        if len(ck.samples) < 6 and stream == "random" and kind == "value" and len(text) > 40:
            ck.sample({"query": text, "value": repr(payload)[:200]})
        if max(widest(e) for _, e in prog) > 2000:
            ck.count("outside-model:bracketed text of more than 2000 entries (the extracted scanner is quadratic)")
            return got, op
        try:
            case, log, wantw = impl.model_case(text, r, impl.buckets_of(sess.dss[dsname]))
        except Unsupported as e:
            ck.count("outside-model:" + str(e)[:40])
            return got, op
        except HarnessBroken as e:          # the recorded calls contradict the modelled plumbing
            ck.disagreement("query", f"{short!r}: {e}", {"query": text, "stream": stream, "datastore": dsname, "harness": str(e)})
            return got, op
        wire.append(case)
        expect.append((stream, short, log, wantw, dsname))
        return got, op

    for pi, (stream, prog, fixed_layouts) in enumerate(progs):
        outs = []
        memo = {}
        layouts = [(bl, None) for bl in fixed_layouts] if fixed_layouts is not None else \
                  [(compact, memo), (rnd, None)] if stream.startswith("corpus") else [(rnd, memo), (rnd, None)]
        feats = features(prog)
        depth = max(depth_of(e) for _, e in prog)
        for li, (bl, m) in enumerate(layouts):
            text = p_prog(prog, bl, m)
            if text in seen:
                continue
            seen.add(text)
            # ENVIRONMENT: the second layout of every second program runs under a process-level setting (in rotation)
            opts = {"env": C11_ENVS[(pi // 2) % len(C11_ENVS)]} if li == 1 and pi % 2 == 0 else None
            ck.count("depth=%02d" % depth)
            for f in feats:
                ck.count(f)
            for b in SINGLE_BLANKS[:-1]:
                if b in text:
                    ck.count("blank:%r" % b)
            outs.append(ask(stream, prog, text, opts=opts)[0])
        if len(outs) == 2 and outs[0] != outs[1]:
            sh = lambda o: (show_canon(o[1]) if o[0] == "value" else "raises " + str(o[1]))[:600]
            ck.failing_input("C11:layout-changes-result", f"two layouts of one program give {sh(outs[0])[:300]} and {sh(outs[1])[:300]}",
                             {"ast": repr(prog)[:4000], "results": [sh(o) for o in outs]})

    # sessions: several queries one after the other in this process; each against the reference on it alone
    sessions = [("session", q) for q in corpus_sessions()] + [("session-after-rejections", q) for q in corpus_rejections()]
    sessions += [("session-random", g_session(ck.rng)) for _ in range(150 if quick else 10000)]
    # an optional parameter supplied: one text asked of the second datastore (its buckets carry other hostnames) and of the first
    beyond = [p for p, b in arity_progs if b]
    sessions += [("session-arity", [(ds, p) for p in beyond[i:i + 8] for ds in ("A", "main")]) for i in range(0, len(beyond), 8)]
    for si, (stream, queries) in enumerate(sessions):
        memo, history = {}, []
        bl = compact if ck.rng.random() < 0.3 else rnd
        nq = 0
        for item in queries:
            if isinstance(item, list):           # an op on a datastore (or a run of rejected queries) between two queries
                try:
                    sess.apply(item)
                except Exception as e:
                    ck.disagreement("session", f"op {item[:3]!r} of a session raised {type(e).__name__}: {e}",
                                    {"session": setup_ops + history + [item]})
                    break
                ck.count("session-op:" + item[0] + (" of %d rejected queries" % (item[1] * len(item[2])) if item[0] == "repeat" else ""))
                history.append(item)
                continue
            dsname, prog, ctx = item if len(item) == 3 else item + (None,)
            text = p_prog(prog, bl, memo)
            # part of every session on worker threads that stay alive between their queries; settings in rotation
            nq += 1
            opts = {}
            if (nq + si) % 3 == 1:
                opts["thread"] = "w1" if (nq + si) % 2 else "w2"
            if (nq + 2 * si) % 5 == 0:
                opts["env"] = C11_ENVS[(nq + si) % len(C11_ENVS)]
            got, op = ask(stream, prog, text, dsname, history, ctx, opts)
            history.append(op)
        ck.count("session-length=%d" % len(queries))
    HUNG[:] = impl.hung
    ck.coverage["worker_threads_that_never_came_back"] = list(impl.hung)
    ck.coverage["cpu_seconds_per_stream"] = {k: round(v, 2) for k, v in sorted(spent.items())}
    t_model = time.time()

    if have_driver and wire:
        model = common.run_driver("C11", wire)
        for (stream, text, log, wantw, dsname), mo in zip(expect, model):
            if mo == [-999] or mo == [-998] or len(mo) != 3:
                ck.disagreement("query", f"driver rejected the case for {text!r}", {"query": text, "model": mo})
                continue
            out, mlog, exh = mo
            if log is None:                 # black-box mode: no body record
                if blackbox_skip(log, mo):
                    ck.count("black-box:not compared with the model (it asks for a recorded body outcome)")
                    bb_skipped[stream] = bb_skipped.get(stream, 0) + 1
                    continue
                ck.count("black-box:compared with the model (no body outcome needed)")
                bb_compared[stream] = bb_compared.get(stream, 0) + 1
                log = []
            if out != wantw or mlog != log or exh != 0:
                what = (f"{text!r}: model {show_outcome(out)} / implementation {show_outcome(wantw)}"
                        if out != wantw else f"{text!r}: built-in body calls differ")
                ck.disagreement("query", what + ("" if not stream.startswith("session") else f" (in a session, datastore {dsname})"),
                                {"query": text, "stream": stream, "datastore": dsname, "model_outcome": show_outcome(out),
                                 "impl_outcome": show_outcome(wantw), "model_calls": mlog, "impl_calls": log})
    ck.coverage["wall_seconds_extracted_model"] = round(time.time() - t_model, 2)
    if impl.echo_probe:     # a built-in registered through the public decorator with (*args) is not applied to its arguments
        ck.failing_input("C11:value-differs-from-text", f"{impl.echo_probe['query']!r} with `echo` registered as "
                         f"{impl.echo_probe['registered_as']}: the implementation {impl.echo_probe['observed']}, its text denotes "
                         f"{impl.echo_probe['expected']}", dict(impl.echo_probe))
    ck.run_witnesses(["w13"])       # after the streams: they register an `echo` of their own (fresh processes)
    report_blackbox_streams(ck, impl, bb_compared, bb_skipped)
    ck.coverage["registry_specification"] = {"snapshot": impl.snapshot_path, "differences_from_the_tree": impl.registry_diffs,
                                             "live_only_functions_taken_from_the_tree": impl.live_only}
    ck.assumptions += [
        "the reference evaluator's table of built-ins (harness/c11_ref.py: nop, echo, limit_events, concat, sort_by_*, "
        "filter/exclude_keyvals, sum_durations, query_bucket[_eventcount], categorize, tag; flood, merge_events_by_keys, "
        "period_union on empty lists) is written from their documented behaviour, independently of aw_query.functions",
        "where a built-in annotates its argument's events in place while another live value shares them, the text's value "
        "is not decided by the statement: such programs (reference with immutable values != reference with Python object "
        "semantics) are run but not compared (input_distribution: reference-silent:ambiguous)",
        "query windows keep every edge >= 5 minutes away from every event edge; timestamps within a bucket are distinct",
        "the built-ins' interface is the frozen registry corpus/c17_registry.json (tools/c17_registry.py)",
        "built-in bodies are an oracle for the model (replayed from the implementation's recorded calls)",
        "string literals: no ';' and no trailing backslash in the content; non-ASCII only inside string literals",
        "integer values beyond 2^61 are compared with the reference evaluator only (driver text glue); CPython's "
        "recursion limit not modelled (depth <= 14)",
    ]
    return ck.finish(RULE)


if __name__ == "__main__":
    sys.exit(main())
