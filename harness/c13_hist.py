"""C13, history stream: SEQUENCES of Event constructions / attribute assignments / _timestamp_parse calls / JSON
round trips in ONE process, with look-alike values.

The models (Model/EventModel.v) are pure: what an event holds is a function of the id / timestamp / duration / data it
was given LAST.  A session is a small script; after every step every live Event is observed exactly like a single case
of harness/c13.py (normalised timestamp, duration, JSON form + schema, Event(**json), Event(**event)), judged by the
property oracle of c13.py against the values that event was given, and queued for the in-Coq model on those values
alone.  Whatever the implementation keeps between calls (a functools cache on _timestamp_parse, a memo of the JSON
form on the instance, class-level defaults) shows up as an event that is not the property's function of its own
inputs - a failing input that is the script.  Every session runs in a process forked from a pristine snapshot
(harness/freshproc.py), so a failing script is self-contained.

Look-alike timestamps: aware datetimes in a zone with transitions (zoneinfo keys and the synthetic PEP 495 zones of
harness/evutil.py), in particular the fold=0 / fold=1 twins of one repeated wall-clock time and of one skipped wall
time: with the same tzinfo object they compare equal and hash equal although they are different instants; the same
instant written in different zones / as different strings.

script = [step, ...]   (JSON)
  ["new", v, id, ts, dur, data]       v := Event(id=, timestamp=, duration=, data=); dur / data null = argument left out
  ["set", v, field, value]            v.<field> = value          (field: id | timestamp | duration | data)
  ["parse", ts]                       _timestamp_parse(ts)       (the anchored function on its own)
  ["rebuild", out, v, how]            out := Event(**v) (how = "event") | Event(**json.loads(v.to_json_str())) ("json")
  ["put", v, key, value]              v.data[key] = value        (in place)
ts  = {"form": "dt", "utc": us, "off": us} | {"form": "naive", "local": us} | {"form": "str", "text": s, "instant": [p, q] | null,
       "off": us} | {"form": "zone", "zone": zspec, "wall": us, "fold": 0 | 1}      (wall = wall-clock fields as µs since 1970)
zspec = ["iana", key] | ["synth", t_us, before_min, after_min, name]
dur = {"kind": "td", "us": n} | {"kind": "int", "s": n} | {"kind": "float", "hex": h}"""
import copy
import json
from datetime import datetime, timedelta, timezone
from fractions import Fraction

from . import common
from . import floatcases as fc
from .evutil import SynthZone

EPOCH_NAIVE = datetime(1970, 1, 1)
US = timedelta(microseconds=1)
_ZONES = {}


def zone_of(zspec):
    """ONE tzinfo object per zone and process (the twins of a session must share it, as zoneinfo.ZoneInfo(key) does)"""
    key = json.dumps(zspec)
    if key not in _ZONES:
        if zspec[0] == "iana":
            import zoneinfo
            _ZONES[key] = zoneinfo.ZoneInfo(zspec[1])
        else:
            _ZONES[key] = SynthZone(*zspec[1:])
    return _ZONES[key]


def zone_offset_us(zspec, wall_us, fold, obj):
    """utcoffset of the wall time, for the synthetic zones from the zone's definition (PEP 495: in a fold fold=0 is the
    offset before the change, fold=1 after; in a gap likewise), for tz database zones from the zone object"""
    if zspec[0] == "synth":
        t, before, after = zspec[1], zspec[2] * 60_000_000, zspec[3] * 60_000_000
        is_before, is_after = wall_us - before < t, wall_us - after >= t
        if is_before and not is_after:
            return before
        if is_after and not is_before:
            return after
        return after if fold else before
    return obj.utcoffset() // US


def materialise_ts(ts, c13):
    """-> (tspec as oracle_event wants it, Python object, Gallina term)"""
    form = ts["form"]
    if form == "dt":
        tz = timezone(timedelta(microseconds=ts["off"])) if ts["off"] else timezone.utc
        obj = (EPOCH_NAIVE + timedelta(microseconds=ts["utc"] + ts["off"])).replace(tzinfo=tz)
        return ({"instant": Fraction(ts["utc"]), "off": ts["off"], "form": "dt"}, obj,
                f"(TsDt {fc.coq_z(ts['utc'])} {fc.coq_z(ts['off'])})")
    if form == "naive":
        obj = EPOCH_NAIVE + timedelta(microseconds=ts["local"])
        return ({"instant": Fraction(ts["local"]), "off": 0, "form": "naive"}, obj, f"(TsNaive {fc.coq_z(ts['local'])})")
    if form == "str":
        inst = None if ts["instant"] is None else Fraction(ts["instant"][0], ts["instant"][1])
        return ({"instant": inst, "off": ts["off"], "form": "str", "text": ts["text"]}, ts["text"],
                f"(TsStr {c13.coq_str(ts['text'])})")
    if form == "zone":
        obj = (EPOCH_NAIVE + timedelta(microseconds=ts["wall"])).replace(tzinfo=zone_of(ts["zone"]), fold=ts["fold"])
        off = zone_offset_us(ts["zone"], ts["wall"], ts["fold"], obj)
        utc = ts["wall"] - off
        return ({"instant": Fraction(utc), "off": off, "form": "zone",
                 "text": "%r (fold=%d, zone %s)" % (obj.replace(tzinfo=None).isoformat(), ts["fold"], ts["zone"][-1])},
                obj, f"(TsDt {fc.coq_z(utc)} {fc.coq_z(off)})")
    raise ValueError("unknown timestamp form %r" % (ts,))


def materialise_dur(du, c13):
    if du["kind"] == "float":
        return c13.dur_variant("float", float.fromhex(du["hex"]))
    return c13.dur_variant(du["kind"], du["us"] if du["kind"] == "td" else du["s"])


def observe_event(e, c13, validator, labels):
    """what run_event_impl of c13.py records, for an event that already exists"""
    obs = {"event": e, "utc": e.timestamp.utcoffset() == timedelta(0), "is_td": isinstance(e.duration, timedelta)}
    Event = type(e)
    wire = [0] + c13.enc_event_impl(e, labels)
    try:
        d = json.loads(e.to_json_str())
        obs["json"] = d
        obs["schema_errors"] = [er.message for er in validator.iter_errors(d)]
        wire += [0] + ([1, d["id"]] if d["id"] is not None else [0]) + c13.enc_text(d["timestamp"]) \
            + fc.float_wire(d["duration"]) + [labels.label(d["data"])]
        try:
            e2 = Event(**d)
            obs["e2"] = e2
            wire += [0] + c13.enc_event_impl(e2, labels)
        except Exception as ex:  # noqa: BLE001
            obs["e2_error"] = type(ex).__name__
            wire += fc.res_wire_err(ex)
    except Exception as ex:  # noqa: BLE001
        obs["json_error"] = type(ex).__name__
        wire += fc.res_wire_err(ex)
    try:
        e3 = Event(**e)
        obs["e3"] = e3
        wire += [0] + c13.enc_event_impl(e3, labels)
    except Exception as ex:  # noqa: BLE001
        obs["e3_error"] = type(ex).__name__
        wire += fc.res_wire_err(ex)
    return wire, obs


def run_script(script, c13, Event, parse, validator):
    """-> (observations, findings): observations [(step, var, term, wire)] (model term of the values the event was
    given and what the implementation holds), findings [(step, signature, message)] of the property oracle."""
    live = {}       # var -> [event, given = {"id", "ts", "dur", "data"}]
    observations, findings = [], []
    for k, st in enumerate(script):
        op = st[0]
        failed = None            # (var, given, exception) of a constructor / setter that raised
        if op == "new":
            _, v, i, ts, du, x = st
            given = {"id": i, "ts": ts, "dur": du if du is not None else {"kind": "td", "us": 0},
                     "data": copy.deepcopy(x) if x is not None else {}}
            kw = {}
            if du is not None:
                kw["duration"] = materialise_dur(du, c13)[1]
            if x is not None:           # null = the argument is left out (the constructor's own default)
                kw["data"] = copy.deepcopy(x)
            try:
                live[v] = [Event(id=i, timestamp=materialise_ts(ts, c13)[1], **kw), given]
            except Exception as ex:  # noqa: BLE001
                failed = (v, given, ex)
        elif op == "set":
            _, v, field, val = st
            if v not in live:
                continue
            e, given = live[v]
            new = dict(given)
            try:
                if field == "timestamp":
                    new["ts"] = val
                    e.timestamp = materialise_ts(val, c13)[1]
                elif field == "duration":
                    new["dur"] = val
                    e.duration = materialise_dur(val, c13)[1]
                elif field == "data":
                    new["data"] = copy.deepcopy(val)
                    e.data = copy.deepcopy(val)
                elif field == "id":
                    new["id"] = val
                    e.id = val
                else:
                    raise ValueError("unknown field %r" % (field,))
                live[v][1] = new
            except ValueError:
                raise
            except Exception as ex:  # noqa: BLE001
                failed = (v, new, ex)
        elif op == "put":
            _, v, key, val = st
            if v not in live:
                continue
            target = live[v][0].data
            target[key] = copy.deepcopy(val)
            for w in live:          # Event(**event) hands the SAME data dict to the copy: every holder of it was "given" the key
                if live[w][0].data is target:
                    g = copy.deepcopy(live[w][1]["data"])
                    g[key] = copy.deepcopy(val)
                    live[w][1] = dict(live[w][1], data=g)
        elif op == "parse":
            tspec, obj, _ = materialise_ts(st[1], c13)
            try:
                r = parse(obj)
                inst = tspec["instant"]
                if inst is not None and 0 <= inst < c13.Y2100 and tspec["off"] % 1000 == 0 and abs(tspec["off"]) <= 14 * 3600 * 10**6:
                    want = (inst.numerator // inst.denominator) // 1000 * 1000
                    r = r if r.tzinfo else r.replace(tzinfo=timezone.utc)
                    got = c13.us_of_dt(r.astimezone(timezone.utc))
                    if got != want:
                        findings.append((k, "C13:normalise", "_timestamp_parse(%s) is the instant %d, not the given instant %s "
                                         "floored to ms (%d)" % (tspec.get("text", obj), got, inst, want)))
            except Exception as ex:  # noqa: BLE001
                if tspec["instant"] is not None and 0 <= tspec["instant"] < c13.Y2100:
                    findings.append((k, "C13:construct", "_timestamp_parse raised %s on a valid timestamp" % type(ex).__name__))
            continue
        elif op == "rebuild":
            _, out, v, how = st
            if v not in live:
                continue
            src = live[v][0]
            given = {"id": src.id, "ts": {"form": "dt", "utc": c13.us_of_dt(src.timestamp), "off": 0},
                     "dur": {"kind": "td", "us": src.duration // US}, "data": copy.deepcopy(src.data)}
            try:
                live[out] = [Event(**src) if how == "event" else Event(**json.loads(src.to_json_str())), given]
            except Exception as ex:  # noqa: BLE001
                failed = (out, given, ex)
            if how == "json" and abs(src.duration // US) >= c13.TD_BOUND:
                live.pop(out, None)         # outside the proved round trip: nothing to say about the copy
                continue
        else:
            raise ValueError("unknown step %r" % (st,))
        # every live event, against the values IT was given last
        todo = [(v, ev, given, None) for v, (ev, given) in live.items()]
        if failed:
            todo = [(failed[0], None, failed[1], failed[2])] + [t for t in todo if t[0] != failed[0] or op != "new"]
        for v, ev, given, ex in todo:
            labels = common.Labels()
            tsm, dum = materialise_ts(given["ts"], c13), materialise_dur(given["dur"], c13)
            case = (given["id"], tsm, dum, given["data"])
            term = f"run_event_case {fc.coq_optz(given['id'])} {tsm[2]} {dum[2]} {labels.label(given['data'])}"
            if ex is not None:
                wire, obs = fc.res_wire_err(ex), {"error": type(ex).__name__}
            else:
                wire, obs = observe_event(ev, c13, validator, labels)
            observations.append((k, v, term, wire))
            bad = c13.oracle_event(case, obs)
            if bad:
                findings.append((k, bad[0], "event %s after step %d: %s" % (v, k, bad[1])))
        if findings:
            break
    return observations, findings


# ---------------------------------------------------------------------------
# sessions

IANA = ["Europe/Berlin", "America/New_York", "Australia/Lord_Howe", "America/St_Johns", "Pacific/Apia", "Africa/Casablanca",
        "Europe/London", "Antarctica/Troll", "Asia/Kathmandu"]
BASE = 1_600_000_000_000_000
SYNTH = [["synth", BASE + 3_000_000, 60, 120, "gap"], ["synth", BASE + 5_000_000, 120, 60, "fold"],
         ["synth", BASE + 2_000_000, 0, 60, "zero-gap"], ["synth", BASE + 4_000_000, 60, 0, "zero-fold"],
         ["synth", BASE + 40_000_000, -210, -240, "fold-west"], ["synth", (2**51 // 10**6 + 1) * 10**6, 765, 720, "fold-2041"]]   # changes on whole seconds, as in the tz database
DATA = [{}, {"app": "a"}, {"title": "x", "n": 1}, {"nested": {"l": [1, 2.5, None, True]}}]
DURS = [{"kind": "td", "us": 0}, {"kind": "td", "us": 1_500_000}, {"kind": "int", "s": 60}, {"kind": "float", "hex": (1.5).hex()},
        {"kind": "float", "hex": (0.1).hex()}, {"kind": "td", "us": 30 * 86400 * 10**6 + 1}, {"kind": "float", "hex": (2.5e-6).hex()}]


def transitions(key, years=(1996, 2011, 2021, 2037)):
    """[(utc_us of the change, offset before, offset after)] of a tz database zone in the given years (bisection on
    utcoffset of UTC instants; whole-minute offsets only)"""
    import zoneinfo
    try:
        z = zoneinfo.ZoneInfo(key)
    except Exception:  # noqa: BLE001 -- no tz database entry: the synthetic zones remain
        return []

    def off(us):
        return (datetime(1970, 1, 1, tzinfo=timezone.utc) + timedelta(microseconds=us)).astimezone(z).utcoffset() // US
    out = []
    for y in years:
        lo = int((datetime(y, 1, 1) - EPOCH_NAIVE).total_seconds()) * 10**6
        for d in range(0, 366):
            a, b = lo + d * 86400 * 10**6, lo + (d + 1) * 86400 * 10**6
            if off(a) != off(b):
                while b - a > 1_000_000:
                    m = (a + b) // 2 // 10**6 * 10**6
                    if off(m) == off(a):
                        a = m
                    else:
                        b = m
                if off(a) % 60_000_000 == 0 and off(b) % 60_000_000 == 0:
                    out.append((b, off(a), off(b)))
    return out


def zone_table():
    """[(zspec, t_us, before_us, after_us)]"""
    tab = [(z, z[1], z[2] * 60_000_000, z[3] * 60_000_000) for z in SYNTH]
    for key in IANA:
        for t, b, a in transitions(key):
            tab.append((["iana", key], t, b, a))
    return tab


def ambiguous_walls(t, before, after, rng=None):
    """wall-clock times (µs) that are read twice (fold, after < before) or not at all (gap) around the change, edges
    included, with microsecond fields off the millisecond grid"""
    lo, hi = t + min(before, after), t + max(before, after)       # [lo, hi) is the repeated / skipped wall interval
    pts = [lo, lo + 1, lo + 999, lo + (hi - lo) // 2 + 123_456, hi - 1, hi - 1000]
    if rng is not None:
        pts = [rng.randrange(lo, hi) for _ in range(2)] + [rng.choice(pts)]
    return pts, [lo - 1, lo - 1_000_000, hi, hi + 999_999]          # inside, just outside (unambiguous)


def zts(z, wall, fold):
    return {"form": "zone", "zone": z, "wall": wall, "fold": fold}


def boundary_sessions(tab):
    out = []
    td = DURS[1]
    for n, (z, t, before, after) in enumerate(tab):
        inside, outside = ambiguous_walls(t, before, after)
        w = inside[3]
        x = DATA[n % len(DATA)]
        # the two readings of one wall time: two instances, both orders
        out.append([["new", "a", 1, zts(z, w, 0), td, x], ["new", "b", 2, zts(z, w, 1), td, x]])
        out.append([["new", "b", 2, zts(z, w, 1), td, x], ["new", "a", 1, zts(z, w, 0), td, x]])
        if n % 3 == 0:
            # one instance, assigned one reading after the other and back
            out.append([["new", "a", None, zts(z, inside[0], 0), DURS[0], x], ["set", "a", "timestamp", zts(z, inside[0], 1)],
                        ["set", "a", "timestamp", zts(z, inside[0], 0)], ["rebuild", "c", "a", "json"]])
        elif n % 3 == 1:
            # the anchored function first, then events
            out.append([["parse", zts(z, inside[4], 1)], ["parse", zts(z, inside[4], 0)], ["new", "a", 7, zts(z, inside[4], 1), DURS[2], x],
                        ["new", "b", 7, zts(z, inside[4], 0), DURS[2], x]])
        else:
            # edges of the interval and its unambiguous neighbours with both fold values
            out.append([["new", "v%d" % j, j, zts(z, wl, f), DURS[3], x] for j, (wl, f) in enumerate(
                [(outside[0], 0), (outside[0], 1), (inside[0], 0), (inside[0], 1), (outside[2], 1), (outside[2], 0)])])
    # the same instant written differently: zones, strings, naive
    u = BASE + 123_456
    iso = "2020-09-13T12:26:40.123456"
    out.append([["new", "a", 1, {"form": "dt", "utc": u, "off": 0}, td, {}],
                ["new", "b", 1, {"form": "dt", "utc": u, "off": 330 * 60_000_000}, td, {}],
                ["new", "c", 1, {"form": "str", "text": iso + "Z", "instant": [u, 1], "off": 0}, td, {}],
                ["new", "d", 1, {"form": "str", "text": iso + "+00:00", "instant": [u, 1], "off": 0}, td, {}],
                ["new", "e", 1, {"form": "naive", "local": u}, td, {}],
                ["new", "f", 1, {"form": "str", "text": "2020-09-13T17:56:40.123456+05:30", "instant": [u, 1], "off": 330 * 60_000_000}, td, {}],
                ["new", "g", 1, {"form": "dt", "utc": u + 3600 * 10**6, "off": 3600 * 10**6}, td, {}],
                ["new", "h", 1, {"form": "dt", "utc": u, "off": 3600 * 10**6}, td, {}]])
    # one instance through many assignments, JSON taken in between; two instances from the same inputs
    out.append([["new", "a", 5, {"form": "dt", "utc": u, "off": 0}, DURS[3], {"app": "a"}],
                ["new", "b", 5, {"form": "dt", "utc": u, "off": 0}, DURS[3], {"app": "a"}],
                ["set", "a", "timestamp", {"form": "dt", "utc": u + 999, "off": -210 * 60_000_000}],
                ["set", "a", "duration", DURS[2]], ["set", "a", "duration", DURS[6]], ["rebuild", "c", "a", "json"],
                ["set", "a", "data", {"app": "b"}], ["put", "a", "k", [1]], ["set", "a", "id", 9], ["rebuild", "d", "a", "event"],
                ["set", "d", "timestamp", {"form": "str", "text": "2031-01-01T00:00:00.000999+01:00",
                                            "instant": [1924988400000999, 1], "off": 3600 * 10**6}],
                ["set", "c", "duration", DURS[5]], ["set", "b", "id", None], ["rebuild", "e", "d", "json"]])
    # constructor defaults: events built without data / duration, one of them written to in place
    out.append([["new", "a", 1, {"form": "dt", "utc": u, "off": 0}, None, None], ["put", "a", "k", 1],
                ["new", "b", 2, {"form": "dt", "utc": u + 1000, "off": 0}, None, None], ["put", "b", "app", "z"],
                ["new", "c", None, {"form": "dt", "utc": u, "off": 0}, DURS[3], None], ["rebuild", "d", "c", "json"]])
    # an event whose data is large (longer than any chunk constant of a serialiser)
    big = {"keys": {"k%05d" % i: i for i in range(10_001)}, "list": list(range(10_050)), "text": "x" * 70_000}
    out.append([["new", "a", 1, {"form": "dt", "utc": u, "off": 0}, td, big], ["rebuild", "b", "a", "json"], ["rebuild", "c", "a", "event"]])
    return out


def rand_ts(rng, tab):
    r = rng.random()
    if r < 0.55:
        z, t, before, after = rng.choice(tab)
        inside, outside = ambiguous_walls(t, before, after, rng)
        return zts(z, rng.choice(inside + inside + outside), rng.randrange(2))
    u = rng.choice([BASE, 2**51, 951782400 * 10**6]) + rng.randrange(0, 10**7)
    if r < 0.8:
        return {"form": "dt", "utc": u, "off": rng.choice([0, 0, 330, -210, 765, -1]) * 60_000_000}
    if r < 0.9:
        return {"form": "naive", "local": u}
    d = EPOCH_NAIVE + timedelta(microseconds=u)
    return {"form": "str", "text": d.strftime("%Y-%m-%dT%H:%M:%S.") + "%06dZ" % d.microsecond, "instant": [u, 1], "off": 0}


def random_session(rng, tab):
    script, names = [], []
    pool = [rand_ts(rng, tab) for _ in range(2)]
    # twins of the pooled zone readings: the look-alikes are what collides
    pool += [dict(p, fold=1 - p["fold"]) for p in pool if p["form"] == "zone"]

    def ts():
        return copy.deepcopy(rng.choice(pool)) if rng.random() < 0.75 else rand_ts(rng, tab)
    for _ in range(rng.randrange(3, 9)):
        r = rng.random()
        if r < 0.45 or not names:
            v = "e%d" % len(names)
            names.append(v)
            script.append(["new", v, rng.choice([None, 1, 7]), ts(), rng.choice(DURS + [None]), rng.choice(DATA + [None])])
        elif r < 0.70:
            script.append(["set", rng.choice(names), "timestamp", ts()])
        elif r < 0.78:
            script.append(["set", rng.choice(names), "duration", rng.choice(DURS)])
        elif r < 0.83:
            script.append(["set", rng.choice(names), "data", rng.choice(DATA)])
        elif r < 0.87:
            script.append(["set", rng.choice(names), "id", rng.choice([None, 3, 2**40])])
        elif r < 0.92:
            script.append(["parse", ts()])
        elif r < 0.96:
            v = "e%d" % len(names)
            script.append(["rebuild", v, rng.choice(names), rng.choice(["json", "event"])])
            names.append(v)
        else:
            script.append(["put", rng.choice(names), rng.choice(["k", "app"]), rng.choice([1, "z", [1, 2]])])
    return script


def shrink_script(script, fails):
    return common.shrink_list(script, fails, max_steps=120)


def make_runner(c13, Event, parse, validator):
    """call BEFORE the check has called anything in aw_core (harness/freshproc.py)"""
    from .freshproc import Fresh
    return Fresh(lambda script: run_script(script, c13, Event, parse, validator))


def run(ck, runner):
    """-> (terms, wires, descriptions) for the in-Coq model; oracle findings are reported here (shrunk script)"""
    tab = zone_table()
    ck.coverage["history_zones"] = sorted({z[-1] for z, _, _, _ in tab})
    n = 250 if ck.tier == "quick" else 8000
    sessions = boundary_sessions(tab) + [random_session(ck.rng, tab) for _ in range(n)]
    terms, wires, descs = [], [], []
    for si, script in enumerate(sessions):
        observations, findings = runner.run(script)
        ck.count("history:sessions")
        for st in script:
            ck.count("history:step:" + st[0] + (":" + st[2] if st[0] == "set" else ""))
            tss = [a for a in st if isinstance(a, dict) and "form" in a]
            for t in tss:
                ck.count("history:ts:" + t["form"] + (":fold=%d" % t["fold"] if t["form"] == "zone" else ""))
        for (k, v, term, wire) in observations:
            terms.append(term)
            wires.append(wire)
            descs.append("history session %d, event %s after step %d of %s" % (si, v, k, json.dumps(script)[:700]))
            ck.note_case(["history", si, k, v, term], nontrivial=k > 0)
        if findings:
            k, sig, msg = findings[0]

            def fails(sc, _sig=sig):
                return any(s == _sig for _, s, _ in runner.run(sc)[1])
            small = shrink_script(script, fails) if len(ck.violations) < 3 else script
            f2 = [f for f in runner.run(small)[1] if f[1] == sig]
            k2, _, msg2 = f2[0] if f2 else (k, sig, msg)
            ck.failing_input(sig, "step %d of a sequence of calls in one process: %s" % (k2, msg2),
                             {"script": small, "failing_step": k2, "violated": msg2,
                              "how_to_read": "the steps run in order in ONE fresh process (harness/c13_hist.py)",
                              "rerun": "PYTHONPATH=%s:%s /venv/bin/python -m harness.c13_hist '%s'" % (
                                  common.REPO, common.VERIF, json.dumps(small))})
    ck.coverage["history_evaluations_in_fresh_processes"] = runner.evaluations
    return terms, wires, descs


def replay_main(argv):
    """python -m harness.c13_hist '<script json>' : run one script on the implementation, print the oracle's verdict"""
    import sys
    script = json.loads(argv[0])
    common.setup_impl_env()
    from . import c13
    from aw_core.models import Event, _timestamp_parse
    from aw_core.schema import get_json_schema
    import jsonschema
    schema = get_json_schema("event")
    validator = jsonschema.validators.validator_for(schema)(schema, format_checker=jsonschema.FormatChecker())
    observations, findings = run_script(script, c13, Event, _timestamp_parse, validator)
    for k, v, term, wire in observations:
        print("after step %d, event %s: given %s\n    holds %s" % (k, v, term[:200], wire[:6]))
    for k, sig, msg in findings:
        print("oracle : step %d %s: %s" % (k, sig, msg))
    if not findings:
        print("oracle : ok")
    return 1 if findings else 0


if __name__ == "__main__":
    import sys
    sys.exit(replay_main(sys.argv[1:]))
