"""C13, history stream: SEQUENCES of Event constructions / attribute assignments / _timestamp_parse calls / JSON
round trips in ONE process, with look-alike values.

The models (Model/EventModel.v) are pure: what an event holds is a function of the id / timestamp / duration / data it
was given LAST.  A session is a small script; after every step every live Event is observed exactly like a single case
of harness/c13.py (normalised timestamp, duration, JSON form + schema, Event(**json), Event(**event)), judged by the
property oracle of c13.py against the values that event was given, and queued for the in-Coq model on those values
alone.  Whatever the implementation keeps between calls (a functools cache on _timestamp_parse, a memo of the JSON
form on the instance, class-level defaults) shows up as an event that is not the property's function of its own
inputs - a failing input that is the script.  Every session runs in a process forked from a pristine snapshot
(harness/freshproc.py), so a failing script is self-contained.

Look-alike timestamps: aware datetimes in a zone with transitions (zoneinfo keys and the synthetic PEP 495 zones of
harness/evutil.py), in particular the fold=0 / fold=1 twins of one repeated wall-clock time and of one skipped wall
time: with the same tzinfo object they compare equal and hash equal although they are different instants; the same
instant written in different zones / as different strings.

script = [step, ...]   (JSON)
  ["new", v, id, ts, dur, data]       v := Event(id=, timestamp=, duration=, data=); dur / data null = argument left out
  ["set", v, field, value]            v.<field> = value          (field: id | timestamp | duration | data)
  ["parse", ts]                       _timestamp_parse(ts)       (the anchored function on its own)
  ["rebuild", out, v, how]            out := Event(**v) (how = "event") | Event(**json.loads(v.to_json_str())) ("json")
  ["put", v, key, value]              v.data[key] = value        (in place)
  ["json", v] | ["dict", v]           v.to_json_str() | v.to_json_dict() as an operation of its own (its result must be
                                      the event's JSON form)
  ["fault", step, [callee, exc, nth]] the step with the nth call of the named callee (CALLEE_NAMES) raising exc ONCE
                                      (harness/twothreads.py: raising_once): a fault the caller survives.  Expectation:
                                      a call that raised changed nothing - every live event is re-observed against
                                      the values it was given last
  ["interleave", stepA, stepB, callee, nth]   two threads (harness/twothreads.py): stepA runs until it is inside its
                                      nth call of the callee, stepB runs from start to end, every live event that A
                                      does not write is observed, then A finishes.  Expectation: the sequential
                                      model's answer for each thread's own input
  ["quiet", step]                     the step (any of the above) WITHOUT the observation that normally follows it: the
                                      observation is itself a sequence of library calls (JSON, Event(**json)) and
                                      would come between the step and the next one; what was left to observe is
                                      observed after the next ordinary step
data values: JSON, or a marker {"$": "bigint" | "deep" | "bytes" | "set" | "tuplekey" | "cycle"} for a value json.dumps
refuses (mat_data): the natural ways to make the serialiser raise.  dur {"kind": "bad", "what": ...}: not a duration.
ts  = {"form": "dt", "utc": us, "off": us} | {"form": "naive", "local": us} | {"form": "str", "text": s, "instant": [p, q] | null,
       "off": us} | {"form": "zone", "zone": zspec, "wall": us, "fold": 0 | 1}      (wall = wall-clock fields as µs since 1970)
zspec = ["iana", key] | ["synth", t_us, before_min, after_min, name]
dur = {"kind": "td", "us": n} | {"kind": "int", "s": n} | {"kind": "float", "hex": h}"""
import copy
import json
import sys
from datetime import datetime, timedelta, timezone
from fractions import Fraction

from . import common
from . import floatcases as fc
from .evutil import SynthZone

EPOCH_NAIVE = datetime(1970, 1, 1)
US = timedelta(microseconds=1)
_ZONES = {}


def zone_of(zspec):
    """ONE tzinfo object per zone and process (the twins of a session must share it, as zoneinfo.ZoneInfo(key) does)"""
    key = json.dumps(zspec)
    if key not in _ZONES:
        if zspec[0] == "iana":
            import zoneinfo
            _ZONES[key] = zoneinfo.ZoneInfo(zspec[1])
        else:
            _ZONES[key] = SynthZone(*zspec[1:])
    return _ZONES[key]


def zone_offset_us(zspec, wall_us, fold, obj):
    """utcoffset of the wall time, for the synthetic zones from the zone's definition (PEP 495: in a fold fold=0 is the
    offset before the change, fold=1 after; in a gap likewise), for tz database zones from the zone object"""
    if zspec[0] == "synth":
        t, before, after = zspec[1], zspec[2] * 60_000_000, zspec[3] * 60_000_000
        is_before, is_after = wall_us - before < t, wall_us - after >= t
        if is_before and not is_after:
            return before
        if is_after and not is_before:
            return after
        return after if fold else before
    return obj.utcoffset() // US


def materialise_ts(ts, c13):
    """-> (tspec as oracle_event wants it, Python object, Gallina term)"""
    form = ts["form"]
    if form == "dt":
        tz = timezone(timedelta(microseconds=ts["off"])) if ts["off"] else timezone.utc
        obj = (EPOCH_NAIVE + timedelta(microseconds=ts["utc"] + ts["off"])).replace(tzinfo=tz)
        return ({"instant": Fraction(ts["utc"]), "off": ts["off"], "form": "dt"}, obj,
                f"(TsDt {fc.coq_z(ts['utc'])} {fc.coq_z(ts['off'])})")
    if form == "naive":
        obj = EPOCH_NAIVE + timedelta(microseconds=ts["local"])
        return ({"instant": Fraction(ts["local"]), "off": 0, "form": "naive"}, obj, f"(TsNaive {fc.coq_z(ts['local'])})")
    if form == "str":
        inst = None if ts["instant"] is None else Fraction(ts["instant"][0], ts["instant"][1])
        return ({"instant": inst, "off": ts["off"], "form": "str", "text": ts["text"]}, ts["text"],
                f"(TsStr {c13.coq_str(ts['text'])})")
    if form == "zone":
        obj = (EPOCH_NAIVE + timedelta(microseconds=ts["wall"])).replace(tzinfo=zone_of(ts["zone"]), fold=ts["fold"])
        off = zone_offset_us(ts["zone"], ts["wall"], ts["fold"], obj)
        utc = ts["wall"] - off
        return ({"instant": Fraction(utc), "off": off, "form": "zone",
                 "text": "%r (fold=%d, zone %s)" % (obj.replace(tzinfo=None).isoformat(), ts["fold"], ts["zone"][-1])},
                obj, f"(TsDt {fc.coq_z(utc)} {fc.coq_z(off)})")
    raise ValueError("unknown timestamp form %r" % (ts,))


def materialise_dur(du, c13):
    if du["kind"] == "float":
        return c13.dur_variant("float", float.fromhex(du["hex"]))
    if du["kind"] == "bad":       # not a duration at all (outside the quantifier): only what a FAILED assignment leaves behind is judged
        obj = {"str": "1.5", "none": None, "fraction": Fraction(1, 3), "list": [1], "complex": 1j}[du["what"]]
        return ({"kind": "bad", "what": du["what"]}, obj, None)
    return c13.dur_variant(du["kind"], du["us"] if du["kind"] == "td" else du["s"])


def has_special(x):
    """does the data spec contain a {"$": ...} marker (a value json.dumps cannot encode)?"""
    if isinstance(x, dict):
        return "$" in x or any(has_special(v) for v in x.values())
    if isinstance(x, list):
        return any(has_special(v) for v in x)
    return False


def mat_data(x):
    """data spec (JSON; kept in the script and in `given`) -> a fresh Python value.  Plain JSON is copied; a marker
    {"$": kind} becomes a value the JSON encoder of this interpreter refuses - the NATURAL ways to make json.dumps
    raise under a caller that survives: "bigint" (more digits than sys.get_int_max_str_digits(): ValueError), "deep"
    (nested beyond the recursion limit: RecursionError), "bytes" / "set" (TypeError), "tuplekey" (TypeError: keys must
    be str, ...), "cycle" (ValueError: circular reference)"""
    if isinstance(x, dict):
        if "$" in x:
            kind = x["$"]
            if kind == "bigint":
                return 10 ** x.get("digits", 5000)
            if kind == "deep":
                v = []
                for _ in range(x.get("depth", 3 * sys.getrecursionlimit())):
                    v = [v]
                return v
            if kind == "bytes":
                return b"bytes"
            if kind == "set":
                return {1, 2}
            if kind == "tuplekey":
                return {(1, 2): 3}
            if kind == "cycle":
                v = [1]
                v.append(v)
                return v
            raise ValueError("unknown data marker %r" % (x,))
        return {k: mat_data(v) for k, v in x.items()}
    if isinstance(x, list):
        return [mat_data(v) for v in x]
    return x


# callees of aw_core.models that can be made to raise once / to suspend one thread (harness/twothreads.py)
CALLEE_NAMES = ["iso8601.parse_date", "json.dumps", "json.encode", "Event.copy", "copy.copy", "copy.deepcopy",
                "zone.utcoffset", "logging.warning"]
EXCEPTIONS = {"MemoryError": MemoryError, "RecursionError": RecursionError, "ValueError": ValueError, "TypeError": TypeError,
              "KeyboardInterrupt": KeyboardInterrupt, "OSError": OSError}
_CALLEES = {}
WAIT_S = 8.0          # a thread that has not finished after this long is reported as C13:timeout
SESSION_S = 20.0      # a whole session (a few dozen calls; milliseconds) that has not finished after this long likewise


def callees(Event):
    """name -> twothreads.Callee (patch sites computed once, in the pristine snapshot)"""
    if not _CALLEES:
        import logging
        import iso8601
        from . import twothreads as tt
        for name, owner, attr in (("iso8601.parse_date", iso8601, "parse_date"), ("json.dumps", json, "dumps"),
                                  ("json.encode", json.JSONEncoder, "encode"), ("Event.copy", Event, "copy"),
                                  ("copy.copy", copy, "copy"), ("copy.deepcopy", copy, "deepcopy"),
                                  ("zone.utcoffset", SynthZone, "utcoffset"), ("logging.warning", logging.Logger, "warning")):
            c = tt.Callee(owner, attr, label=name)
            c.sites()
            _CALLEES[name] = c
    return _CALLEES


def held_view(e):
    """what the event HOLDS, through its public attributes: (type name, value) of timestamp and duration"""
    try:
        ts, du = e.timestamp, e.duration
    except Exception as ex:  # noqa: BLE001
        return ("raises", type(ex).__name__)
    return (type(ts).__name__, ts, type(du).__name__, du)


def observe_event(e, c13, validator, labels, encodable=True):
    """what run_event_impl of c13.py records, for an event that already exists"""
    before = held_view(e)
    ts, du = (before[1], before[3]) if len(before) == 4 else (None, None)
    if not (isinstance(ts, datetime) and ts.tzinfo is not None and isinstance(du, timedelta)):
        # the event does not even hold a (aware datetime, timedelta) pair: nothing else can be observed
        what = ("reading its attributes raises %s" % before[1]) if len(before) == 2 else \
            "timestamp is %s %r, duration is %s %r" % before
        return [2, 0], {"event": e, "held_type": what}
    obs = {"event": e, "utc": e.timestamp.utcoffset() == timedelta(0), "is_td": isinstance(e.duration, timedelta)}
    if not encodable:
        obs["unencodable"] = True        # the data given is not JSON data here: the JSON clauses say nothing
    Event = type(e)
    wire = [0] + c13.enc_event_impl(e, labels if encodable else common.Labels())
    try:
        d = json.loads(e.to_json_str())
        obs["json"] = d
        obs["schema_errors"] = [er.message for er in validator.iter_errors(d)]
        wire += [0] + ([1, d["id"]] if d["id"] is not None else [0]) + c13.enc_text(d["timestamp"]) \
            + fc.float_wire(d["duration"]) + [labels.label(d["data"])]
        try:
            e2 = Event(**d)
            obs["e2"] = e2
            wire += [0] + c13.enc_event_impl(e2, labels)
        except Exception as ex:  # noqa: BLE001
            obs["e2_error"] = type(ex).__name__
            wire += fc.res_wire_err(ex)
    except Exception as ex:  # noqa: BLE001
        obs["json_error"] = type(ex).__name__
        wire += fc.res_wire_err(ex)
    try:
        e3 = Event(**e)
        obs["e3"] = e3
        if encodable:
            wire += [0] + c13.enc_event_impl(e3, labels)
    except Exception as ex:  # noqa: BLE001
        obs["e3_error"] = type(ex).__name__
        wire += fc.res_wire_err(ex)
    after = held_view(e)
    if not (len(after) == 4 and after[0] == before[0] and after[2] == before[2] and after[1] == before[1]
            and after[1].utcoffset() == before[1].utcoffset() and after[3] == before[3]):
        # to_json_str / Event(**json) / Event(**event) only READ the event, whether they return or raise
        obs["held_changed"] = "reading the event (to_json_str%s, Event(**event)) changed what it holds: before %r, after %r" % (
            " raised %s" % obs["json_error"] if "json_error" in obs else "", before, after)
    return wire, obs


class _Op:
    """one step, split into: arguments already materialised | call() = the library call only | commit"""

    def __init__(self, name, var=None, writes=None, call=None, ok=None, err=None, observe=True):
        self.name, self.var, self.writes, self.call, self.ok, self.err, self.observe = name, var, writes, call, ok, err, observe


class _Session:
    def __init__(self, c13, Event, parse, validator):
        self.c13, self.Event, self.parse, self.validator = c13, Event, parse, validator
        self.live = {}       # var -> [event, given = {"id", "ts", "dur", "data"}]   (data: the SPEC, see mat_data)
        self.observations, self.findings = [], []
        self.k = 0
        self.results = []    # (var, "json" | "dict", value) returned by a json / dict step, judged at the next observation
        self.pending = []    # failed constructor / setter calls of quiet steps, for the next observation
        self.stats = {}

    def count(self, key):
        self.stats[key] = self.stats.get(key, 0) + 1

    # -- steps ------------------------------------------------------------------------------------------------
    def prepare(self, st):
        """-> _Op, or None when the step refers to an event that does not exist (shrunk scripts)"""
        c13, live, Event = self.c13, self.live, self.Event
        op = st[0]
        if op == "new":
            _, v, i, ts, du, x = st
            given = {"id": i, "ts": ts, "dur": du if du is not None else {"kind": "td", "us": 0},
                     "data": copy.deepcopy(x) if x is not None else {}}
            kw = {}
            if du is not None:
                kw["duration"] = materialise_dur(du, c13)[1]
            if x is not None:           # null = the argument is left out (the constructor's own default)
                kw["data"] = mat_data(x)
            tobj = materialise_ts(ts, c13)[1]

            def ok(e):
                live[v] = [e, given]
                if given["dur"]["kind"] == "bad":
                    live.pop(v)          # accepted something that is not a duration: outside the property
            return _Op("new", var=v, writes=v, call=lambda: Event(id=i, timestamp=tobj, **kw), ok=ok,
                       err=lambda ex: (v, given, ex, True))
        if op == "set":
            _, v, field, val = st
            if v not in live:
                return None
            e, given = live[v]
            new = dict(given)
            if field == "timestamp":
                new["ts"], obj = val, materialise_ts(val, c13)[1]
            elif field == "duration":
                new["dur"], obj = val, materialise_dur(val, c13)[1]
            elif field == "data":
                new["data"], obj = copy.deepcopy(val), mat_data(val)
            elif field == "id":
                new["id"], obj = val, val
            else:
                raise ValueError("unknown field %r" % (field,))

            def ok(_):
                live[v][1] = new
                if new["dur"]["kind"] == "bad":
                    live.pop(v)
            return _Op("set", var=v, writes=v, call=lambda: setattr(e, field, obj), ok=ok, err=lambda ex: (v, new, ex, False))
        if op == "put":
            _, v, key, val = st
            if v not in live:
                return None
            target = live[v][0].data
            value = mat_data(val)

            def call():
                target[key] = value

            def ok(_):
                for w in live:      # Event(**event) hands the SAME data dict to the copy: every holder of it was "given" the key
                    if live[w][0].data is target:
                        g = copy.deepcopy(live[w][1]["data"])
                        g[key] = copy.deepcopy(val)
                        live[w][1] = dict(live[w][1], data=g)
            return _Op("put", var=v, writes=v, call=call, ok=ok, err=lambda ex: None)
        if op == "parse":
            tspec, obj, _ = materialise_ts(st[1], c13)
            k = self.k

            def ok(r):
                inst = tspec["instant"]
                if inst is not None and 0 <= inst < c13.Y2100 and tspec["off"] % 1000 == 0 and abs(tspec["off"]) <= 14 * 3600 * 10**6:
                    want = (inst.numerator // inst.denominator) // 1000 * 1000
                    r = r if r.tzinfo else r.replace(tzinfo=timezone.utc)
                    got = c13.us_of_dt(r.astimezone(timezone.utc))
                    if got != want:
                        self.findings.append((k, "C13:normalise", "_timestamp_parse(%s) is the instant %d, not the given instant %s "
                                              "floored to ms (%d)" % (tspec.get("text", obj), got, inst, want)))

            def err(ex):
                if tspec["instant"] is not None and 0 <= tspec["instant"] < c13.Y2100:
                    self.findings.append((k, "C13:construct", "_timestamp_parse raised %s on a valid timestamp" % type(ex).__name__))
            return _Op("parse", call=lambda: self.parse(obj), ok=ok, err=err, observe=False)
        if op == "rebuild":
            _, out, v, how = st
            if v not in live:
                return None
            src = live[v][0]
            hv = held_view(src)
            if not (len(hv) == 4 and isinstance(hv[1], datetime) and isinstance(hv[3], timedelta)):
                return None         # the source is already broken (reported by its own observation)
            given = {"id": src.id, "ts": {"form": "dt", "utc": c13.us_of_dt(src.timestamp), "off": 0},
                     "dur": {"kind": "td", "us": src.duration // US}, "data": copy.deepcopy(live[v][1]["data"])}
            big = how == "json" and abs(src.duration // US) >= c13.TD_BOUND    # outside the proved round trip: nothing to say about the copy

            def ok(e):
                if not big:
                    live[out] = [e, given]

            natural = how == "json" and has_special(given["data"])     # json.dumps refuses the data: the copy cannot exist

            def err(ex):
                if big:
                    live.pop(out, None)
                return None if big or natural else (out, given, ex, True)
            return _Op("rebuild", var=out, writes=out, ok=ok, err=err, observe=not big,
                       call=(lambda: Event(**src)) if how == "event" else (lambda: Event(**json.loads(src.to_json_str()))))
        if op in ("json", "dict"):
            v = st[1]
            if v not in live:
                return None
            e = live[v][0]
            return _Op(op, var=v, call=e.to_json_str if op == "json" else e.to_json_dict,
                       ok=lambda r: self.results.append((v, op, r)), err=lambda ex: None)
        raise ValueError("unknown step %r" % (st,))

    def call_only(self, op, fault=None):
        """the library call and nothing else -> ("ok", value, fired) | ("raised", exception, fired)"""
        from . import twothreads as tt
        fired = False
        try:
            if fault is None:
                r = op.call()
            else:
                with tt.raising_once(callees(self.Event)[fault[0]], EXCEPTIONS[fault[1]], nth=fault[2]) as f:
                    try:
                        r = op.call()
                    finally:
                        fired = f.fired
        except BaseException as ex:  # noqa: BLE001 -- a caller that survives everything
            return ("raised", ex, fired)
        return ("ok", r, fired)

    def commit(self, op, outcome, fault=None):
        """book-keeping of the harness after the call -> failed = (var, given, exception, is_new) | None"""
        how, r, fired = outcome
        if op.writes is not None:
            # a result of to_json_str / to_json_dict that has not been judged yet (quiet steps) spoke about the values
            # the event held THEN (put: every event sharing the data dict)
            self.results = [x for x in self.results if x[0] != op.writes and op.name != "put"]
        if fault is not None:
            self.count("fault:%s:%s:%s" % (op.name, fault[0], {("raised", True): "raised", ("raised", False): "raised-on-its-own",
                                                              ("ok", True): "swallowed", ("ok", False): "callee-not-reached"}[how, fired]))
        if how == "raised":
            # an INJECTED fault is not an input: there is no model answer for the failed call itself, only the
            # expectation that nothing changed (the live events are re-observed against what they were given)
            return None if fired else op.err(r)
        op.ok(r)
        return None

    def execute(self, op, fault=None):
        return self.commit(op, self.call_only(op, fault), fault)

    def step(self, k, st):
        self.k = k
        self.pending = [(f[0], f[1], f[2], False) for f in self.pending]
        quiet = st[0] == "quiet"
        if quiet:
            st = st[1]
        if st[0] == "fault":
            op = self.prepare(st[1])
            if op is None:
                return
            failed = [self.execute(op, fault=st[2])]
            observe = True       # also after a `parse`: what did the fault leave behind?
        elif st[0] == "interleave":
            failed, observe = self.interleave(k, st, quiet), True
        else:
            op = self.prepare(st)
            if op is None:
                return
            failed = [self.execute(op)]
            observe = op.observe
        self.pending += [f for f in failed if f]
        if any(f[1] == "C13:timeout" for f in self.findings):
            return              # threads of the library are still stuck: an observation would hang as well
        if observe and not quiet:
            self.observe(k, self.pending)
            self.pending = []

    def interleave(self, k, st, quiet=False):
        from . import twothreads as tt
        _, sa, sb, callee, nth = st
        opa = self.prepare(sa)
        opb = self.prepare(sb)
        if opa is None or opb is None:
            return [self.execute(o) for o in (opa, opb) if o is not None]
        failed = []
        # thread A: the library call, then (callee no longer watched) the book-keeping; B: call + book-keeping
        out = tt.interleave(lambda: self.call_only(opa), lambda: failed.append(self.execute(opb)),
                            a_after=lambda res: failed.append(self.commit(opa, res.value)) if res.state == "ok" else None,
                            pause=callees(self.Event)[callee], nth=nth,
                            mid=None if quiet else (lambda: self.observe(k, [], skip={opa.writes} if opa.writes else set(),
                                                                           phase="while A is suspended in %s" % callee)),
                            wait_s=WAIT_S, blocked_s=1.0, mid_blocked_s=3.0)
        self.count("threads:%s:%s" % (callee, "timeout" if out.timed_out else "B-blocked" if out.b_blocked else
                                      "interleaved" if out.reached else "callee-not-reached"))
        for name, r in (("A", out.a), ("B", out.b), ("mid", out.mid)):
            if r.state == "raised":
                raise r.exc
        if out.timed_out:
            self.findings.append((k, "C13:timeout", "thread(s) %s did not finish within %g s (A = %s suspended in its call %d of %s, "
                                  "B = %s run meanwhile)" % (out.timed_out, WAIT_S, sa[:2], nth, callee, sb[:2])))
        return failed

    # -- observation --------------------------------------------------------------------------------------------
    def observe(self, k, failed, skip=(), phase=None):
        """every live event against the values IT was given last (+ the model's answer for a constructor / setter that
        raised on its own)"""
        c13 = self.c13
        new_failed = {f[0] for f in failed if f[3]}
        todo = [(f[0], None, f[1], f[2]) for f in failed]
        todo += [(v, ev, given, None) for v, (ev, given) in self.live.items() if v not in new_failed and v not in skip]
        where = "after step %d" % k + (" (%s)" % phase if phase else "")
        for v, ev, given, ex in todo:
            labels = common.Labels()
            tsm, dum = materialise_ts(given["ts"], c13), materialise_dur(given["dur"], c13)
            if dum[2] is None:
                continue          # a value that is not a duration was refused: nothing to compare with
            encodable = not has_special(given["data"])
            case = (given["id"], tsm, dum, mat_data(given["data"]) if encodable else None)
            lab = labels.label(case[3]) if encodable else None
            if ex is not None:
                wire, obs = fc.res_wire_err(ex), {"error": type(ex).__name__}
            else:
                wire, obs = observe_event(ev, c13, self.validator, labels, encodable)
            if encodable:
                term = f"run_event_case {fc.coq_optz(given['id'])} {tsm[2]} {dum[2]} {lab}"
                self.observations.append((k, v, term, wire))
            bad = c13.oracle_event(case, obs)
            if bad:
                self.findings.append((k, bad[0], "event %s %s: %s" % (v, where, bad[1])))
            elif ex is None:
                for r in [r for r in self.results if r[0] == v]:
                    self.results.remove(r)
                    try:
                        again = ev.to_json_str() if r[1] == "json" else ev.to_json_dict()
                    except Exception as ex2:  # noqa: BLE001
                        again = "raises %s" % type(ex2).__name__
                    same = again == r[2] if encodable else (isinstance(again, type(r[2])) and (
                        r[1] == "json" or {f: again.get(f) for f in ("id", "timestamp", "duration")} ==
                        {f: r[2].get(f) for f in ("id", "timestamp", "duration")}))
                    if not same:
                        self.findings.append((k, "C13:json-call", "event %s %s: %s returned %.300r but the event's JSON form is %.300r" % (
                            v, where, "to_json_str()" if r[1] == "json" else "to_json_dict()", r[2], again)))
        self.results = [r for r in self.results if r[0] in self.live and r[0] in skip]


def run_script(script, c13, Event, parse, validator, stats=None):
    """-> (observations, findings): observations [(step, var, term, wire)] (model term of the values the event was
    given and what the implementation holds), findings [(step, signature, message)] of the property oracle.
    The session runs in a daemon thread: a call that never returns (a lock leaked by a call that raised, two threads
    waiting for each other) becomes the finding C13:timeout instead of a harness that hangs."""
    import threading
    s = _Session(c13, Event, parse, validator)
    box = {}

    def body():
        try:
            for k, st in enumerate(script):
                s.step(k, st)
                if s.findings:
                    break
        except BaseException as ex:  # noqa: BLE001 -- handed to the caller's thread
            box["error"] = ex
    t = threading.Thread(target=body, name="session", daemon=True)
    t.start()
    t.join(SESSION_S)
    if t.is_alive():
        s.findings = list(s.findings) + [(s.k, "C13:timeout", "step %d (%s) or the observation of the live events after it did not "
                                          "return within %g s" % (s.k, json.dumps(script[s.k])[:200], SESSION_S))]
    elif "error" in box:
        raise box["error"]
    if stats is not None:
        stats.update(s.stats)
    return list(s.observations), list(s.findings)


# ---------------------------------------------------------------------------
# sessions

IANA = ["Europe/Berlin", "America/New_York", "Australia/Lord_Howe", "America/St_Johns", "Pacific/Apia", "Africa/Casablanca",
        "Europe/London", "Antarctica/Troll", "Asia/Kathmandu"]
BASE = 1_600_000_000_000_000
SYNTH = [["synth", BASE + 3_000_000, 60, 120, "gap"], ["synth", BASE + 5_000_000, 120, 60, "fold"],
         ["synth", BASE + 2_000_000, 0, 60, "zero-gap"], ["synth", BASE + 4_000_000, 60, 0, "zero-fold"],
         ["synth", BASE + 40_000_000, -210, -240, "fold-west"], ["synth", (2**51 // 10**6 + 1) * 10**6, 765, 720, "fold-2041"]]   # changes on whole seconds, as in the tz database
DATA = [{}, {"app": "a"}, {"title": "x", "n": 1}, {"nested": {"l": [1, 2.5, None, True]}}]
DURS = [{"kind": "td", "us": 0}, {"kind": "td", "us": 1_500_000}, {"kind": "int", "s": 60}, {"kind": "float", "hex": (1.5).hex()},
        {"kind": "float", "hex": (0.1).hex()}, {"kind": "td", "us": 30 * 86400 * 10**6 + 1}, {"kind": "float", "hex": (2.5e-6).hex()}]


def transitions(key, years=(1996, 2011, 2021, 2037)):
    """[(utc_us of the change, offset before, offset after)] of a tz database zone in the given years (bisection on
    utcoffset of UTC instants; whole-minute offsets only)"""
    import zoneinfo
    try:
        z = zoneinfo.ZoneInfo(key)
    except Exception:  # noqa: BLE001 -- no tz database entry: the synthetic zones remain
        return []

    def off(us):
        return (datetime(1970, 1, 1, tzinfo=timezone.utc) + timedelta(microseconds=us)).astimezone(z).utcoffset() // US
    out = []
    for y in years:
        lo = int((datetime(y, 1, 1) - EPOCH_NAIVE).total_seconds()) * 10**6
        for d in range(0, 366):
            a, b = lo + d * 86400 * 10**6, lo + (d + 1) * 86400 * 10**6
            if off(a) != off(b):
                while b - a > 1_000_000:
                    m = (a + b) // 2 // 10**6 * 10**6
                    if off(m) == off(a):
                        a = m
                    else:
                        b = m
                if off(a) % 60_000_000 == 0 and off(b) % 60_000_000 == 0:
                    out.append((b, off(a), off(b)))
    return out


def zone_table():
    """[(zspec, t_us, before_us, after_us)]"""
    tab = [(z, z[1], z[2] * 60_000_000, z[3] * 60_000_000) for z in SYNTH]
    for key in IANA:
        for t, b, a in transitions(key):
            tab.append((["iana", key], t, b, a))
    return tab


def ambiguous_walls(t, before, after, rng=None):
    """wall-clock times (µs) that are read twice (fold, after < before) or not at all (gap) around the change, edges
    included, with microsecond fields off the millisecond grid"""
    lo, hi = t + min(before, after), t + max(before, after)       # [lo, hi) is the repeated / skipped wall interval
    pts = [lo, lo + 1, lo + 999, lo + (hi - lo) // 2 + 123_456, hi - 1, hi - 1000]
    if rng is not None:
        pts = [rng.randrange(lo, hi) for _ in range(2)] + [rng.choice(pts)]
    return pts, [lo - 1, lo - 1_000_000, hi, hi + 999_999]          # inside, just outside (unambiguous)


def zts(z, wall, fold):
    return {"form": "zone", "zone": z, "wall": wall, "fold": fold}


def boundary_sessions(tab):
    out = []
    td = DURS[1]
    for n, (z, t, before, after) in enumerate(tab):
        inside, outside = ambiguous_walls(t, before, after)
        w = inside[3]
        x = DATA[n % len(DATA)]
        # the two readings of one wall time: two instances, both orders
        out.append([["new", "a", 1, zts(z, w, 0), td, x], ["new", "b", 2, zts(z, w, 1), td, x]])
        out.append([["new", "b", 2, zts(z, w, 1), td, x], ["new", "a", 1, zts(z, w, 0), td, x]])
        if n % 3 == 0:
            # one instance, assigned one reading after the other and back
            out.append([["new", "a", None, zts(z, inside[0], 0), DURS[0], x], ["set", "a", "timestamp", zts(z, inside[0], 1)],
                        ["set", "a", "timestamp", zts(z, inside[0], 0)], ["rebuild", "c", "a", "json"]])
        elif n % 3 == 1:
            # the anchored function first, then events
            out.append([["parse", zts(z, inside[4], 1)], ["parse", zts(z, inside[4], 0)], ["new", "a", 7, zts(z, inside[4], 1), DURS[2], x],
                        ["new", "b", 7, zts(z, inside[4], 0), DURS[2], x]])
        else:
            # edges of the interval and its unambiguous neighbours with both fold values
            out.append([["new", "v%d" % j, j, zts(z, wl, f), DURS[3], x] for j, (wl, f) in enumerate(
                [(outside[0], 0), (outside[0], 1), (inside[0], 0), (inside[0], 1), (outside[2], 1), (outside[2], 0)])])
    # the same instant written differently: zones, strings, naive
    u = BASE + 123_456
    iso = "2020-09-13T12:26:40.123456"
    out.append([["new", "a", 1, {"form": "dt", "utc": u, "off": 0}, td, {}],
                ["new", "b", 1, {"form": "dt", "utc": u, "off": 330 * 60_000_000}, td, {}],
                ["new", "c", 1, {"form": "str", "text": iso + "Z", "instant": [u, 1], "off": 0}, td, {}],
                ["new", "d", 1, {"form": "str", "text": iso + "+00:00", "instant": [u, 1], "off": 0}, td, {}],
                ["new", "e", 1, {"form": "naive", "local": u}, td, {}],
                ["new", "f", 1, {"form": "str", "text": "2020-09-13T17:56:40.123456+05:30", "instant": [u, 1], "off": 330 * 60_000_000}, td, {}],
                ["new", "g", 1, {"form": "dt", "utc": u + 3600 * 10**6, "off": 3600 * 10**6}, td, {}],
                ["new", "h", 1, {"form": "dt", "utc": u, "off": 3600 * 10**6}, td, {}]])
    # one instance through many assignments, JSON taken in between; two instances from the same inputs
    out.append([["new", "a", 5, {"form": "dt", "utc": u, "off": 0}, DURS[3], {"app": "a"}],
                ["new", "b", 5, {"form": "dt", "utc": u, "off": 0}, DURS[3], {"app": "a"}],
                ["set", "a", "timestamp", {"form": "dt", "utc": u + 999, "off": -210 * 60_000_000}],
                ["set", "a", "duration", DURS[2]], ["set", "a", "duration", DURS[6]], ["rebuild", "c", "a", "json"],
                ["set", "a", "data", {"app": "b"}], ["put", "a", "k", [1]], ["set", "a", "id", 9], ["rebuild", "d", "a", "event"],
                ["set", "d", "timestamp", {"form": "str", "text": "2031-01-01T00:00:00.000999+01:00",
                                            "instant": [1924988400000999, 1], "off": 3600 * 10**6}],
                ["set", "c", "duration", DURS[5]], ["set", "b", "id", None], ["rebuild", "e", "d", "json"]])
    # constructor defaults: events built without data / duration, one of them written to in place
    out.append([["new", "a", 1, {"form": "dt", "utc": u, "off": 0}, None, None], ["put", "a", "k", 1],
                ["new", "b", 2, {"form": "dt", "utc": u + 1000, "off": 0}, None, None], ["put", "b", "app", "z"],
                ["new", "c", None, {"form": "dt", "utc": u, "off": 0}, DURS[3], None], ["rebuild", "d", "c", "json"]])
    # an event whose data is large (longer than any chunk constant of a serialiser)
    big = {"keys": {"k%05d" % i: i for i in range(10_001)}, "list": list(range(10_050)), "text": "x" * 70_000}
    out.append([["new", "a", 1, {"form": "dt", "utc": u, "off": 0}, td, big], ["rebuild", "b", "a", "json"], ["rebuild", "c", "a", "event"]])
    return out


def rand_ts(rng, tab):
    r = rng.random()
    if r < 0.55:
        z, t, before, after = rng.choice(tab)
        inside, outside = ambiguous_walls(t, before, after, rng)
        return zts(z, rng.choice(inside + inside + outside), rng.randrange(2))
    u = rng.choice([BASE, 2**51, 951782400 * 10**6]) + rng.randrange(0, 10**7)
    if r < 0.8:
        return {"form": "dt", "utc": u, "off": rng.choice([0, 0, 330, -210, 765, -1]) * 60_000_000}
    if r < 0.9:
        return {"form": "naive", "local": u}
    d = EPOCH_NAIVE + timedelta(microseconds=u)
    return {"form": "str", "text": d.strftime("%Y-%m-%dT%H:%M:%S.") + "%06dZ" % d.microsecond, "instant": [u, 1], "off": 0}


def random_session(rng, tab):
    script, names = [], []
    pool = [rand_ts(rng, tab) for _ in range(2)]
    # twins of the pooled zone readings: the look-alikes are what collides
    pool += [dict(p, fold=1 - p["fold"]) for p in pool if p["form"] == "zone"]

    def ts():
        return copy.deepcopy(rng.choice(pool)) if rng.random() < 0.75 else rand_ts(rng, tab)
    for _ in range(rng.randrange(3, 9)):
        r = rng.random()
        if r < 0.45 or not names:
            v = "e%d" % len(names)
            names.append(v)
            script.append(["new", v, rng.choice([None, 1, 7]), ts(), rng.choice(DURS + [None]), rng.choice(DATA + [None])])
        elif r < 0.70:
            script.append(["set", rng.choice(names), "timestamp", ts()])
        elif r < 0.78:
            script.append(["set", rng.choice(names), "duration", rng.choice(DURS)])
        elif r < 0.83:
            script.append(["set", rng.choice(names), "data", rng.choice(DATA)])
        elif r < 0.87:
            script.append(["set", rng.choice(names), "id", rng.choice([None, 3, 2**40])])
        elif r < 0.92:
            script.append(["parse", ts()])
        elif r < 0.96:
            v = "e%d" % len(names)
            script.append(["rebuild", v, rng.choice(names), rng.choice(["json", "event"])])
            names.append(v)
        else:
            script.append(["put", rng.choice(names), rng.choice(["k", "app"]), rng.choice([1, "z", [1, 2]])])
    return script


# ---------------------------------------------------------------------------
# faults the caller survives, two threads

def str_ts(utc_us, off_min=0, zone="hm"):
    """ISO-8601 text of the instant in the given offset, 6 fraction digits"""
    d = EPOCH_NAIVE + timedelta(microseconds=utc_us + off_min * 60_000_000)
    z = "Z" if zone == "Z" and off_min == 0 else "%s%02d:%02d" % ("-" if off_min < 0 else "+", abs(off_min) // 60, abs(off_min) % 60)
    return {"form": "str", "text": d.strftime("%Y-%m-%dT%H:%M:%S.") + "%06d" % d.microsecond + z, "instant": [utc_us, 1],
            "off": off_min * 60_000_000}


# strings of four different instants (offsets +01:00, -14:00, Z, +05:30; years 2020, 1999, 2077, 2031), off the ms grid
STRS = [str_ts(BASE + 111_999, 60), str_ts(BASE + 5_222_999, 60), str_ts(946_735_199_999_999, -840), str_ts(3_393_212_827_007_007, 0, "Z"),
        str_ts(1_936_057_089_123_456, 330)]
OKDATA = {"label": "ok"}
UNENCODABLE = ["bigint", "deep", "bytes", "cycle", "tuplekey", "set"]
INJECTED = ["MemoryError", "RecursionError", "KeyboardInterrupt", "ValueError", "TypeError", "OSError"]
BAD_DURS = [{"kind": "float", "hex": "nan"}, {"kind": "float", "hex": "inf"}, {"kind": "float", "hex": (1e300).hex()},
            {"kind": "bad", "what": "str"}, {"kind": "bad", "what": "fraction"}, {"kind": "bad", "what": "none"},
            {"kind": "bad", "what": "complex"}, {"kind": "int", "s": 10**14}, {"kind": "int", "s": -86399999913601}]
BAD_TS = [{"form": "str", "text": "garbage", "instant": None, "off": 0}, {"form": "str", "text": "2021-02-29T00:00:00Z", "instant": None, "off": 0},
          {"form": "str", "text": "", "instant": None, "off": 0}, {"form": "str", "text": "0001-01-01T00:00:00+01:00", "instant": None, "off": 0},
          {"form": "str", "text": "9999-12-31T23:59:59.999999-00:01", "instant": None, "off": 0}]


def fault_sessions(tab):
    """FAULTS: the callee of an Event method raises once and the caller carries on.  Every session has the event the
    faulty call is made on / from (a) and a bystander (w); every live event is re-observed after every step."""
    out = []
    fl = DURS[3]
    gapz = tab[0][0]
    wall = ambiguous_walls(*tab[0][1:])[0][3]
    n = 0
    # (1) serialising: the encoder (json.dumps / JSONEncoder.encode) or the dict copy raises once, injected
    for callee in ("json.dumps", "json.encode", "Event.copy"):
        for op in (["json", "a"], ["dict", "a"], ["rebuild", "c", "a", "json"], ["rebuild", "c", "a", "event"]):
            exc = INJECTED[n % len(INJECTED)]
            n += 1
            out.append([["new", "a", 7, STRS[4], {"kind": "float", "hex": (12.5).hex()}, {"label": "x"}], ["new", "w", 8, STRS[0], fl, {}],
                        ["fault", op, [callee, exc, 1]], ["set", "a", "data", OKDATA], op, ["json", "a"]])
            out.append([["quiet", ["new", "a", None, zts(gapz, wall, n % 2), DURS[1], {"label": "x"}]], ["quiet", ["fault", op, [callee, exc, 1]]],
                        ["dict", "a"], ["rebuild", "d", "a", "json"]])
    # (2) serialising: data the encoder of this interpreter refuses (the natural ways), then the payload is dropped
    for j, kind in enumerate(UNENCODABLE):
        x = {"n": {"$": kind}}
        out.append([["new", "a", 7, STRS[4], {"kind": "float", "hex": (12.5).hex()}, x], ["json", "a"], ["dict", "a"], ["rebuild", "c", "a", "json"],
                    ["rebuild", "d", "a", "event"], ["set", "a", "data", OKDATA], ["json", "a"], ["rebuild", "c", "a", "json"]])
        out.append([["new", "a", j, STRS[j % 4], DURS[j % len(DURS)], {"k": [1, {"deeper": {"$": kind}}]}], ["new", "w", 8, STRS[0], fl, {"app": "w"}],
                    ["quiet", ["json", "a"]], ["quiet", ["rebuild", "c", "a", "json"]], ["put", "a", "k", 1], ["json", "a"]])
        out.append([["new", "a", None, {"form": "dt", "utc": BASE + 999, "off": -210 * 60_000_000}, DURS[2], {"app": "a"}], ["put", "a", "raw", {"$": kind}],
                    ["json", "a"], ["set", "a", "timestamp", STRS[1]], ["put", "a", "raw", None], ["json", "a"], ["rebuild", "c", "a", "json"]])
    # (3) parsing: iso8601.parse_date raises once inside the constructor / the setter / _timestamp_parse / Event(**json);
    # the same call is then made again, straight away (quiet) and after an observation
    for quiet in (True, False):
        for j, exc in enumerate(INJECTED[:4]):
            q = (lambda st: ["quiet", st]) if quiet else (lambda st: st)
            f = ["iso8601.parse_date", exc, 1]
            s0, s1, s2 = STRS[j % 4], STRS[(j + 1) % 4], STRS[(j + 2) % 4]
            out.append([q(["new", "p", 1, s0, fl, {}]), q(["fault", ["new", "a", 2, s1, fl, {}], f]), ["new", "a", 2, s1, fl, {}],
                        ["new", "b", 3, s1, fl, {}], ["new", "c", 4, s0, fl, {}]])
            out.append([q(["new", "a", 1, s0, fl, {}]), q(["fault", ["set", "a", "timestamp", s1], f]), ["set", "a", "timestamp", s1],
                        ["new", "b", 3, s1, fl, {}], q(["fault", ["set", "b", "timestamp", s2], f]), ["new", "c", 4, s2, fl, {}]])
            out.append([q(["parse", s0]), q(["fault", ["parse", s1], f]), ["parse", s1], q(["new", "a", 1, s1, fl, {}]),
                        q(["fault", ["rebuild", "c", "a", "json"], f]), ["rebuild", "c", "a", "json"], ["new", "b", 2, s0, fl, {}]])
    # a time zone object of the caller's whose utcoffset raises once; the warning about a naive timestamp raising once
    for j, exc in enumerate(INJECTED[:3]):
        out.append([["new", "a", 1, zts(gapz, wall, 0), fl, {}], ["fault", ["set", "a", "timestamp", zts(gapz, wall, 1)], ["zone.utcoffset", exc, 1 + j % 2]],
                    ["set", "a", "timestamp", zts(gapz, wall, 1)], ["fault", ["new", "b", 2, zts(gapz, wall, 0), fl, {}], ["zone.utcoffset", exc, 1]],
                    ["new", "b", 2, zts(gapz, wall, 0), fl, {}]])
        out.append([["new", "a", 1, STRS[0], fl, {}], ["fault", ["set", "a", "timestamp", {"form": "naive", "local": BASE + 1}], ["logging.warning", exc, 1]],
                    ["fault", ["new", "b", 2, {"form": "naive", "local": BASE + 2001}, fl, {}], ["logging.warning", exc, 1]],
                    ["new", "b", 2, {"form": "naive", "local": BASE + 2001}, fl, {}]])
    # (4) assignments that fail on their own: not a duration / not a timestamp; the event keeps what it had
    steps = [["new", "a", 5, STRS[1], fl, {"app": "a"}], ["new", "w", 6, zts(gapz, wall, 1), DURS[5], {}]]
    for du in BAD_DURS:
        steps.append(["set", "a", "duration", du])
    for ts in BAD_TS:
        steps.append(["set", "a", "timestamp", ts])
    steps += [["rebuild", "c", "a", "json"], ["set", "a", "duration", DURS[6]]]
    out.append(steps)
    out.append([["new", "a", 5, STRS[2], DURS[1], {}]] + [["quiet", ["set", "a", "duration", du]] for du in BAD_DURS[:7]]
               + [["quiet", ["set", "a", "timestamp", ts]] for ts in BAD_TS] + [["json", "a"]])
    # constructors that fail half-way (timestamp accepted, duration refused; and the other way round) beside live events
    out.append([["new", "w", 6, STRS[3], fl, {"app": "w"}]] + [["new", "x%d" % j, j, STRS[j % 4], du, {"app": "w"}] for j, du in enumerate(BAD_DURS)]
               + [["new", "y%d" % j, j, ts, fl, {}] for j, ts in enumerate(BAD_TS)] + [["rebuild", "c", "w", "event"]])
    return out


def _ser(v):
    return [["json", v], ["dict", v], ["rebuild", "r" + v, v, "json"], ["rebuild", "r" + v, v, "event"]]


def thread_sessions(tab):
    """THREADS: thread A is suspended inside a callee, thread B runs a complete operation (harness/twothreads.py).
    Every string-parsing entry point x every string-parsing entry point (same string / different strings; with and
    without the observations in between), every serialising entry point x (serialising the same event, another
    event, assigning to / building another event)."""
    out = []
    fl = DURS[3]
    n = 0

    def parsing(kind, v, s):
        return {"new": ["new", v, 1 + n % 3, s, fl, {}], "set": ["set", v, "timestamp", s], "parse": ["parse", s],
                "json": ["rebuild", v + "2", v, "json"]}[kind]
    for ka in ("new", "set", "parse", "json"):
        for kb in ("new", "set", "parse", "json"):
            for same in (True, False):
                n += 1
                s0, sa = STRS[n % 4], STRS[(n + 1) % 4]
                sb = sa if same else STRS[(n + 2) % 4]
                pre = [["new", "p", 1, s0, fl, {}]]
                # events that a set / Event(**json) step works on: built from DATETIMES, so that no string is parsed for them
                pre += [["new", "a", 2, {"form": "dt", "utc": sa["instant"][0] if ka == "json" else BASE, "off": 0}, fl, {}]] if ka in ("set", "json") else []
                pre += [["new", "b", 3, {"form": "dt", "utc": sb["instant"][0] if kb == "json" else BASE + 1000, "off": 0}, fl, {}]] if kb in ("set", "json") else []
                il = ["interleave", parsing(ka, "a", sa), parsing(kb, "b", sb), "iso8601.parse_date", 1]
                post = [["new", "c", 4, sb, fl, {}], ["new", "d", 5, sa, fl, {}], ["parse", sb]]
                out.append(pre + [il] + post)
                out.append([["quiet", st] for st in pre] + [["quiet", il]] + post)
    # serialising
    base = [["new", "a", 1, STRS[0], fl, {"app": "a"}], ["new", "b", 2, STRS[1], DURS[1], {"app": "b"}]]
    for callee, ops in (("json.dumps", [_ser("a")[0], _ser("a")[2]]), ("json.encode", [_ser("a")[0], _ser("a")[2]]),
                        ("Event.copy", _ser("a")[:3])):
        for opa in ops:
            for opb in _ser("a") + [["json", "b"], ["set", "b", "timestamp", STRS[2]], ["set", "b", "duration", DURS[2]], ["new", "c", 3, STRS[3], fl, {}],
                                    ["put", "b", "k", 1]]:
                if opb[1] == opa[1] and opb[0] == "rebuild" and opa[0] == "rebuild":
                    opb = ["rebuild", "s" + opb[2], opb[2], opb[3]]
                out.append(base + [["interleave", opa, opb, callee, 1], ["json", "a"], ["json", "b"]])
    # the caller's tzinfo object / the naive-timestamp warning as the place where A is suspended: fold twins, two naive times
    for z, t, before, after in tab[:4]:
        w = ambiguous_walls(t, before, after)[0][3]
        out.append([["interleave", ["new", "a", 1, zts(z, w, 0), fl, {}], ["new", "b", 2, zts(z, w, 1), fl, {}], "zone.utcoffset", 1],
                    ["interleave", ["set", "a", "timestamp", zts(z, w, 1)], ["set", "b", "timestamp", zts(z, w, 0)], "zone.utcoffset", 1]])
    out.append([["interleave", ["new", "a", 1, {"form": "naive", "local": BASE + 1999}, fl, {}], ["new", "b", 2, {"form": "naive", "local": BASE + 61_000_999}, fl, {}],
                 "logging.warning", 1], ["new", "c", 3, {"form": "naive", "local": BASE + 61_000_999}, fl, {}]])
    return out


def rand_plain_step(rng, names, tab, fresh):
    """one ordinary step for a fault / interleave step; `fresh`: name for an event it may create"""
    r = rng.random()
    s = copy.deepcopy(rng.choice(STRS)) if rng.random() < 0.7 else rand_ts(rng, tab)
    if r < 0.25 or not names:
        return ["new", fresh, rng.choice([None, 1, 7]), s, rng.choice(DURS), rng.choice(DATA)]
    v = rng.choice(names)
    if r < 0.45:
        return ["set", v, "timestamp", s]
    if r < 0.5:
        return ["set", v, "duration", rng.choice(DURS + BAD_DURS)]
    if r < 0.6:
        return ["parse", s]
    if r < 0.75:
        return ["json", v]
    if r < 0.82:
        return ["dict", v]
    if r < 0.95:
        return ["rebuild", fresh, v, rng.choice(["json", "event"])]
    return ["put", v, "raw", rng.choice([{"$": k} for k in UNENCODABLE] + [None, 1])]


def _creates(st):
    return st[1] if st[0] in ("new", "rebuild") else None


def _touches(st):
    return {"new": [], "set": [st[1]], "parse": [], "json": [], "dict": [], "put": [st[1]], "rebuild": []}[st[0]]


def random_fault_thread_session(rng, tab):
    script, names = [], []
    for j in range(rng.randrange(2, 4)):
        script.append(["new", "e%d" % j, rng.choice([None, 1, 7]), copy.deepcopy(rng.choice(STRS)) if rng.random() < 0.5 else rand_ts(rng, tab),
                       rng.choice(DURS), rng.choice(DATA)])
        names.append("e%d" % j)
    for _ in range(rng.randrange(2, 6)):
        r = rng.random()
        fresh = "e%d" % len(names)
        if r < 0.45:
            st = rand_plain_step(rng, names, tab, fresh)
            callee = rng.choice({"new": ["iso8601.parse_date", "zone.utcoffset", "logging.warning"], "set": ["iso8601.parse_date", "zone.utcoffset"],
                                 "parse": ["iso8601.parse_date"], "json": ["json.dumps", "json.encode", "Event.copy"], "dict": ["Event.copy", "copy.copy"],
                                 "rebuild": ["json.dumps", "Event.copy", "iso8601.parse_date", "copy.deepcopy"], "put": ["copy.copy"]}[st[0]])
            step = ["fault", st, [callee, rng.choice(INJECTED), rng.choice([1, 1, 1, 2])]]
            script.append(["quiet", step] if rng.random() < 0.5 else step)
            if rng.random() < 0.6:
                script.append(copy.deepcopy(st))        # the caller tries again
                if _creates(st):
                    names.append(fresh)
        elif r < 0.85:
            sa = rand_plain_step(rng, names, tab, fresh)
            sb = rand_plain_step(rng, names, tab, fresh + "b")
            # B does not assign to the event A is working on (the sequential answer would depend on the order)
            wa = set(_touches(sa)) | ({sa[1]} if sa[0] in ("json", "dict") else set()) | ({sa[2]} if sa[0] == "rebuild" else set())
            if set(_touches(sb)) & wa or (set(_touches(sa)) & ({sb[1]} if sb[0] in ("json", "dict") else {sb[2]} if sb[0] == "rebuild" else set())):
                sb = ["parse", copy.deepcopy(rng.choice(STRS))]
            callee = rng.choice({"new": ["iso8601.parse_date", "zone.utcoffset"], "set": ["iso8601.parse_date", "zone.utcoffset"],
                                 "parse": ["iso8601.parse_date"], "json": ["json.dumps", "json.encode", "Event.copy"], "dict": ["Event.copy"],
                                 "rebuild": ["json.dumps", "Event.copy", "iso8601.parse_date"], "put": ["json.dumps"]}[sa[0]])
            step = ["interleave", sa, sb, callee, rng.choice([1, 1, 1, 2])]
            script.append(["quiet", step] if rng.random() < 0.4 else step)
            for st in (sa, sb):
                if _creates(st):
                    names.append(_creates(st))
        else:
            st = rand_plain_step(rng, names, tab, fresh)
            script.append(st)
            if _creates(st):
                names.append(fresh)
    return script


def simplify_wrappers(script, fails):
    """after the list shrink: try to do without each `quiet`, and to replace an interleave step by its two steps in a
    row (if the script still fails, the threads were not needed: the failing input is the simpler, sequential one)"""
    cur = list(script)
    for _ in range(12):
        for i, st in enumerate(cur):
            cands = []
            if st[0] == "quiet":
                cands.append(cur[:i] + [st[1]] + cur[i + 1:])
            inner = st[1] if st[0] == "quiet" else st
            if inner[0] == "interleave":
                cands.append(cur[:i] + [inner[1], inner[2]] + cur[i + 1:])
            hit = next((c for c in cands if fails(c)), None)
            if hit is not None:
                cur = hit
                break
        else:
            break
    return cur


def shrink_script(script, fails):
    return common.shrink_list(script, fails, max_steps=120)


def make_runner(c13, Event, parse, validator):
    """call BEFORE the check has called anything in aw_core (harness/freshproc.py)"""
    from .freshproc import Fresh
    callees(Event)          # patch sites of the callees: computed once, in the snapshot

    def handler(script):
        stats = {}
        observations, findings = run_script(script, c13, Event, parse, validator, stats)
        return observations, findings, stats
    return Fresh(handler, timeout_s=120)


def flat_steps(script):
    """the ordinary steps inside quiet / fault / interleave wrappers, with the wrapper names"""
    for st in script:
        wrap = []
        todo = [(st, wrap)]
        while todo:
            x, w = todo.pop(0)
            if x[0] == "quiet":
                todo.append((x[1], w + ["quiet"]))
            elif x[0] == "fault":
                todo.append((x[1], w + ["fault:" + x[2][0] + ":" + x[2][1]]))
            elif x[0] == "interleave":
                todo.append((x[1], w + ["thread-A-suspended-in:" + x[3]]))
                todo.append((x[2], w + ["thread-B"]))
            else:
                yield x, w


def run(ck, runner):
    """-> (terms, wires, descriptions) for the in-Coq model; oracle findings are reported here (shrunk script)"""
    tab = zone_table()
    ck.coverage["history_zones"] = sorted({z[-1] for z, _, _, _ in tab})
    n = 250 if ck.tier == "quick" else 8000
    sessions = boundary_sessions(tab) + [random_session(ck.rng, tab) for _ in range(n)]
    # faults the caller survives / two threads (round 6)
    n_ft = 150 if ck.tier == "quick" else 4000
    fs, ts = fault_sessions(tab), thread_sessions(tab)
    extra = [x for pair in zip(fs, ts) for x in pair] + fs[len(ts):] + ts[len(fs):]      # alternating
    extra += [random_fault_thread_session(ck.rng, tab) for _ in range(n_ft)]
    ck.coverage["history_fault_and_thread_sessions"] = len(extra)
    sessions += extra
    terms, wires, descs = [], [], []
    seen = set()
    timeouts = 0
    for si, script in enumerate(sessions):
        if timeouts >= 3:        # every further hanging session would cost SESSION_S: three replays are enough
            ck.count("history:sessions-not-run-after-3-timeouts")
            continue
        observations, findings, stats = runner.run(script)
        timeouts += any(f[1] == "C13:timeout" for f in findings)
        ck.count("history:sessions")
        for key, cnt in stats.items():
            ck.count("history:" + key, cnt)
        for st, wrap in flat_steps(script):
            ck.count("history:step:" + st[0] + (":" + st[2] if st[0] == "set" else ""))
            for w in wrap:
                ck.count("history:" + w.split(":")[0] + ":" + st[0])
            tss = [a for a in st if isinstance(a, dict) and "form" in a]
            for t in tss:
                ck.count("history:ts:" + t["form"] + (":fold=%d" % t["fold"] if t["form"] == "zone" else ""))
        for (k, v, term, wire) in observations:
            ck.note_case(["history", si, k, v, term], nontrivial=k > 0)
            key = (term, tuple(wire))
            if key in seen:          # the model is a pure function of the term: the same term against the same wire again
                ck.count("history:observations-identical-to-an-earlier-one")
                continue
            seen.add(key)
            terms.append(term)
            wires.append(wire)
            descs.append("history session %d, event %s after step %d of %s" % (si, v, k, json.dumps(script)[:700]))
        if findings:
            k, sig, msg = findings[0]

            def fails(sc, _sig=sig):
                return any(s == _sig for _, s, _ in runner.run(sc)[1])
            do_shrink = len(ck.violations) < 3 and sig != "C13:timeout"      # every evaluation of a hanging script costs WAIT_S
            small = shrink_script(script, fails) if do_shrink else script
            small = simplify_wrappers(small, fails) if do_shrink else small
            f2 = [f for f in runner.run(small)[1] if f[1] == sig]
            k2, _, msg2 = f2[0] if f2 else (k, sig, msg)
            ck.failing_input(sig, "step %d of a sequence of calls in one process: %s" % (k2, msg2),
                             {"script": small, "failing_step": k2, "violated": msg2,
                              "how_to_read": "the steps run in order in ONE fresh process (harness/c13_hist.py)",
                              "rerun": "PYTHONPATH=%s:%s /venv/bin/python -m harness.c13_hist '%s'" % (
                                  common.REPO, common.VERIF, json.dumps(small))})
    ck.coverage["history_evaluations_in_fresh_processes"] = runner.evaluations
    return terms, wires, descs


def replay_main(argv):
    """python -m harness.c13_hist '<script json>' : run one script on the implementation, print the oracle's verdict"""
    import sys
    script = json.loads(argv[0])
    common.setup_impl_env()
    from . import c13
    from aw_core.models import Event, _timestamp_parse
    from aw_core.schema import get_json_schema
    import jsonschema
    schema = get_json_schema("event")
    validator = jsonschema.validators.validator_for(schema)(schema, format_checker=jsonschema.FormatChecker())
    observations, findings = run_script(script, c13, Event, _timestamp_parse, validator)
    for k, v, term, wire in observations:
        print("after step %d, event %s: given %s\n    holds %s" % (k, v, term[:200], wire[:6]))
    for k, sig, msg in findings:
        print("oracle : step %d %s: %s" % (k, sig, msg))
    if not findings:
        print("oracle : ok")
    return 1 if findings else 0


if __name__ == "__main__":
    import sys
    sys.exit(replay_main(sys.argv[1:]))
